#!/bin/bash
# usage: tools/seed_matrix.sh <seed name> <check id> ...   runs each check against the seed, one after the other, prints a summary
seed="$1"; shift
for id in "$@"; do
  out=$(/verif/tools/try_seed.sh /verif/seeded/$seed/patch.diff $id 2>&1)
  rc=$(echo "$out" | grep -o "check exit=[0-9]*" | tail -1)
  n=$(echo "$out" | grep -c "^VIOLATION")
  first=$(echo "$out" | grep "^VIOLATION" | head -1 | sed 's/.*# //' | cut -c1-200)
  echo "SEED $seed CHECK $id: $rc violations=$n $first"
done
