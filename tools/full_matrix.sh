#!/bin/bash
# Runs every seeded change against the check of its own property (plus the cross-detections recorded in DESIGN.md),
# writes /verif/seeded/matrix.tsv and fills "detected_by" in each meta.json.
# usage: tools/full_matrix.sh [shards]     (default 1; with N > 1 the seeds are dealt round-robin to N concurrent workers)
cd /verif
shards=${1:-1}
extra() { case "$1" in C03-b) echo C17;; C17-b) echo C01;; C10-b) echo C09;; C15-a) echo C04;; C01-c) echo C17;; C14-c) echo C01 C03;; C08-c) echo C18;; C03-c) echo C17 C01;; C15-d) echo C04;; C11-d) echo C09;; esac; }
seeds=(${MATRIX_SEEDS:-$(ls -d seeded/C*-[c-z] seeded/C*-[ab])})
worker() {
  w=$1; out=/verif/seeded/.matrix.$w.tsv; : > $out
  i=0
  for d in "${seeds[@]}"; do
    if [ $((i % shards)) -eq $w ]; then
      s=$(basename $d); own=${s%-*}
      for chk in $own $(extra $s); do
        line=$(tools/seed_matrix.sh $s $chk 2>&1 | tail -1)
        rc=$(echo "$line" | grep -o "exit=[0-9]*" | cut -d= -f2); n=$(echo "$line" | grep -o "violations=[0-9]*" | cut -d= -f2)
        first=$(echo "$line" | sed 's/.*violations=[0-9]* //' | cut -c1-160)
        printf "%s\t%s\t%s\t%s\t%s\n" "$s" "$chk" "${rc:-?}" "${n:-0}" "$first" >> $out
      done
    fi
    i=$((i + 1))
  done
}
for w in $(seq 0 $((shards - 1))); do worker $w & done
wait
sort -V /verif/seeded/.matrix.*.tsv > /verif/seeded/matrix.tsv; rm -f /verif/seeded/.matrix.*.tsv
python3 - <<'EOP'
import json,collections
det=collections.defaultdict(list)
for l in open('/verif/seeded/matrix.tsv'):
    s,chk,rc,n,first=l.rstrip('\n').split('\t')
    if rc=='1' and int(n)>0: det[s].append(chk)
import glob,os
for d in sorted(glob.glob("/verif/seeded/C*-[a-z]")):
    m=os.path.join(d,'meta.json'); j=json.load(open(m)); j['detected_by']=det.get(os.path.basename(d),[]); json.dump(j,open(m,'w'),indent=1)
print({k:v for k,v in det.items()})
EOP
