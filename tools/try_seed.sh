#!/bin/sh
# usage: tools/try_seed.sh <patch.diff> <check id> [extra args]  -- apply a seeded change to /repo, run the check, always undo
patch="$(realpath "$1")"; id="$2"; shift 2
git -C /repo diff --quiet || { echo "/repo has local modifications"; exit 2; }
git -C /repo apply "$patch" 2>/dev/null || (cd /repo && patch -p1 -F 5 -s --no-backup-if-mismatch < "$patch") || { echo "patch does not apply"; git -C /repo checkout -- .; exit 2; }
VERIF_NO_EVIDENCE=1 /verif/check "$id" "$@"; rc=$?
git -C /repo checkout -- . ; git -C /repo clean -fdq -- tooling
echo "check exit=$rc"
exit $rc
