#!/bin/bash
# usage: tools/try_seed.sh <patch.diff> <check id> [extra args]
# Runs a check against a seeded change.  Default: in a throw-away worktree of /repo HEAD (so that several seeds can be tried while
# /repo itself stays untouched; the check is pointed at it through VERIF_REPO).  With VERIF_SEED_INPLACE=1 the patch is applied to
# /repo itself and undone afterwards (the way the brief describes).
patch="$(realpath "$1")"; id="$2"; shift 2
if [ -n "$VERIF_SEED_INPLACE" ]; then
  git -C /repo diff --quiet || { echo "/repo has local modifications"; exit 2; }
  git -C /repo apply "$patch" 2>/dev/null || (cd /repo && patch -p1 -F 5 -s --no-backup-if-mismatch < "$patch") || { echo "patch does not apply"; git -C /repo checkout -- .; exit 2; }
  VERIF_NO_EVIDENCE=1 /verif/check "$id" "$@"; rc=$?
  git -C /repo checkout -- . ; git -C /repo clean -fdq -- tooling
else
  wt=$(mktemp -d /tmp/seedrun-XXXXXX); rmdir "$wt"
  git -C /repo worktree add --detach "$wt" HEAD >/dev/null 2>&1 || { echo "worktree failed"; exit 2; }
  (cd "$wt" && (git apply "$patch" 2>/dev/null || patch -p1 -F 5 -s --no-backup-if-mismatch < "$patch")) || { echo "patch does not apply"; git -C /repo worktree remove --force "$wt"; exit 2; }
  VERIF_REPO="$wt" VERIF_NO_EVIDENCE=1 /verif/check "$id" "$@"; rc=$?
  git -C /repo worktree remove --force "$wt" >/dev/null 2>&1; rm -rf "$wt"
fi
echo "check exit=$rc"
exit $rc
