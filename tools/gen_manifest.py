#!/usr/bin/env python3
"""Regenerates /verif/MANIFEST.json from the table below (one entry per claimed property)."""
import json, os
V = os.path.dirname(os.path.dirname(os.path.abspath(__file__)))
props = [json.loads(l) for l in open(os.path.join(V, "properties.jsonl"))]

CHECKS = {
 "C01": dict(cat="model_checking", engine="tlc-export+generated-code",
   text="TLC evaluates the wire specification (Wire.tla: Enc, Alts; Ndjson.tla: Json) over a bounded universe of types x edge values, checks UniquelyDecodable/UntaggedIsDecodable on it and exports every case; each case is then decoded from the spec's bytes by the generated C++ and Python binary readers and re-encoded by the generated writers (bytes must be in the spec's admissible set), and cross-checked at value level through NDJSON in both directions.",
   note="Bounded universe (quick: depth-1 constructors over 9 element types + JSON-kind union matrix + seeded depth-2 sample; thorough: all primitives, both union orientations, larger depth-2 sample). Float/string/date leaves are opaque tokens whose bytes come from Python struct/datetime. C++ is compiled against /verif's date.h and N-d array shims. HDF5/MATLAB not executed.",
   tech="TLA+ functional spec evaluated by TLC, one implementation execution per exported case (membership in spec-computed encoding sets)"),
 "C02": dict(cat="model_checking", engine="tlc-export+generated-code",
   text="TLC evaluates the NDJSON mapping of spec/wire/Ndjson.tla (Json, Kinds, Untagged) over the bounded universe, including a two-case union for every pair of JSON-kind classes (tagged/untagged decision) and record values that differ in which optional fields are present, checks UntaggedIsDecodable and exports every case; each case is read from the spec's NDJSON by the generated C++ and Python readers and re-written (output must equal the documented JSON tree), and cross-checked against the spec's binary encoding in both directions.",
   note="Same bounded universe as C01. JSON compared as values (numbers numerically, float32 after rounding, object key order ignored, time fractions may drop trailing zeros as the reference's FFFFFFFFF format allows); non-finite floats excluded. C++ date/time text comes from /verif's date.h shim.",
   tech="TLA+ functional spec evaluated by TLC, one implementation execution per exported case (equality with spec-computed JSON trees)"),
 "C03": dict(cat="model_checking", engine="tlc-export+generated-code",
   text="For every case exported by TLC from the wire specification, every chain 'language A reads the spec's stream in format f0 and writes format f1, language B reads A's actual output and writes binary' over {C++, Python} x {binary, NDJSON} is executed; A's output and B's output must both lie in the spec's admissible sets (Enc up to block boundaries and map entry order; the documented JSON tree), which is exactly byte-identity of the binary streams of the two languages up to block boundaries and map order.",
   note="Same bounded universe as C01/C02 (types that C++ cannot build, see C08 findings, are excluded because two languages are needed). MATLAB is never executed. C++ uses /verif's shims.",
   tech="TLA+ functional spec evaluated by TLC; two-hop cross-language/cross-format replay of every exported case"),
 "C07": dict(cat="model_checking", engine="tlc-replay+generated-code",
   text="TLC explores spec/proto/ProtocolSM.tla: every protocol shape up to the bound x every API call in every reachable state, for four API models (C++ writer, C++ reader with single and batch reads, Python writer, Python reader), checking that the implementation-shaped state machines (generated state numbering) refine the abstract step-order requirement; one shortest call history per (state, call) is exported and performed on the real generated readers/writers (accept/raise per call, delivered counts); a 130-step protocol exercises the state counter width.",
   note="Shapes of length <=3 (quick) / <=4 (thorough), two items per stream. 'either' where the property is silent (fully delivered stream whose end was not observed; Python stream step never written). Sequences end at the first rejected call. MATLAB not executed.",
   tech="TLA+ state machine + TLC exhaustive exploration with VIEW; replay of exported call histories on generated code"),
 "C11": dict(cat="model_checking", engine="tlc+cli-replay+trace-validation",
   text="spec/tool/Pipeline.tla models the command as phases (Load, Override, Parse, ValidateNs, ValidateVersion, Evolution, Generate, Exit); TLC enumerates every configuration (error location in {manifest, main package, import level 1/2, previous version, import of a previous version, evolution check, duplicate version label, bad -c override} x error kind x enabled targets x output directory state x command x whether importers reference their imports) and checks NoWriteBeforeAllValidated / ErrorImpliesUntouched / ErrorAnywhereImpliesExitNonZero. Every configuration is concretised as a 5-package project and run through the real CLI (exit status; path/sha256/mtime/mode snapshots of every output directory before and after), and the verif-hook trace of every run is validated by TLC against spec/trace/PipelineTrace.tla, whose enabling conditions are the ordering discipline (no WriteFile before Validated, no ValidateNs before the whole closure is parsed, no write before an error exit).",
   note="Quick: every (location, kind, command, output state, uses) with three seeded target sets; thorough: all 700+ configurations. Local directory imports/versions only. A corrupted trace (write moved before validation) is checked to be rejected on every run (binding self-test).",
   tech="TLA+ spec + TLC configuration enumeration; CLI replay with filesystem snapshots; trace validation of hook events against a TLA+ trace spec (POSTCONDITION high-water mark)"),
 "C12": dict(cat="model_checking", engine="tlc+cli-replay+trace-validation",
   text="spec/tool/Determinism.tla models diagnostics collected in an arbitrary (map-iteration) order and sorted before printing; TLC explores every collection order and checks OutputIndependentOfCollectionOrder for the sort key transcribed from errorsink.go/warningsink.go (holds) and for a position-only key (refuted), which identifies the packages worth repeating: several diagnostics at one position. Binding: N fresh-process runs (6 quick, 25 thorough) of validate/generate on nine packages built to populate the tool's maps must agree byte for byte in exit status, stdout, diagnostics and sha256 of every generated file for all four targets; regenerating an unchanged package touches no file and its hook trace (validated against PipelineTrace.tla with Exit.second_run) has no wrote=true event; a package edited and regenerated in place must equal its fresh generation.",
   note="Absolute paths in diagnostics are normalised. Left-over files of a previous model are noted, not asserted. Scenarios are fixed (seed only affects nothing here); runs are fresh processes because Go randomises map iteration per process.",
   tech="TLA+ model of collect-then-sort checked by TLC; repeated-execution comparison on the real CLI; trace validation of the idempotent second run"),
 "C15": dict(cat="model_checking", engine="tlc-replay+generated-code",
   text="spec/wire/Header.tla describes stream headers symbolically (binary: magic, format version, schema length, schema text; NDJSON: first line) and the reader-open machine; TLC enumerates every header with at most two simultaneous faults (each magic byte altered, four wrong versions, three wrong lengths, seven truncation points, schemas of a protocol differing in one field type, of an unregistered and of a registered previous version, of a foreign protocol, one changed character, non-JSON, NDJSON first-line faults) and checks AcceptOnlyKnown / RejectOnlyBad / NoValueBeforeAccept. Every terminal state is concretised around real schema text and a real stream body of the protocol the schema belongs to, and fed to the four generated readers (C++/Python x binary/NDJSON): a required rejection must raise before any value is delivered.",
   note="One reader protocol with four companion protocols. Acceptance of a registered previous version is asserted for the C++ binary reader only. A JSON-equal but re-serialised own schema is 'either' (C++ compares ordered JSON, Python unordered).",
   tech="TLA+ state machine + TLC enumeration of symbolic header faults; replay of every terminal state on generated readers"),
 "C16": dict(cat="model_checking", engine="tlc+generated-code-cuts",
   text="spec/wire/CodedStream.tla models the buffered C++ input stream with a parametric buffer size (4 in TLC, 65536 in the code): TLC explores every plan of read operations (byte, 1-3 byte varints, fixed integers, byte runs longer than the buffer) x every cut position and checks NeverReadBeyondEnd / ValuesCorrect / CutImpliesError; the misbehaving (operation, position relative to the buffer boundary) classes it finds for the code as first found were reproduced on the real reader and repaired, and the current-code configuration holds. The binding feeds truncated spec-composed streams to the generated C++ and Python readers: probes of 7 element kinds aligned r = 0..len+1 bytes before the 64 KiB boundary cut at every byte, every byte position of small multi-type streams (binary and NDJSON), and cuts around every 64 KiB multiple and inside >64 KiB elements of a 700 KB stream. Each cut must raise, must not crash, and whatever was delivered before must equal what was written.",
   note="Readers copy into an NDJSON writer in-process; delivered values are the complete lines written before the error, compared with the complete run. NDJSON cuts at a line boundary inside a trailing run of stream steps are well-formed shorter streams (no end marker in the format) and are not asserted. Sanitizer build only in the thorough tier.",
   tech="TLA+ model of the buffered reader checked exhaustively by TLC (parametric buffer size) + fault enumeration of cut positions on the generated readers"),
 "C17": dict(cat="model_checking", engine="tlc-replay+generated-code",
   text="TLC explores spec/wire/StreamBlocks.tla: every partition of the written items into blocks x every sequence of single and batch reads (capacities 1..3) on the implementation-shaped reader (current_block_remaining, unobserved-completion state), checking NoReadPastTerminator/DeliveredIsPrefix/DoneMeansAll/MoreMeansProgress; completed behaviours are replayed on the generated C++ readers (binary and NDJSON) over streams whose consecutive items differ in map keys, optional presence, vector length, union case and array shape; whole-stream copies cover every partition x CopyTo capacity (C++) and list/generator/per-item writes (Python).",
   note="4 items per stream, capacities <=3 (<=4 for CopyTo); quick replays a seeded sample of the TLC behaviours per package, thorough all. Values compared as JSON trees / admissible byte sets from the wire spec.",
   tech="TLA+ state machine + TLC exhaustive exploration; replay of exported behaviours on generated code"),
 "C18": dict(cat="model_checking", engine="tlc+cli-replay",
   text="TLC explores the implementation-shaped loader of spec/tool/Imports.tla on every configuration (ordered import lists x namespace labelling) of <=3 directories incl. self-imports, of 4 directories, and of a chain+shortcut family that reaches the real depth limit, checking OutcomeMatches/LoadedExactlyReach/Terminates against the abstract requirement; every exported terminal state is then replayed on the real `yardl generate` (exit status, model.json, generated Python for shared-dependency graphs) and the hook trace of collectPackages is compared with the spec behaviour.",
   note="Exhaustive within the stated bounds (quick replays a seeded sample of the 4-directory space, thorough all of it). Local directory imports only; error wording not asserted; the exact depth boundary (= limit) is left to the tool.",
   tech="TLA+ spec + TLC exhaustive enumeration; replay of every TLC terminal state on the real CLI; hook-trace comparison"),
}

checks = []
for pid in sorted(CHECKS):
    c = CHECKS[pid]
    checks.append({"property_id": pid, "quick_cmd": "./check %s --tier quick" % pid, "thorough_cmd": "./check %s --tier thorough" % pid,
                   "evidence_file": "evidence/%s.json" % pid, "replay_cmd_template": "./check %s --replay {path}" % pid,
                   "engine": c["engine"],
                   "level_claimed": {"category": c["cat"], "text": c["text"], "design_ref": "DESIGN.md section 3 (%s)" % pid},
                   "level_note": c["note"], "technique": c["tech"]})
engines = {}
for pid, c in CHECKS.items():
    engines.setdefault(c["engine"], []).append(pid)
man = {"version": 1, "setup_cmd": "./setup.sh",
       "hooks": {"guard": "verif (Go build tag)", "enable": "go build -tags verif ./cmd/yardl (done by every check from /repo's working tree)",
                 "baseline_off_cmd": "cd /repo/tooling && GOFLAGS=-mod=mod GOPROXY=off go test -vet=off -count=1 ./...",
                 "source_commits": ["db73722"], "add_only": True},
       "engines": [{"name": e, "path": "lib/", "serves_properties": sorted(ps),
                    "kind_free_text": "TLC 1.8 on /verif/spec/**.tla + conformance harness in /verif/lib, /verif/checks"} for e, ps in sorted(engines.items())],
       "checks": checks,
       "notes": "Properties not yet claimed are listed under not_applicable with reason 'check not built yet'; they move to checks as they are built.",
       "not_applicable": [{"property_id": p["id"], "reason": "check not built yet (planned, see DESIGN.md section 3)"} for p in props if p["id"] not in CHECKS]}
json.dump(man, open(os.path.join(V, "MANIFEST.json"), "w"), indent=1)
print("claimed:", sorted(CHECKS))
