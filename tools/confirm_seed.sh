#!/bin/bash
# usage: tools/confirm_seed.sh <agent out dir> <A|B> <seed name e.g. C18-a> <property id>
# Confirms a seeded change in a scratch worktree of /repo HEAD: applies, builds, runs the unit tests (must pass),
# runs the demonstration (must fail), reverts, runs it again (must pass).  On success stores it under /verif/seeded/<name>/.
out="$1"; v="$2"; name="$3"; prop="$4"
wt=/tmp/seedwt-$name
rm -rf "$wt"; git -C /repo worktree prune; git -C /repo worktree add --detach "$wt" HEAD >/dev/null 2>&1 || { echo "worktree failed"; exit 2; }
cleanup() { git -C /repo worktree remove --force "$wt" >/dev/null 2>&1; rm -rf "$wt"; }
trap cleanup EXIT
export GOFLAGS=-mod=mod GOPROXY=off
(cd "$wt" && (git apply "$out/$v.diff" 2>/dev/null || patch -p1 -F 5 -s --no-backup-if-mismatch < "$out/$v.diff")) || { echo "RESULT $name: patch does not apply"; exit 1; }
(cd "$wt/tooling" && go build ./... ) || { echo "RESULT $name: does not build"; exit 1; }
(cd "$wt/tooling" && go test -vet=off -count=1 ./... >/tmp/seedtest-$name.log 2>&1) || { echo "RESULT $name: unit tests fail"; tail -5 /tmp/seedtest-$name.log; exit 1; }
git -C "$wt" diff > /tmp/seedpatch-$name.diff
timeout 1200 bash "$out/$v.demo.sh" "$wt" >/tmp/seeddemo-$name.mut.log 2>&1; rc_mut=$?
git -C "$wt" checkout -- . ; git -C "$wt" clean -fdq
timeout 1200 bash "$out/$v.demo.sh" "$wt" >/tmp/seeddemo-$name.clean.log 2>&1; rc_clean=$?
if [ $rc_mut -ne 0 ] && [ $rc_clean -eq 0 ]; then
  d=/verif/seeded/$name; mkdir -p $d
  cp /tmp/seedpatch-$name.diff $d/patch.diff
  for f in "$out"/$v.*; do case "$f" in *.diff) ;; *) cp "$f" $d/ ;; esac; done
  python3 - "$name" "$prop" "$d" "$out/$v.md" "$rc_mut" <<'EOP'
import json,sys
name,prop,d,md,rc=sys.argv[1:6]
json.dump({"name":name,"breaks_property":prop,"needs_to_manifest":open(md).read(),
 "confirmed":{"worktree":"scratch worktree of /repo HEAD (hooks + fix commits)","build":"go build ./... ok","unit_tests":"go test -vet=off -count=1 ./... all ok with the change",
   "demo_with_change_exit":int(rc),"demo_without_change_exit":0,"ran":"tools/confirm_seed.sh"},
 "detected_by":[]}, open(d+"/meta.json","w"), indent=1)
EOP
  echo "RESULT $name: CONFIRMED (demo mut rc=$rc_mut clean rc=$rc_clean)"
else
  echo "RESULT $name: NOT confirmed (demo mut rc=$rc_mut clean rc=$rc_clean)"; tail -5 /tmp/seeddemo-$name.mut.log /tmp/seeddemo-$name.clean.log
fi
rm -f /tmp/seedtest-$name.log /tmp/seedpatch-$name.diff /tmp/seeddemo-$name.*.log
