#!/usr/bin/env python3
"""A ~70-line stand-in for pytest (not installed here), just enough for /repo/python/tests: pytest.raises, and module-level
fixtures with params.  Used only as a regression guard for "fix:" commits touching the Python runtime.
usage: python3-vt tools/minipytest.py <python dir containing tests/>     (the C++ translator step of the round-trip tests is skipped)"""
import sys, os, types, importlib, inspect, re, traceback

pytest = types.ModuleType("pytest")


class _Raises:
    def __init__(self, exc, match=None):
        self.exc, self.match = exc, match

    def __enter__(self):
        return self

    def __exit__(self, et, ev, tb):
        if et is None:
            raise AssertionError("DID NOT RAISE %s" % (self.exc,))
        if not issubclass(et, self.exc):
            return False
        if self.match and not re.search(self.match, str(ev)):
            raise AssertionError("exception message %r does not match %r" % (str(ev), self.match))
        self.value = ev
        return True


def raises(exc, match=None):
    return _Raises(exc, match)


def fixture(*a, **kw):
    def deco(f):
        f._fixture_params = kw.get("params")
        f._is_fixture = True
        return f
    if a and callable(a[0]):
        return deco(a[0])
    return deco


class FixtureRequest:
    def __init__(self, param):
        self.param = param


pytest.raises, pytest.fixture, pytest.FixtureRequest = raises, fixture, FixtureRequest
sys.modules["pytest"] = pytest


def main():
    root = os.path.abspath(sys.argv[1])
    sys.path.insert(0, root)
    import tests.roundtriputils as ru
    def no_translator(inp, fi, fo):
        # stands in for the C++ translator: same-format -> identity; cross-format -> conversion with the generated Python code
        import io, json, test_model as tm
        raw = inp.encode("utf-8") if isinstance(inp, str) else bytes(inp)
        if fi == fo:
            return raw.decode("utf-8") if fo.name == "NDJSON" else raw
        if fi.name == "BINARY":
            pos, n, shift = 9, 0, 0
            while True:
                b = raw[pos]; pos += 1
                n |= (b & 0x7F) << shift; shift += 7
                if not b & 0x80:
                    break
            name = json.loads(raw[pos:pos + n])["protocol"]["name"]
            r = getattr(tm, "Binary%sReader" % name)(io.BytesIO(raw))
            out = io.StringIO()
            w = getattr(tm, "NDJson%sWriter" % name)(out)
        else:
            name = json.loads(raw.split(b"\n", 1)[0])["yardl"]["schema"]["protocol"]["name"]
            r = getattr(tm, "NDJson%sReader" % name)(io.StringIO(raw.decode("utf-8")))
            out = io.BytesIO()
            w = getattr(tm, "Binary%sWriter" % name)(out)
        r.copy_to(w)
        r.close()
        w.close()
        return out.getvalue()
    ru.invoke_translator = no_translator
    npass = nfail = 0
    for fn in sorted(os.listdir(os.path.join(root, "tests"))):
        if not (fn.startswith("test_") and fn.endswith(".py")):
            continue
        m = importlib.import_module("tests." + fn[:-3])
        fixtures = {n: f for n, f in vars(m).items() if getattr(f, "_is_fixture", False)}
        for name, f in sorted(vars(m).items()):
            if not (name.startswith("test_") and inspect.isfunction(f)):
                continue
            params = list(inspect.signature(f).parameters)
            combos = [{}]
            for p in params:
                fx = fixtures.get(p)
                if fx is None:
                    combos = None
                    break
                vals = fx._fixture_params or [None]
                combos = [dict(c, **{p: fx(FixtureRequest(v)) if "request" in inspect.signature(fx).parameters else fx()}) for c in combos for v in vals]
            if combos is None:
                print("SKIP %s.%s (unknown fixture)" % (fn, name))
                continue
            for kw in combos:
                try:
                    f(**kw)
                    npass += 1
                except Exception:
                    nfail += 1
                    print("FAIL %s.%s %s" % (fn, name, kw))
                    traceback.print_exc(limit=4)
    print("minipytest: %d passed, %d failed" % (npass, nfail))
    return 1 if nfail else 0


sys.exit(main())
