#!/bin/bash
# The repository's pinned test-suite with the verif tag OFF; prints a one-line verdict (exit 0 iff everything passed).
cd /repo/tooling && out=$(GOFLAGS=-mod=mod GOPROXY=off go test -vet=off -count=1 ./... 2>&1)
if echo "$out" | grep -q "^FAIL\|^--- FAIL\|panic:"; then echo "$out" | grep "^FAIL\|^--- FAIL\|panic:" | head; echo "REPO TESTS: FAIL"; exit 1; fi
echo "REPO TESTS: PASS ($(echo "$out" | grep -c '^ok') packages)"
