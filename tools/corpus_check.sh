#!/bin/bash
# Regression guard for "fix:" commits: every model directory shipped with the repository must still validate and generate
# (into a scratch copy of the tree), and the generated Python of models/test must import.
set -u
s=$(mktemp -d /tmp/corpus-XXXXXX)
trap 'rm -rf "$s"' EXIT
rsync -a --exclude .git /repo/ "$s/repo/"
(cd "$s/repo/tooling" && GOFLAGS=-mod=mod GOPROXY=off go build -o "$s/yardl" ./cmd/yardl) || { echo "build failed"; exit 2; }
fail=0
for m in test sandbox basic-types tuples image evolution/model_v0 evolution/model_v1 evolution/model_v2; do
  out=$(cd "$s/repo/models/$m" && HOME="$s/home" "$s/yardl" generate 2>&1); rc=$?
  echo "models/$m generate rc=$rc"
  if [ $rc -ne 0 ]; then echo "$out" | tail -5; fail=1; fi
done
(cd "$s/repo/python" && python3-vt -c "import test_model, sandbox; print('generated python of models/test and models/sandbox imports')") || fail=1
# the repository's own Python test-suite (pytest is not installed: tools/minipytest.py; the C++ translator is replaced by the generated Python code)
(cd "$s/repo/python" && python3-vt /verif/tools/minipytest.py . 2>&1 | tail -3) || fail=1
exit $fail
