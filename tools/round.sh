#!/bin/bash
# usage: tools/round.sh <property id> <suffix> [extra check ids...]   e.g. tools/round.sh C07 c
# Confirms the sub-agent's seeded change /tmp/so/<ID>-<suffix>/A.* in a scratch worktree (tools/confirm_seed.sh), then runs the
# property's own check (and any extra checks) against it (tools/seed_matrix.sh).  Appends one line per step to /tmp/so/results.txt.
id="$1"; suf="$2"; shift 2
name="$id-$suf"; out=/tmp/so/$name
r=$(/verif/tools/confirm_seed.sh "$out" A "$name" "$id" 2>&1 | grep RESULT | tail -1)
echo "$r" | tee -a /tmp/so/results.txt
case "$r" in *CONFIRMED*) ;; *) exit 1;; esac
case "$r" in *NOT*) exit 1;; esac
/verif/tools/seed_matrix.sh "$name" "$id" "$@" 2>&1 | grep "^SEED" | tee -a /tmp/so/results.txt
