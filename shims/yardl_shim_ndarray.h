// Vector-backed N-d array types for yardl's generated C++, owned by /verif and plugged in through the
// documented `cpp.overrideArrayHeader` option (xtensor is not installed in this sandbox).
// Row-major, contiguous storage; default-constructed values mimic xtensor (xarray(): 0-d, one element;
// xtensor<T,N>(): all dimensions 0).
#pragma once
#include <algorithm>
#include <array>
#include <cstddef>
#include <numeric>
#include <stdexcept>
#include <vector>

namespace yardl {
namespace shim {
// contiguous buffer with T* access for every T including bool (std::vector<bool> has no data())
template <typename T>
class Buf {
 public:
  Buf() = default;
  explicit Buf(size_t n) : n_(n), p_(n ? new T[n]() : nullptr) {}
  Buf(Buf const& o) : n_(o.n_), p_(o.n_ ? new T[o.n_]() : nullptr) { std::copy(o.p_, o.p_ + n_, p_); }
  Buf(Buf&& o) noexcept : n_(o.n_), p_(o.p_) { o.n_ = 0; o.p_ = nullptr; }
  Buf& operator=(Buf o) noexcept { std::swap(n_, o.n_); std::swap(p_, o.p_); return *this; }
  ~Buf() { delete[] p_; }
  void resize(size_t n) { if (n != n_) { Buf b(n); std::copy(p_, p_ + std::min(n, n_), b.p_); *this = std::move(b); } }
  size_t size() const { return n_; }
  T* data() { return p_; }
  T const* data() const { return p_; }
  T* begin() { return p_; }
  T* end() { return p_ + n_; }
  T const* begin() const { return p_; }
  T const* end() const { return p_ + n_; }
  bool operator==(Buf const& o) const { return n_ == o.n_ && std::equal(p_, p_ + n_, o.p_); }
 private:
  size_t n_ = 0;
  T* p_ = nullptr;
};

template <typename Shape, class... Args>
inline size_t offset(Shape const& shape, Args... idx) {
  std::array<size_t, sizeof...(Args)> ix{static_cast<size_t>(idx)...};
  if (ix.size() != shape.size()) throw std::out_of_range("wrong number of indices");
  size_t off = 0;
  for (size_t i = 0; i < ix.size(); i++) {
    if (ix[i] >= shape[i]) throw std::out_of_range("index out of range");
    off = off * shape[i] + ix[i];
  }
  return off;
}
}  // namespace shim

// Fixed-size array: the elements live inline (like xt::xtensor_fixed), because yardl treats a FixedNDArray of trivially
// serializable elements as trivially serializable itself (memcpy of sizeof(FixedNDArray) bytes).
template <typename T, size_t... Dims>
class FixedNDArray {
 public:
  using value_type = T;
  static constexpr size_t N = sizeof...(Dims);
  static constexpr size_t Size = (Dims * ... * 1);
  FixedNDArray() : data_{} {}
  FixedNDArray(std::initializer_list<T> l) : data_{} { std::copy_n(l.begin(), std::min(l.size(), Size), data_.begin()); }
  size_t size() const { return Size; }
  size_t dimension() const { return N; }
  std::array<size_t, N> shape() const { return {Dims...}; }
  size_t shape(size_t d) const { return shape()[d]; }
  T* data() { return data_.data(); }
  T const* data() const { return data_.data(); }
  T* begin() { return data_.data(); }
  T* end() { return data_.data() + Size; }
  T const* begin() const { return data_.data(); }
  T const* end() const { return data_.data() + Size; }
  template <class... Args> T const& at(Args... idx) const { return data_[shim::offset(shape(), idx...)]; }
  template <class... Args> T& at(Args... idx) { return data_[shim::offset(shape(), idx...)]; }
  template <class... Args> T const& operator()(Args... idx) const { return at(idx...); }
  template <class... Args> T& operator()(Args... idx) { return at(idx...); }
  bool operator==(FixedNDArray const& o) const { return data_ == o.data_; }
  bool operator!=(FixedNDArray const& o) const { return !(*this == o); }
 private:
  std::array<T, Size> data_;
};

template <typename T, size_t N>
class NDArray {
 public:
  using value_type = T;
  NDArray() : data_(N == 0 ? 1 : 0) { shape_.fill(0); }
  explicit NDArray(std::array<size_t, N> const& shape) { resize(shape); }
  void resize(std::array<size_t, N> const& shape) {
    shape_ = shape;
    data_.resize(std::accumulate(shape.begin(), shape.end(), size_t(1), std::multiplies<size_t>()));
  }
  size_t size() const { return data_.size(); }
  size_t dimension() const { return N; }
  std::array<size_t, N> shape() const { return shape_; }
  size_t shape(size_t d) const { return shape_[d]; }
  T* data() { return data_.data(); }
  T const* data() const { return data_.data(); }
  T* begin() { return data_.begin(); }
  T* end() { return data_.end(); }
  T const* begin() const { return data_.begin(); }
  T const* end() const { return data_.end(); }
  template <class... Args> T const& at(Args... idx) const { return data_.data()[shim::offset(shape_, idx...)]; }
  template <class... Args> T& at(Args... idx) { return data_.data()[shim::offset(shape_, idx...)]; }
  template <class... Args> T const& operator()(Args... idx) const { return at(idx...); }
  template <class... Args> T& operator()(Args... idx) { return at(idx...); }
  bool operator==(NDArray const& o) const { return shape_ == o.shape_ && data_ == o.data_; }
  bool operator!=(NDArray const& o) const { return !(*this == o); }
 private:
  std::array<size_t, N> shape_;
  shim::Buf<T> data_;
};

template <typename T>
class DynamicNDArray {
 public:
  using value_type = T;
  DynamicNDArray() : data_(1) {}
  explicit DynamicNDArray(std::vector<size_t> const& shape) { resize(shape); }
  void resize(std::vector<size_t> const& shape) {
    shape_ = shape;
    data_.resize(std::accumulate(shape.begin(), shape.end(), size_t(1), std::multiplies<size_t>()));
  }
  size_t size() const { return data_.size(); }
  size_t dimension() const { return shape_.size(); }
  std::vector<size_t> shape() const { return shape_; }
  size_t shape(size_t d) const { return shape_.at(d); }
  T* data() { return data_.data(); }
  T const* data() const { return data_.data(); }
  T* begin() { return data_.begin(); }
  T* end() { return data_.end(); }
  T const* begin() const { return data_.begin(); }
  T const* end() const { return data_.end(); }
  template <class... Args> T const& at(Args... idx) const { return data_.data()[shim::offset(shape_, idx...)]; }
  template <class... Args> T& at(Args... idx) { return data_.data()[shim::offset(shape_, idx...)]; }
  template <class... Args> T const& operator()(Args... idx) const { return at(idx...); }
  template <class... Args> T& operator()(Args... idx) { return at(idx...); }
  bool operator==(DynamicNDArray const& o) const { return shape_ == o.shape_ && data_ == o.data_; }
  bool operator!=(DynamicNDArray const& o) const { return !(*this == o); }
 private:
  std::vector<size_t> shape_;
  shim::Buf<T> data_;
};

/**** FixedNDArray ****/
template <typename T, size_t... Dims> constexpr size_t size(FixedNDArray<T, Dims...> const& arr) { return arr.size(); }
template <typename T, size_t... Dims> constexpr size_t dimension(FixedNDArray<T, Dims...> const& arr) { return arr.dimension(); }
template <typename T, size_t... Dims> std::array<size_t, sizeof...(Dims)> shape(FixedNDArray<T, Dims...> const& arr) { return arr.shape(); }
template <typename T, size_t... Dims> size_t shape(FixedNDArray<T, Dims...> const& arr, size_t dim) { return arr.shape(dim); }
template <typename T, size_t... Dims> T* dataptr(FixedNDArray<T, Dims...>& arr) { return arr.data(); }
template <typename T, size_t... Dims> T const* dataptr(FixedNDArray<T, Dims...> const& arr) { return arr.data(); }
template <typename T, size_t... Dims, class... Args> T const& at(FixedNDArray<T, Dims...> const& arr, Args... idx) { return arr.at(idx...); }

/**** NDArray ****/
template <typename T, size_t N> size_t size(NDArray<T, N> const& arr) { return arr.size(); }
template <typename T, size_t N> size_t dimension(NDArray<T, N> const& arr) { return arr.dimension(); }
template <typename T, size_t N> std::array<size_t, N> shape(NDArray<T, N> const& arr) { return arr.shape(); }
template <typename T, size_t N> size_t shape(NDArray<T, N> const& arr, size_t dim) { return arr.shape(dim); }
template <typename T, size_t N> void resize(NDArray<T, N>& arr, std::array<size_t, N> const& shape) { arr.resize(shape); }
template <typename T, size_t N> T* dataptr(NDArray<T, N>& arr) { return arr.data(); }
template <typename T, size_t N> T const* dataptr(NDArray<T, N> const& arr) { return arr.data(); }
template <typename T, size_t N, class... Args> T const& at(NDArray<T, N> const& arr, Args... idx) { return arr.at(idx...); }

/**** DynamicNDArray ****/
template <typename T> size_t size(DynamicNDArray<T> const& arr) { return arr.size(); }
template <typename T> size_t dimension(DynamicNDArray<T> const& arr) { return arr.dimension(); }
template <typename T> std::vector<size_t> shape(DynamicNDArray<T> const& arr) { return arr.shape(); }
template <typename T> size_t shape(DynamicNDArray<T> const& arr, size_t dim) { return arr.shape(dim); }
template <typename T> void resize(DynamicNDArray<T>& arr, std::vector<size_t> const& shape) { arr.resize(shape); }
template <typename T> T* dataptr(DynamicNDArray<T>& arr) { return arr.data(); }
template <typename T> T const* dataptr(DynamicNDArray<T> const& arr) { return arr.data(); }
template <typename T, class... Args> T const& at(DynamicNDArray<T> const& arr, Args... idx) { return arr.at(idx...); }
}  // namespace yardl
