// Minimal stand-in for HowardHinnant/date (not installed in this sandbox), owned by /verif.
// Provides only what yardl's generated C++ uses: date::days, date::local_days, date::format and
// date::from_stream for "%F", "%T" and "%FT%T".  Calendar arithmetic follows the public-domain
// days_from_civil / civil_from_days algorithms.  NDJSON date/time *text* produced by generated C++
// under this shim is therefore evidence about the shim, not about the real library (DESIGN.md section 4).
#pragma once
#include <chrono>
#include <cstdint>
#include <cstdio>
#include <istream>
#include <string>

namespace date {
using days = std::chrono::duration<int, std::ratio<86400>>;
struct local_t {};
template <class Duration>
using local_time = std::chrono::time_point<local_t, Duration>;
using local_days = local_time<days>;

namespace detail {
inline void civil_from_days(int64_t z, int64_t& y, unsigned& m, unsigned& d) {
  z += 719468;
  const int64_t era = (z >= 0 ? z : z - 146096) / 146097;
  const unsigned doe = static_cast<unsigned>(z - era * 146097);
  const unsigned yoe = (doe - doe / 1460 + doe / 36524 - doe / 146096) / 365;
  y = static_cast<int64_t>(yoe) + era * 400;
  const unsigned doy = doe - (365 * yoe + yoe / 4 - yoe / 100);
  const unsigned mp = (5 * doy + 2) / 153;
  d = doy - (153 * mp + 2) / 5 + 1;
  m = mp < 10 ? mp + 3 : mp - 9;
  y += (m <= 2);
}
inline int64_t days_from_civil(int64_t y, unsigned m, unsigned d) {
  y -= m <= 2;
  const int64_t era = (y >= 0 ? y : y - 399) / 400;
  const unsigned yoe = static_cast<unsigned>(y - era * 400);
  const unsigned doy = (153 * (m > 2 ? m - 3 : m + 9) + 2) / 5 + d - 1;
  const unsigned doe = yoe * 365 + yoe / 4 - yoe / 100 + doy;
  return era * 146097 + static_cast<int64_t>(doe) - 719468;
}
inline std::string fmt_date(int64_t dayno) {
  int64_t y; unsigned m, d;
  civil_from_days(dayno, y, m, d);
  char buf[48];
  if (y < 0) std::snprintf(buf, sizeof buf, "-%04lld-%02u-%02u", static_cast<long long>(-y), m, d);
  else std::snprintf(buf, sizeof buf, "%04lld-%02u-%02u", static_cast<long long>(y), m, d);
  return buf;
}
inline std::string fmt_time(int64_t ns) {
  bool neg = ns < 0;
  uint64_t u = neg ? static_cast<uint64_t>(-(ns + 1)) + 1 : static_cast<uint64_t>(ns);
  uint64_t f = u % 1000000000ULL; u /= 1000000000ULL;
  uint64_t s = u % 60; u /= 60;
  uint64_t mi = u % 60; u /= 60;
  char buf[64];
  std::snprintf(buf, sizeof buf, "%s%02llu:%02llu:%02llu.%09llu", neg ? "-" : "", static_cast<unsigned long long>(u),
                static_cast<unsigned long long>(mi), static_cast<unsigned long long>(s), static_cast<unsigned long long>(f));
  return buf;
}
inline int64_t floor_div(int64_t a, int64_t b) { return a / b - ((a % b != 0) && ((a < 0) != (b < 0))); }
inline bool parse_date(std::istream& is, int64_t& dayno) {
  long long y; unsigned m, d; char c1, c2;
  if (!(is >> y >> c1 >> m >> c2 >> d) || c1 != '-' || c2 != '-') { is.setstate(std::ios::failbit); return false; }
  dayno = days_from_civil(y, m, d);
  return true;
}
inline bool parse_time(std::istream& is, int64_t& ns) {
  unsigned h, mi; char c1, c2;
  if (!(is >> h >> c1 >> mi >> c2) || c1 != ':' || c2 != ':') { is.setstate(std::ios::failbit); return false; }
  std::string rest;
  while (is.peek() != EOF && (std::isdigit(is.peek()) || is.peek() == '.')) rest.push_back(static_cast<char>(is.get()));
  if (rest.empty()) { is.setstate(std::ios::failbit); return false; }
  size_t dot = rest.find('.');
  uint64_t s = std::stoull(rest.substr(0, dot));
  uint64_t f = 0;
  if (dot != std::string::npos) {
    std::string frac = rest.substr(dot + 1);
    frac.resize(9, '0');
    f = std::stoull(frac);
  }
  ns = ((static_cast<int64_t>(h) * 60 + mi) * 60 + static_cast<int64_t>(s)) * 1000000000LL + static_cast<int64_t>(f);
  return true;
}
}  // namespace detail

inline std::string format(const char*, local_days const& v) { return detail::fmt_date(v.time_since_epoch().count()); }

template <class Rep, class Period>
inline std::string format(const char*, std::chrono::duration<Rep, Period> const& v) {
  return detail::fmt_time(std::chrono::duration_cast<std::chrono::nanoseconds>(v).count());
}

template <class Clock, class Duration>
inline std::string format(const char*, std::chrono::time_point<Clock, Duration> const& v) {
  int64_t ns = std::chrono::duration_cast<std::chrono::nanoseconds>(v.time_since_epoch()).count();
  const int64_t day_ns = 86400LL * 1000000000LL;
  int64_t dayno = detail::floor_div(ns, day_ns);
  return detail::fmt_date(dayno) + "T" + detail::fmt_time(ns - dayno * day_ns);
}

inline void from_stream(std::istream& is, const char*, local_days& v) {
  int64_t d;
  if (detail::parse_date(is, d)) v = local_days(days(static_cast<int>(d)));
}

template <class Rep, class Period>
inline void from_stream(std::istream& is, const char*, std::chrono::duration<Rep, Period>& v) {
  int64_t ns;
  if (detail::parse_time(is, ns)) v = std::chrono::duration_cast<std::chrono::duration<Rep, Period>>(std::chrono::nanoseconds(ns));
}

template <class Clock, class Duration>
inline void from_stream(std::istream& is, const char*, std::chrono::time_point<Clock, Duration>& v) {
  int64_t d, ns; char t;
  if (!detail::parse_date(is, d)) return;
  if (!(is >> t) || t != 'T') { is.setstate(std::ios::failbit); return; }
  if (!detail::parse_time(is, ns)) return;
  v = std::chrono::time_point<Clock, Duration>(
      std::chrono::duration_cast<Duration>(std::chrono::nanoseconds(d * 86400LL * 1000000000LL + ns)));
}
}  // namespace date
