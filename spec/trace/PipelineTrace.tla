--------------------------- MODULE PipelineTrace ---------------------------
(***************************************************************************)
(* Trace validation for the generate / validate command (C11, C12).        *)
(*                                                                         *)
(* The trace (IOEnv.VERIF_TRACE, NDJSON) is a concatenation of runs.  A    *)
(* run starts with a "Config" line written by the harness (the packages    *)
(* of the current version's closure, the version labels, the command),     *)
(* continues with the events emitted by the verif hooks of the real tool   *)
(* in the order they were emitted, and ends with an "Exit" line carrying   *)
(* the observed exit status.  Every event is consumed by the action of     *)
(* that name, whose enabling condition is the ordering discipline that     *)
(* Pipeline.tla's NoWriteBeforeAllValidated / ErrorImpliesUntouched rely   *)
(* on.  A trace is accepted iff every line is consumed.                    *)
(***************************************************************************)
EXTENDS Naturals, Sequences, FiniteSets, TLC, Json, IOUtils

Trace == ndJsonDeserialize(IOEnv.VERIF_TRACE)

VARIABLES l,            \* next line
          closure, labels, cmd,          \* from Config
          parsed, nsValidated, verValidated, evolved, validatedOk, generating, writes, wroteTrue, genEnd, exited

vars == <<l, closure, labels, cmd, parsed, nsValidated, verValidated, evolved, validatedOk, generating, writes, wroteTrue, genEnd, exited>>

Has(r, f) == f \in DOMAIN r
Ev == Trace[l]
IsEvent(e) == l <= Len(Trace) /\ Ev.event = e /\ l' = l + 1

ToSet(s) == { s[i] : i \in 1..Len(s) }

Fresh == /\ parsed' = {} /\ nsValidated' = FALSE /\ verValidated' = {} /\ evolved' = FALSE /\ validatedOk' = FALSE
         /\ generating' = {} /\ writes' = 0 /\ wroteTrue' = 0 /\ genEnd' = FALSE /\ exited' = FALSE

Init == /\ l = 1 /\ closure = {} /\ labels = {} /\ cmd = "none"
        /\ parsed = {} /\ nsValidated = FALSE /\ verValidated = {} /\ evolved = FALSE /\ validatedOk = FALSE
        /\ generating = {} /\ writes = 0 /\ wroteTrue = 0 /\ genEnd = FALSE /\ exited = TRUE

Keep(vs) == UNCHANGED vs

Config == /\ IsEvent("Config") /\ exited            \* a new run begins only after the previous one has exited
          /\ closure' = ToSet(Ev.closure) /\ labels' = ToSet(Ev.labels) /\ cmd' = Ev.cmd
          /\ Fresh

GenStart == /\ IsEvent("GenStart") /\ ~exited /\ ~validatedOk
            /\ Keep(<<closure, labels, cmd, parsed, nsValidated, verValidated, evolved, validatedOk, generating, writes, wroteTrue, genEnd, exited>>)

\* package loading is C18's subject: its events are consumed without constraint
Collect == /\ l <= Len(Trace) /\ Ev.event \in {"CollectEnter", "CollectNew", "CollectChild"} /\ l' = l + 1 /\ ~exited /\ ~validatedOk
           /\ Keep(<<closure, labels, cmd, parsed, nsValidated, verValidated, evolved, validatedOk, generating, writes, wroteTrue, genEnd, exited>>)

ParsePkg == /\ IsEvent("ParsePkg") /\ ~exited /\ ~validatedOk /\ writes = 0
            /\ parsed' = parsed \cup {Ev.ns}
            /\ Keep(<<closure, labels, cmd, nsValidated, verValidated, evolved, validatedOk, generating, writes, wroteTrue, genEnd, exited>>)

ValidateNs == /\ IsEvent("ValidateNs") /\ ~exited /\ ~nsValidated
              /\ closure \subseteq parsed                         \* every package of the closure was parsed before validation starts
              /\ nsValidated' = TRUE
              /\ Keep(<<closure, labels, cmd, parsed, verValidated, evolved, validatedOk, generating, writes, wroteTrue, genEnd, exited>>)

ValidateVersion == /\ IsEvent("ValidateVersion") /\ ~exited /\ nsValidated /\ ~evolved
                   /\ Ev.label \in labels /\ Ev.label \notin verValidated
                   /\ verValidated' = verValidated \cup {Ev.label}
                   /\ Keep(<<closure, labels, cmd, parsed, nsValidated, evolved, validatedOk, generating, writes, wroteTrue, genEnd, exited>>)

Evolution == /\ IsEvent("Evolution") /\ ~exited /\ nsValidated /\ verValidated = labels /\ labels # {} /\ ~evolved
             /\ evolved' = TRUE
             /\ Keep(<<closure, labels, cmd, parsed, nsValidated, verValidated, validatedOk, generating, writes, wroteTrue, genEnd, exited>>)

Validated == /\ IsEvent("Validated") /\ ~exited /\ ~validatedOk
             /\ nsValidated /\ verValidated = labels /\ (labels # {} => evolved)
             /\ validatedOk' = TRUE
             /\ Keep(<<closure, labels, cmd, parsed, nsValidated, verValidated, evolved, generating, writes, wroteTrue, genEnd, exited>>)

Generate == /\ IsEvent("Generate") /\ ~exited /\ validatedOk /\ ~genEnd /\ cmd = "generate"
            /\ Ev.target \notin generating
            /\ generating' = generating \cup {Ev.target}
            /\ Keep(<<closure, labels, cmd, parsed, nsValidated, verValidated, evolved, validatedOk, writes, wroteTrue, genEnd, exited>>)

WriteFile == /\ IsEvent("WriteFile") /\ ~exited /\ validatedOk /\ generating # {} /\ ~genEnd
             /\ writes' = writes + 1 /\ wroteTrue' = wroteTrue + (IF Ev.wrote THEN 1 ELSE 0)
             /\ Keep(<<closure, labels, cmd, parsed, nsValidated, verValidated, evolved, validatedOk, generating, genEnd, exited>>)

GenEnd == /\ IsEvent("GenEnd") /\ ~exited /\ validatedOk /\ ~genEnd
          /\ genEnd' = TRUE
          /\ Keep(<<closure, labels, cmd, parsed, nsValidated, verValidated, evolved, validatedOk, generating, writes, wroteTrue, exited>>)

Exit == /\ IsEvent("Exit") /\ ~exited
        /\ IF Ev.code = 0 THEN (cmd = "generate" => genEnd) /\ (cmd = "validate" => writes = 0)
           ELSE writes = 0 /\ ~genEnd                                  \* an error exit never follows a write
        /\ (Ev.second_run => wroteTrue = 0)                             \* regenerating an unchanged package rewrites nothing (C12)
        /\ exited' = TRUE
        /\ Keep(<<closure, labels, cmd, parsed, nsValidated, verValidated, evolved, validatedOk, generating, writes, wroteTrue, genEnd>>)

Next == Config \/ GenStart \/ Collect \/ ParsePkg \/ ValidateNs \/ ValidateVersion \/ Evolution \/ Validated \/ Generate \/ WriteFile \/ GenEnd \/ Exit
Spec == Init /\ [][Next]_vars

\* high-water mark of consumed lines (single worker): the POSTCONDITION reports it
Hwm == TLCSet(1, IF TLCGet(1) < l THEN l ELSE TLCGet(1))
HwmInit == TLCSet(1, 0)
ASSUME HwmInit
TraceAccepted == /\ PrintT(<<"HWM", TLCGet(1) - 1, "OF", Len(Trace)>>)
                 /\ TLCGet(1) - 1 = Len(Trace)
=============================================================================
