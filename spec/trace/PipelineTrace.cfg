SPECIFICATION Spec
CONSTRAINT Hwm
POSTCONDITION TraceAccepted
CHECK_DEADLOCK FALSE
