------------------------------- MODULE Names -------------------------------
(***************************************************************************)
(* Identifier derivation (property C08).  A model name lives in a scope    *)
(* (members of a record, symbols of an enum, steps of a protocol, types of  *)
(* a namespace, namespaces of an import closure); each target language     *)
(* derives its own identifier from it.  The derivation functions are NOT   *)
(* transcribed: Table is the tabulation of the real functions of the       *)
(* working tree (drivers/verifnames) over every admissible name up to a    *)
(* length bound on a small alphabet plus a curated list of words that are  *)
(* reserved or predefined in some target.  Reserved is this module's own   *)
(* (language-standard) keyword list per target, not yardl's.               *)
(*                                                                         *)
(* InjectivePerScope and AvoidsReserved are the two facts C08 needs of the *)
(* derivation.  They are evaluated by TLC; each counterexample is exported *)
(* and then confirmed on the real tool by the harness (a package with the  *)
(* names in that scope must be rejected or yield code that compiles) - a   *)
(* counterexample alone is not a verdict.                                  *)
(***************************************************************************)
EXTENDS TLC, Json, IOUtils, FiniteSets, Sequences, SequencesExt

Table == JsonDeserialize(IOEnv.VERIF_NAMES)
Reserved == JsonDeserialize(IOEnv.VERIF_RESERVED)
Targets == {"cpp", "python", "matlab"}

\* scope -> kinds of names that share it
Scopes == [record |-> {"field", "computed"}, enum |-> {"enumvalue"}, protocol |-> {"step"}, types |-> {"type"}, imports |-> {"namespace"}]

Entries(t, sc) == UNION { { <<k, n>> : n \in DOMAIN Table[t][k] } : k \in Scopes[sc] }
Ident(t, e) == Table[t][e[1]][e[2]]
Fibre(t, sc, v) == { e \in Entries(t, sc) : Ident(t, e) = v }
\* two entries clash when they are different model names (the same name twice is rejected by validation on the model spelling)
Clashes(t, sc) == { f \in { Fibre(t, sc, v) : v \in { Ident(t, e) : e \in Entries(t, sc) } } : Cardinality({ e[2] : e \in f }) > 1 }
ReservedHits(t, sc) == { e \in Entries(t, sc) : Ident(t, e) \in ToSet(Reserved[t]) }

InjectivePerScope == \A t \in Targets, sc \in DOMAIN Scopes : Clashes(t, sc) = {}
AvoidsReserved == \A t \in Targets, sc \in DOMAIN Scopes : ReservedHits(t, sc) = {}

(***************************************************************************)
(* Configurations: every documented option combination of every target.    *)
(***************************************************************************)
Bool == {TRUE, FALSE}
Configs == [cpp : Bool, python : Bool, matlab : Bool, json : Bool, cppNDJson : Bool, cppHDF5 : Bool, cmake : Bool, overrideArrayHeader : Bool,
            pyNDJson : Bool]
ASSUME Cardinality(Configs) = 512

ClashCases == UNION { { [t |-> t, scope |-> sc, ident |-> Ident(t, CHOOSE e \in f : TRUE), entries |-> SetToSeq(f)] : f \in Clashes(t, sc) }
                      : <<t, sc>> \in Targets \X DOMAIN Scopes }
ReservedCases == UNION { { [t |-> t, scope |-> sc, ident |-> Ident(t, e), entry |-> e] : e \in ReservedHits(t, sc) }
                         : <<t, sc>> \in Targets \X DOMAIN Scopes }

ASSUME PrintT(<<"InjectivePerScope", InjectivePerScope, "AvoidsReserved", AvoidsReserved, "clashes", Cardinality(ClashCases), "reserved", Cardinality(ReservedCases)>>)
ASSUME ndJsonSerialize(IOEnv.VERIF_OUT_CLASHES, SetToSeq(ClashCases))
ASSUME ndJsonSerialize(IOEnv.VERIF_OUT_RESERVED, SetToSeq(ReservedCases))
ASSUME ndJsonSerialize(IOEnv.VERIF_OUT_CONFIGS, SetToSeq(Configs))
=============================================================================
