------------------------------ MODULE Computed ------------------------------
(***************************************************************************)
(* Computed fields (property C19): expressions over the numeric fields of  *)
(* a record.  The record has fixed fields with fixed values:               *)
(* one or more of every numeric primitive (Fields below).                 *)
(* An expression is a tree: field | literal | neg e | e op e | cast e p.   *)
(* Eval gives its exact mathematical value as a reduced fraction           *)
(* [n, d] (d a power of two, so every backend's float arithmetic is exact  *)
(* on it); it is defined only when no intermediate result leaves the       *)
(* range of small integers / dyadic rationals and integer division is      *)
(* exact.  The harness prints every expression with explicit parentheses   *)
(* around every binary sub-expression, generates code and compares the     *)
(* values computed by the generated C++ and Python with Eval; declared     *)
(* result types are compared between the languages and for operand-order   *)
(* independence (Swap).                                                    *)
(***************************************************************************)
EXTENDS Integers, Sequences, FiniteSets, TLC, Json, IOUtils, SequencesExt

Fields == << [name |-> "b", p |-> "int8", n |-> -5, d |-> 1], [name |-> "s", p |-> "int16", n |-> -12, d |-> 1],
             [name |-> "i", p |-> "int32", n |-> 7, d |-> 1], [name |-> "j", p |-> "int32", n |-> -3, d |-> 1],
             [name |-> "k", p |-> "int64", n |-> 40, d |-> 1], [name |-> "m", p |-> "int64", n |-> -6, d |-> 1],
             [name |-> "ub", p |-> "uint8", n |-> 200, d |-> 1], [name |-> "us", p |-> "uint16", n |-> 300, d |-> 1],
             [name |-> "ui", p |-> "uint32", n |-> 3000, d |-> 1], [name |-> "ul", p |-> "uint64", n |-> 9, d |-> 1],
             [name |-> "z", p |-> "size", n |-> 6, d |-> 1],
             [name |-> "f", p |-> "float32", n |-> 3, d |-> 2], [name |-> "g", p |-> "float64", n |-> -9, d |-> 4],
             [name |-> "h", p |-> "float64", n |-> 8, d |-> 1],
             [name |-> "cf", p |-> "complexfloat32", n |-> 2, d |-> 1], [name |-> "cd", p |-> "complexfloat64", n |-> -3, d |-> 2] >>
Idx(nm) == CHOOSE x \in 1..Len(Fields) : Fields[x].name = nm
\* a second valuation: every field positive (integer division of non-negative operands is the same in every back end that is run
\* here - floor and truncation agree - so inexact quotients can be compared too), quotients mostly inexact
Pos2 == [b |-> 5, s |-> 12, i |-> 7, j |-> 3, k |-> 40, m |-> 6, g |-> 9, cd |-> 3]
FN(v, x) == IF v = 2 /\ Fields[x].name \in DOMAIN Pos2 THEN Pos2[Fields[x].name] ELSE Fields[x].n
IsUnsigned(p) == p \in {"uint8", "uint16", "uint32", "uint64", "size"}
IsFloat(p) == p \in {"float32", "float64", "complexfloat32", "complexfloat64"}

F(i) == [k |-> "field", i |-> i]
L(n) == [k |-> "lit", n |-> n]
Atoms == { F(i) : i \in 1..Len(Fields) } \cup { L(2), L(3) }
Ops == {"+", "-", "*", "/", "**"}
Bin(op, a, b) == [k |-> "bin", op |-> op, l |-> a, r |-> b]
Neg(a) == [k |-> "neg", e |-> a]

Depth1 == { Bin(op, a, b) : op \in Ops, a \in Atoms, b \in Atoms } \cup { Neg(a) : a \in { F(i) : i \in 1..Len(Fields) } }
\* depth 2: one operand is itself a binary expression (both sides, so that parenthesisation matters)
IntAtoms == { F(Idx("i")), F(Idx("j")), F(Idx("k")), F(Idx("m")), L(2), L(3) }
Flt == { F(Idx("f")), F(Idx("g")), F(Idx("h")) }
Depth2 == { Bin(op, Bin(op2, a, b), c) : op \in {"+", "-", "*", "/"}, op2 \in {"+", "-", "*", "/"}, a \in IntAtoms, b \in IntAtoms, c \in IntAtoms }
          \cup { Bin(op, c, Bin(op2, a, b)) : op \in {"+", "-", "*", "/"}, op2 \in {"+", "-", "*", "/"}, a \in IntAtoms, b \in IntAtoms, c \in IntAtoms }
          \cup { Bin(op, x, Bin(op2, y, w)) : op \in {"+", "-", "*", "/"}, op2 \in {"+", "-", "*", "/"}, x \in Flt, y \in Flt, w \in Flt }
          \cup { Bin(op, Bin(op2, x, y), w) : op \in {"+", "-", "*", "/"}, op2 \in {"+", "-", "*", "/"}, x \in Flt, y \in Flt, w \in Flt }
          \cup { Bin("**", Bin("**", x, L(2)), y) : x \in Flt \cup IntAtoms, y \in {L(2), L(3)} }
          \cup { Bin("**", x, Bin("**", L(2), y)) : x \in Flt \cup IntAtoms, y \in {L(2)} }
          \cup { Bin(op, Neg(x), y) : op \in Ops, x \in Flt \cup {F(Idx("i")), F(Idx("m"))}, y \in {L(2), L(3), F(Idx("h"))} }
          \cup { Bin(op, y, Neg(x)) : op \in {"+", "-", "*", "/"}, x \in Flt \cup {F(Idx("i")), F(Idx("m"))}, y \in {L(2), L(3), F(Idx("h"))} }
          \cup { Neg(Bin(op, a, b)) : op \in {"+", "-"}, a \in IntAtoms, b \in IntAtoms }
          \cup { Bin("-", a, Neg(b)) : a \in IntAtoms, b \in { F(Idx("i")), F(Idx("j")) } }

Abs(x) == IF x < 0 THEN -x ELSE x
RECURSIVE Gcd(_, _)
Gcd(a, b) == IF b = 0 THEN a ELSE Gcd(b, a % b)
Red(n, d) == LET g == Gcd(Abs(n), d) IN IF n = 0 THEN [n |-> 0, d |-> 1] ELSE [n |-> n \div g, d |-> d \div g]
IsPow2(d) == d \in {1, 2, 4, 8, 16, 32, 64, 128, 256, 512, 1024}
Undefined == [n |-> 0, d |-> 0]
Small(x) == x.d # 0 /\ Abs(x.n) < 1000000 /\ IsPow2(x.d)

RECURSIVE IntPow(_, _)
IntPow(b, e) == IF e = 0 THEN 1 ELSE b * IntPow(b, e - 1)

\* does the expression involve a floating point operand (then / is real division, otherwise integer division)
RECURSIVE Floaty(_)
Floaty(e) == CASE e.k = "field" -> IsFloat(Fields[e.i].p) [] e.k = "lit" -> FALSE [] e.k = "neg" -> Floaty(e.e)
               [] e.k = "bin" -> e.op = "**" \/ Floaty(e.l) \/ Floaty(e.r)

RECURSIVE HasComplex(_)
HasComplex(e) == CASE e.k = "field" -> Fields[e.i].p \in {"complexfloat32", "complexfloat64"} [] e.k = "lit" -> FALSE [] e.k = "neg" -> HasComplex(e.e)
                   [] e.k = "bin" -> HasComplex(e.l) \/ HasComplex(e.r)

RECURSIVE EvalV(_, _, _)
EvalV(v, fl, e) ==
  CASE e.k = "field" -> [n |-> FN(v, e.i), d |-> Fields[e.i].d]
    [] e.k = "lit" -> [n |-> e.n, d |-> 1]
    [] e.k = "neg" -> LET x == EvalV(v, fl, e.e) IN IF x.d = 0 \/ (e.e.k = "field" /\ IsUnsigned(Fields[e.e.i].p)) THEN Undefined ELSE [n |-> -x.n, d |-> x.d]
    [] e.k = "bin" ->
         LET a == EvalV(v, fl, e.l) b == EvalV(v, fl, e.r) IN
         IF a.d = 0 \/ b.d = 0 THEN Undefined
         ELSE LET r == CASE e.op = "+" -> Red(a.n * b.d + b.n * a.d, a.d * b.d)
                         [] e.op = "-" -> Red(a.n * b.d - b.n * a.d, a.d * b.d)
                         [] e.op = "*" -> Red(a.n * b.n, a.d * b.d)
                         [] e.op = "/" -> IF b.n = 0 THEN Undefined
                                          ELSE IF Floaty(e.l) \/ Floaty(e.r)
                                               THEN (IF b.n < 0 THEN Red(-(a.n * b.d), a.d * (-b.n)) ELSE Red(a.n * b.d, a.d * b.n))
                                               ELSE (IF Abs(a.n) % Abs(b.n) = 0 THEN [n |-> (IF (a.n < 0) = (b.n < 0) THEN 1 ELSE -1) * (Abs(a.n) \div Abs(b.n)), d |-> 1]
                                                     ELSE IF fl /\ a.n >= 0 /\ b.n > 0 THEN [n |-> a.n \div b.n, d |-> 1]      \* fl: inexact quotient of non-negative integers, rounded down
                                                     ELSE Undefined)     \* integer division: exact, or (fl) of non-negative operands
                         [] e.op = "**" -> IF ~HasComplex(e) /\ b.d = 1 /\ b.n >= 0 /\ b.n <= 4 /\ Abs(a.n) <= 50
                                           THEN Red(IntPow(a.n, b.n), IntPow(a.d, b.n)) ELSE Undefined
              IN IF Small(r) THEN r ELSE Undefined

Eval(e) == EvalV(1, FALSE, e)

\* unsigned operands make differences and negations leave the operand type's range in C++: excluded from "in range"
RECURSIVE UsesUnsigned(_)
UsesUnsigned(e) == CASE e.k = "field" -> IsUnsigned(Fields[e.i].p) [] e.k = "lit" -> FALSE [] e.k = "neg" -> UsesUnsigned(e.e)
                     [] e.k = "bin" -> UsesUnsigned(e.l) \/ UsesUnsigned(e.r)
InRange(e) == Eval(e).d # 0 /\ (UsesUnsigned(e) => Eval(e).n >= 0)
InRangeV(v, fl, e) == EvalV(v, fl, e).d # 0 /\ (UsesUnsigned(e) => EvalV(v, fl, e).n >= 0)
\* a top-level integer quotient that is inexact with a negative operand: C++ truncates, Python rounds down (the property has no
\* mathematical value for it, only "the same in every language"); exported so that the harness can observe the two back ends
SignDiv(e) == e.k = "bin" /\ e.op = "/" /\ ~Floaty(e.l) /\ ~Floaty(e.r) /\ ~UsesUnsigned(e) /\ e.l.k # "bin" /\ e.r.k # "bin"
              /\ LET a == Eval(e.l) b == Eval(e.r) IN a.d = 1 /\ b.d = 1 /\ b.n # 0 /\ Abs(a.n) % Abs(b.n) # 0 /\ (a.n < 0 \/ b.n < 0)

(***************************************************************************)
(* Static types.  The documentation gives no promotion table (only "**    *)
(* yields a float64"), so this is the natural numeric tower, kept as a     *)
(* MODEL: the harness reports differences from the compiler as model       *)
(* drift, and raises violations only for what C19 states outright -        *)
(* operand-order independence, agreement between target languages, "**"    *)
(* on integers is float64 - and for values.                                *)
(***************************************************************************)
Width(p) == CASE p \in {"int8", "uint8"} -> 8 [] p \in {"int16", "uint16"} -> 16 [] p \in {"int32", "uint32", "float32", "complexfloat32"} -> 32
              [] OTHER -> 64
IsSigned(p) == p \in {"int8", "int16", "int32", "int64"}
IsComplex(p) == p \in {"complexfloat32", "complexfloat64"}
IsReal(p) == p \in {"float32", "float64"}
SignedOf(w) == CASE w = 8 -> "int8" [] w = 16 -> "int16" [] w = 32 -> "int32" [] OTHER -> "int64"
UnsignedOf(w) == CASE w = 8 -> "uint8" [] w = 16 -> "uint16" [] w = 32 -> "uint32" [] OTHER -> "uint64"
Max2(a, b) == IF a > b THEN a ELSE b
Common(p, q) ==
  IF p = q THEN p
  ELSE IF IsComplex(p) \/ IsComplex(q)
       THEN (IF (IsFloat(p) /\ Width(p) = 64) \/ (IsFloat(q) /\ Width(q) = 64) THEN "complexfloat64"
             ELSE IF IsComplex(p) THEN p ELSE q)
  ELSE IF IsReal(p) /\ IsReal(q) THEN "float64"
  ELSE IF IsReal(p) THEN p ELSE IF IsReal(q) THEN q
  ELSE IF IsSigned(p) /\ IsSigned(q) THEN SignedOf(Max2(Width(p), Width(q)))
  ELSE IF IsUnsigned(p) /\ IsUnsigned(q) THEN (IF "size" \in {p, q} THEN "size" ELSE UnsignedOf(Max2(Width(p), Width(q))))
  ELSE LET sg == IF IsSigned(p) THEN p ELSE q   un == IF IsSigned(p) THEN q ELSE p IN
       IF Width(un) = 64 THEN "none" ELSE SignedOf(Max2(Width(sg), 2 * Width(un)))

RECURSIVE TypeOf(_)
TypeOf(e) ==
  CASE e.k = "field" -> Fields[e.i].p
    [] e.k = "lit" -> "uint8"
    [] e.k = "neg" -> TypeOf(e.e)
    [] e.k = "bin" -> LET l == TypeOf(e.l) r == TypeOf(e.r) IN
         IF "none" \in {l, r} THEN "none"
         ELSE LET c == Common(l, r) IN
              IF c = "none" THEN c
              ELSE IF e.op = "**" THEN (IF IsFloat(c) THEN c ELSE "float64")
              ELSE IF c \in {"int8", "uint8", "int16", "uint16"} THEN "int32" ELSE c

ASSUME \A p \in { Fields[x].p : x \in 1..Len(Fields) }, q \in { Fields[x].p : x \in 1..Len(Fields) } : Common(p, q) = Common(q, p)

Swap(e) == IF e.k = "bin" THEN Bin(e.op, e.r, e.l) ELSE e

Exprs == Depth1 \cup Depth2
ASSUME PrintT(<<"expressions", Cardinality(Exprs), "valued", Cardinality({ e \in Exprs : InRange(e) }), "valued rounding down", Cardinality({ e \in Exprs : InRangeV(1, TRUE, e) }),
               "valued under the positive valuation", Cardinality({ e \in Exprs : InRangeV(2, TRUE, e) }), "signed inexact quotients", Cardinality({ e \in Exprs : SignDiv(e) })>>)
ASSUME ndJsonSerialize(IOEnv.VERIF_FIELDS, Fields)
ASSUME ndJsonSerialize(IOEnv.VERIF_FIELDS2, [x \in 1..Len(Fields) |-> [Fields[x] EXCEPT !.n = FN(2, x)]])
ASSUME ndJsonSerialize(IOEnv.VERIF_OUT, SetToSeq({ [e |-> e, defined |-> InRange(e), value |-> Eval(e),
                                                       defined_floor |-> InRangeV(1, TRUE, e), value_floor |-> EvalV(1, TRUE, e),
                                                       defined2 |-> InRangeV(2, TRUE, e), value2 |-> EvalV(2, TRUE, e), exact2 |-> InRangeV(2, FALSE, e),
                                                       signdiv |-> SignDiv(e), commutes |-> (e.k = "bin" /\ e.op \in {"+", "*"}), type |-> TypeOf(e),
                                                       intpow |-> (e.k = "bin" /\ e.op = "**" /\ ~Floaty(e.l) /\ ~Floaty(e.r))]
                                                     : e \in Exprs }))
=============================================================================
