INIT Init
NEXT Next
INVARIANTS VacuityGuard Export
CHECK_DEADLOCK FALSE
