CONSTANTS MaxFlips = 7
INIT Init
NEXT Next
INVARIANT Export
VIEW SpView
CHECK_DEADLOCK FALSE
