------------------------------- MODULE Literals -------------------------------
(***************************************************************************)
(* Integer literals at every place of a model that takes one (C10).        *)
(*                                                                         *)
(* The front end reads integer literals as arbitrary-precision numbers     *)
(* and narrows them later, at the place of use: a dimension index, a       *)
(* subscript, a vector length, an array extent, an enum value, an operand  *)
(* of an arithmetic expression.  Each narrowing has its own range check;   *)
(* a check that is done after the narrowing (or in the narrow type) is     *)
(* wrong exactly at the powers of two around the type's limits.  This      *)
(* module enumerates Sites (a complete model text with one hole) x Lits    *)
(* (values at and just beyond the limits of 8/16/32/64-bit signed and      *)
(* unsigned integers, in the spellings the scanner accepts) and states the *)
(* required outcome: Outcome (exit 0, or exit 1 with an error naming the   *)
(* file), and for the control literal of a site (the value written in the  *)
(* valid base model) acceptance, so that the family is not vacuous.        *)
(***************************************************************************)
EXTENDS Naturals, Sequences, FiniteSets, TLC, Json, IOUtils, SequencesExt

NL == "\n"

Lits == {"0", "1", "2", "-1", "-2", "+1", "007", "127", "128", "255", "256", "32767", "32768", "65535", "65536",
         "2147483647", "2147483648", "4294967295", "4294967296", "-2147483648", "-2147483649",
         "9223372036854775807", "9223372036854775808", "18446744073709551615", "18446744073709551616",
         "-9223372036854775808", "-9223372036854775809", "-18446744073709551615",
         "0x7F", "0xFF", "0x7FFFFFFF", "0xFFFFFFFF", "0x7FFFFFFFFFFFFFFF", "0x8000000000000000", "0xFFFFFFFFFFFFFFFF", "0x10000000000000000",
         "340282366920938463463374607431768211456", "1e3", "1.0", "1_000", "0b101", "0o17", "1e400"}

RecHead == "R: !record" \o NL \o "  fields:" \o NL \o "    a: int" \o NL \o "    b: uint64" \o NL \o "    v: double*3" \o NL \o "    vv: int*" \o NL \o
           "    arr: float[x, y]" \o NL \o "    fa: float[2, 3]" \o NL \o "    ra: float[,]" \o NL \o "    da: float[]" \o NL \o "    m: string->int" \o NL \o
           "    mi: int->int" \o NL
Proto == "P: !protocol" \o NL \o "  sequence:" \o NL \o "    r: R" \o NL
Expr(pre, post, ctl)  == [fam |-> "expr", pre |-> RecHead \o "  computedFields:" \o NL \o "    c: '" \o pre, post |-> post \o "'" \o NL \o Proto, ctl |-> ctl]
Field(pre, post, ctl) == [fam |-> "type", pre |-> RecHead \o "    f: " \o pre, post |-> post \o NL \o Proto, ctl |-> ctl]
FieldS(pre, post, ctl) == Field("\"" \o pre, post \o "\"", ctl)
Def(pre, post, ctl)   == [fam |-> "node", pre |-> RecHead \o Proto \o pre, post |-> post \o NL, ctl |-> ctl]

Sites ==
  [ size_named       |-> Expr("size(arr, ", ")", "1"),     size_fixed     |-> Expr("size(fa, ", ")", "1"),
    size_rank        |-> Expr("size(ra, ", ")", "1"),      size_dynamic   |-> Expr("size(da, ", ")", "1"),
    size_vector      |-> Expr("size(v, ", ")", ""),        sub_named_1    |-> Expr("arr[", ", 0]", "1"),
    sub_named_2      |-> Expr("arr[0, ", "]", "1"),        sub_labeled    |-> Expr("arr[x: 0, y: ", "]", "1"),
    sub_fixed        |-> Expr("fa[", ", 0]", "1"),         sub_rank       |-> Expr("ra[0, ", "]", "1"),
    sub_dynamic      |-> Expr("da[", "]", "1"),            sub_fixed_vec  |-> Expr("v[", "]", "1"),
    sub_vector       |-> Expr("vv[", "]", "1"),            sub_map_int    |-> Expr("mi[", "]", ""),
    add_right        |-> Expr("a + ", "", "1"),            add_left       |-> Expr("", " + a", "1"),
    add_unsigned     |-> Expr("b + ", "", "1"),            mul            |-> Expr("a * ", "", "1"),
    div              |-> Expr("a / ", "", "1"),            pow            |-> Expr("a ** ", "", "1"),
    alone            |-> Expr("", "", "1"),                negated        |-> Expr("-(", ")", "1"),
    cast_small       |-> Expr("", " as uint8", "1"),       cast_float     |-> Expr("", " as float", "1"),
    dim_index_of     |-> Expr("dimensionIndex(arr, ", ")", ""),
    vec_len_short    |-> FieldS("int*", "", "1"),           arr_len_short  |-> FieldS("int[", "]", "1"),
    arr_len_short_2  |-> FieldS("int[2, ", "]", "1"),       arr_len_named  |-> FieldS("int[x: 2, y: ", "]", "1"),
    vec_len_node     |-> Field("!vector {items: int, length: ", "}", "1"),
    arr_rank_node    |-> Field("!array {items: int, dimensions: ", "}", "1"),
    arr_len_node     |-> Field("!array {items: int, dimensions: {x: ", ", y: 2}}", "1"),
    arr_len_seq_node |-> Field("!array {items: int, dimensions: [", "]}", ""),
    enum_default     |-> Def("E: !enum" \o NL \o "  values: {p: 0, q: ", "}", "1"),
    enum_uint8       |-> Def("E: !enum" \o NL \o "  base: uint8" \o NL \o "  values: {p: 0, q: ", "}", "1"),
    enum_int8        |-> Def("E: !enum" \o NL \o "  base: int8" \o NL \o "  values: {p: 0, q: ", "}", "1"),
    enum_uint64      |-> Def("E: !enum" \o NL \o "  base: uint64" \o NL \o "  values: {p: 0, q: ", "}", "1"),
    enum_int64       |-> Def("E: !enum" \o NL \o "  base: int64" \o NL \o "  values: {p: 0, q: ", "}", "1"),
    enum_size        |-> Def("E: !enum" \o NL \o "  base: size" \o NL \o "  values: {p: 0, q: ", "}", "1"),
    flags_default    |-> Def("F: !flags" \o NL \o "  values: {p: 2, q: ", "}", "1"),
    flags_uint8      |-> Def("F: !flags" \o NL \o "  base: uint8" \o NL \o "  values: {p: 2, q: ", "}", "1"),
    flags_int64      |-> Def("F: !flags" \o NL \o "  base: int64" \o NL \o "  values: {p: 2, q: ", "}", "1"),
    flags_uint64     |-> Def("F: !flags" \o NL \o "  base: uint64" \o NL \o "  values: {p: 2, q: ", "}", "1") ]

Cases == { [site |-> s, family |-> Sites[s].fam, lit |-> l, control |-> (Sites[s].ctl = l),
            text |-> Sites[s].pre \o l \o Sites[s].post] : s \in DOMAIN Sites, l \in Lits }

\* the allowed terminal observations of the front end (the same as Corrupt!Outcome); a control must be accepted
Outcome(o) == \/ o.exit = 0
              \/ (o.exit = 1 /\ o.errors >= 1 /\ o.names_file)
Required(c, o) == Outcome(o) /\ (c.control => o.exit = 0)

ASSUME \A s \in DOMAIN Sites : Sites[s].ctl = "" \/ Sites[s].ctl \in Lits
ASSUME PrintT(<<"cases", Cardinality(Cases), "sites", Cardinality(DOMAIN Sites), "literals", Cardinality(Lits)>>)
ASSUME ndJsonSerialize(IOEnv.VERIF_OUT, SetToSeq(Cases))
=============================================================================
