------------------------------ MODULE Evolution ------------------------------
(***************************************************************************)
(* Schema-evolution verdicts (property C06; the edit catalogue is shared   *)
(* with C05 and C04).                                                      *)
(*                                                                         *)
(* An edit turns a previous version of a model into the current one.  The  *)
(* catalogue below is docs/cpp/evolution.md: each edit has the class the   *)
(* document gives it, and the observable that class requires:              *)
(*   meaning_preserving  exit 0, no error, no warning                      *)
(*   compatible          exit 0                                            *)
(*   partial             exit 0 and at least one warning                   *)
(*   breaking            exit 1 and at least one error naming a file       *)
(* Type-level edits change a type expression and can sit at several        *)
(* positions (directly as a step type, as stream item, in a field of a     *)
(* record the protocol uses, behind an alias, inside vector / optional     *)
(* wrappers up to depth 2); definition-level edits change a definition.    *)
(* For every other pair of models only totality and determinism are        *)
(* required (checked by the harness on all pairs of a small universe).     *)
(***************************************************************************)
EXTENDS Naturals, Sequences, FiniteSets, TLC, Json

TypeEdits == [ e : {"int_to_long", "int_to_float", "int_to_string", "float_to_double", "string_to_int", "make_optional",
                    "optional_to_union", "add_union_case", "remove_union_case", "scalar_to_vector", "scalar_to_array",
                    "vector_to_scalar", "change_generic_argument"} ]
DefEdits  == [ e : {"identity", "reorder_definitions", "rename_with_alias", "add_unused_type", "add_comments",
                    "add_optional_field", "remove_optional_field", "reorder_fields", "add_alias", "remove_alias",
                    "add_stream_step", "add_vector_step", "add_optional_step",
                    \* the added step's type is a vector / optional by way of a named alias, an alias of an alias, a generic alias
                    "add_aliased_vector_step", "add_alias_of_alias_vector_step", "add_generic_alias_vector_step",
                    "add_aliased_optional_step", "add_generic_alias_optional_step", "add_vector_of_records_step",
                    "add_required_field", "remove_required_field", "remove_first_required_field", "remove_last_required_field",
                    "remove_last_two_fields", "add_first_required_field", "remove_last_optional_field",
                    "remove_step", "reorder_steps", "enum_add_value", "enum_remove_value", "enum_change_value",
                    "flags_add_value", "flags_change_value", "generic_add_parameter", "generic_remove_parameter"} ]

Class(e) ==
  CASE e \in {"identity", "reorder_definitions", "rename_with_alias", "add_unused_type", "add_comments"} -> "meaning_preserving"
    [] e \in {"add_optional_field", "remove_optional_field", "reorder_fields", "add_alias", "remove_alias",
              "add_stream_step", "add_vector_step", "add_optional_step", "enum_add_value", "flags_add_value",
              "add_aliased_vector_step", "add_alias_of_alias_vector_step", "add_generic_alias_vector_step",
              "add_aliased_optional_step", "add_generic_alias_optional_step", "add_vector_of_records_step",
              "remove_last_optional_field"} -> "compatible"
    [] e \in {"change_field_type_partial"} -> "partial"
    [] e \in {"int_to_long", "int_to_float", "int_to_string", "float_to_double", "string_to_int", "make_optional", "optional_to_union",
              "add_union_case", "remove_union_case", "add_required_field", "remove_required_field", "remove_first_required_field",
              "remove_last_required_field", "remove_last_two_fields", "add_first_required_field"} -> "partial"
    [] OTHER -> "breaking"

Positions == {"step", "stream_item", "field", "alias", "vector_item", "optional", "vector_of_optional", "stream_of_optional",
              "optional_vector", "field_of_nested_record",
              \* the record holding the edited type is reached only through a type argument of a generic: directly, as the second or
              \* third instantiation of that generic in the protocol (an earlier step uses it with another argument), nested, through a
              \* generic alias, with both instantiations inside one record; and as a union case / map value
              "generic_arg", "second_instantiation", "third_instantiation", "nested_generic_arg", "generic_alias_arg",
              "second_instantiation_alias", "second_instantiation_in_record", "union_case_record"}
\* (a record used as a map value is not in the list: the evolution guide says nothing about maps and the tool rejects every change there)

\* definition-level edits of a record, with the record used at these positions
RecordEdits == {"add_optional_field", "remove_optional_field", "reorder_fields", "add_required_field", "remove_required_field",
                "change_field_type_breaking", "change_field_type_partial"}
RecordPositions == {"step", "generic_arg", "second_instantiation", "second_instantiation_alias", "second_instantiation_in_record",
                    "vector_item", "field_of_record", "union_case_record", "optional", "stream_item"}

\* where a type-level edit makes sense
Applicable(e, p) ==
  /\ (e \in {"make_optional", "optional_to_union"} => p \notin {"optional", "vector_of_optional", "stream_of_optional"})
  /\ (e \in {"scalar_to_vector", "scalar_to_array", "vector_to_scalar"} => p \notin {"vector_item", "optional_vector"} \/ TRUE)

\* "To rename a record (or any other type definition), introduce a new alias to match the name in the previous version":
\* every kind of named definition, used at every position, renamed with the old name kept as an alias (the protocol spelled with
\* the new or with the old name), and the alias dropped again one version later.  All three are meaning-preserving.
RenameKinds == {"record", "enum", "enum_based", "flags", "generic_record", "union_alias", "vector_alias", "generic_union", "map_alias"}
RenamePositions == {"step", "stream_item", "vector_item", "optional", "field", "union_case", "generic_arg", "map_value"}
RenameEdits == {"rename", "rename_keep_spelling", "drop_rename_alias"}
RenameApplicable(k, p) == ~(k \in {"generic_record", "generic_union"} /\ p = "union_case")      \* an instantiated generic has no default tag
RenameCases == { c \in { [edit |-> x[1] \o ":" \o x[2], pos |-> x[3], class |-> "meaning_preserving", ok |-> RenameApplicable(x[2], x[3])] :
                           x \in RenameEdits \X RenameKinds \X RenamePositions } : c.ok }

Cases == RenameCases \cup
         { [edit |-> t.e, pos |-> p, class |-> Class(t.e), ok |-> TRUE] : t \in TypeEdits, p \in Positions } \cup
         { [edit |-> d.e, pos |-> "definition", class |-> Class(d.e), ok |-> TRUE] : d \in DefEdits } \cup
         { [edit |-> e, pos |-> p, class |-> Class(e), ok |-> TRUE] : e \in RecordEdits, p \in RecordPositions }
Enumerated == { c \in Cases : c \in RenameCases \/ c.pos = "definition" \/ Applicable(c.edit, c.pos) }

Required(c) == CASE c.class = "meaning_preserving" -> [exit |-> 0, warnings |-> "none", errors |-> "none"]
                 [] c.class = "compatible"         -> [exit |-> 0, warnings |-> "any", errors |-> "none"]
                 [] c.class = "partial"            -> [exit |-> 0, warnings |-> "some", errors |-> "none"]
                 [] OTHER                          -> [exit |-> 1, warnings |-> "any", errors |-> "some"]

\* chains for C05: successive versions obtained by non-breaking edits
NonBreaking == { c \in Enumerated : c.class # "breaking" }

ASSUME \A c \in Enumerated : Required(c).exit \in {0, 1}
ASSUME PrintT(<<"cases", Cardinality(Enumerated)>>)
ASSUME \A c \in Enumerated : PrintT(<<"CASE", ToJson([edit |-> c.edit, pos |-> c.pos, class |-> c.class, required |-> Required(c)])>>)
=============================================================================
