-------------------------------- MODULE Cross --------------------------------
(***************************************************************************)
(* Cross products of "what is wrong" and "where it is used" (properties    *)
(* C10 and C09).                                                           *)
(*                                                                         *)
(* The validation passes of the front end run one after the other over the *)
(* whole environment; an early pass only *reports* a broken definition and *)
(* the later passes still visit it.  A later pass that relies on what the  *)
(* earlier one checked (a resolved alias chain is finite, all dimensions   *)
(* have a length if the first has, dimension names exist, ...) crashes     *)
(* exactly when a particular kind of broken type sits at a particular kind *)
(* of use site.  The two families below enumerate these pairs:             *)
(*                                                                         *)
(*   TypeCases  every type expression (valid controls and one per rule     *)
(*              that a type expression or its definition can break)        *)
(*              at every use site of a type (field, container argument,    *)
(*              map key / value, union case with and without tag,          *)
(*              generic argument, alias, protocol step, stream item,       *)
(*              enum base, cast target, switch pattern);                   *)
(*   ExprCases  every computed-field expression form applied to a field of *)
(*              every type shape.                                          *)
(*                                                                         *)
(* Required outcome (Outcome): exit 0, or exit 1 with at least one error   *)
(* that names a file; and MustReject: a case whose type breaks a language  *)
(* rule is never accepted, wherever it is used (C09).  The model text is   *)
(* assembled here; the harness only writes it to a file and runs the tool. *)
(***************************************************************************)
EXTENDS Naturals, Sequences, FiniteSets, TLC, Json, IOUtils, SequencesExt

NL == "\n"
Q(s) == "\"" \o s \o "\""

Support ==
  "Rec1: !record" \o NL \o "  fields:" \o NL \o "    q: int" \o NL \o
  "En1: !enum" \o NL \o "  values: [a, b]" \o NL \o
  "Al1: int" \o NL \o
  "G1<T>: T*" \o NL \o
  "G2<T>: !record" \o NL \o "  fields:" \o NL \o "    g: T" \o NL \o
  "G3<A, B>: !record" \o NL \o "  fields:" \o NL \o "    a: A" \o NL \o "    b: B" \o NL

(* A type: n = name of the case, s = shorthand text ("" if the type has no shorthand), y = YAML flow node,                *)
(* defs = definitions it needs, bad = the language rule it breaks ("" for a valid control), okAt = sites where it is valid *)
Sh(n, s, bad)            == [n |-> n, s |-> s, y |-> Q(s), defs |-> "", bad |-> bad, okAt |-> {}]
ShD(n, s, defs, bad)     == [n |-> n, s |-> s, y |-> Q(s), defs |-> defs, bad |-> bad, okAt |-> {}]
Nd(n, y, bad)            == [n |-> n, s |-> "", y |-> y, defs |-> "", bad |-> bad, okAt |-> {}]

Types ==
  { Sh("int", "int", ""), Sh("string", "string", ""), Sh("optional", "int?", ""), Sh("vector", "int*", ""), Sh("fixed_vector", "int*3", ""),
    Sh("fixed_array", "int[2,3]", ""), Sh("fixed_named_array", "int[x:2,y:3]", ""), Sh("named_array", "int[x,y]", ""),
    Sh("rank_array", "int[,]", ""), Sh("dynamic_array", "int[]", ""), Sh("map", "string->int", ""),
    Sh("record", "Rec1", ""), Sh("enum", "En1", ""), Sh("alias", "Al1", ""), Sh("generic_alias", "G1<int>", ""), Sh("generic_record", "G2<Rec1>", ""),
    Nd("union", "[int, string]", ""), Nd("nullable_union", "[null, int, string]", ""), Nd("tagged_union", "!union {a: int, b: string}", ""),
    \* unions and optionals behind an alias (as a union case they are "a union inside a union" only by name, which is allowed)
    ShD("union_alias", "UAl1", "UAl1: [int, string]" \o NL, ""), ShD("tagged_union_alias", "UAl2", "UAl2: [float, double]" \o NL, ""),
    ShD("nullable_union_alias", "UAl3", "UAl3: [null, int, string]" \o NL, ""), ShD("optional_alias", "OAl1", "OAl1: int?" \o NL, ""),
    ShD("generic_union_alias", "UAl4<int, string>", "UAl4<A, B>: [A, B]" \o NL, ""),
    Nd("vector_node", "!vector {items: int, length: 2}", ""), Nd("array_node", "!array {items: int, dimensions: {x: 2, y: 3}}", ""),
    \* ---- one per rule
    ShD("alias_cycle", "Cyc1", "Cyc1: Cyc2" \o NL \o "Cyc2: Cyc1" \o NL, "cyclic"),
    ShD("alias_self", "Self1", "Self1: Self1" \o NL, "cyclic"),
    ShD("alias_self_vector", "SelfV", "SelfV: SelfV*" \o NL, "cyclic"),
    ShD("record_cycle", "RecCyc", "RecCyc: !record" \o NL \o "  fields:" \o NL \o "    r: RecCyc" \o NL, "cyclic"),
    ShD("generic_cycle", "GCyc", "GCyc: G2<GCyc>" \o NL, "cyclic"),
    Sh("unknown_type", "NoSuch", "unknown"), Sh("unknown_in_generic", "G1<NoSuch>", "unknown"), Sh("unknown_namespace", "Nope.Rec1", "unknown"),
    Sh("missing_type_args", "G1", "arity"), Sh("too_many_type_args", "G1<int, int>", "arity"), Sh("type_args_on_primitive", "int<int>", "arity"),
    Sh("type_args_on_record", "Rec1<int>", "arity"), Sh("too_few_type_args", "G3<int>", "arity"),
    Sh("partial_lengths", "int[x:2, y]", "dimensions"), Sh("partial_lengths_unnamed", "int[2, ]", "dimensions"),
    Sh("duplicate_dimension", "int[x:2, x:3]", "dimensions"), Sh("duplicate_dimension_nolen", "int[x, x]", "dimensions"),
    Sh("zero_length_vector", "int*0", ""),
    Nd("nested_union", "[int, [float, string]]", "union"), Nd("duplicate_cases", "[int, int]", "union"), Nd("empty_union", "[]", "union"),
    Nd("null_not_first", "[int, null, string]", "union"), Nd("only_null", "[null]", "union"), Nd("duplicate_tags", "!union {a: int, a: string}", "union"),
    Nd("alias_duplicate_cases", "[int, Al1x]", "union"),
    [n |-> "stream", s |-> "", y |-> "!stream {items: int}", defs |-> "", bad |-> "stream", okAt |-> {"step"}],
    ShD("record_map_key", "Rec1->int", "", "mapkey"), Sh("vector_map_key", "int*->int", "mapkey"), ShD("cyclic_map_key", "Cyc3->int", "Cyc3: Cyc4" \o NL \o "Cyc4: Cyc3" \o NL, "mapkey"),
    ShD("enum_bad_base", "BadEn", "BadEn: !enum" \o NL \o "  base: string" \o NL \o "  values: [a]" \o NL, "enum"),
    ShD("enum_cyclic_base", "CycEn", "EA: EB" \o NL \o "EB: EA" \o NL \o "CycEn: !enum" \o NL \o "  base: EA" \o NL \o "  values: [a]" \o NL, "enum"),
    ShD("enum_duplicate_value", "DupEn", "DupEn: !enum" \o NL \o "  values: {a: 1, b: 1}" \o NL, "enum"),
    ShD("enum_out_of_range", "BigEn", "BigEn: !enum" \o NL \o "  base: uint8" \o NL \o "  values: {a: 256}" \o NL, "enum"),
    ShD("flags_bad_base", "BadFl", "BadFl: !flags" \o NL \o "  base: float" \o NL \o "  values: [a]" \o NL, "enum"),
    ShD("bad_field_name", "BadF", "BadF: !record" \o NL \o "  fields:" \o NL \o "    Bad_Name: int" \o NL, "name"),
    ShD("unused_type_parameter", "Unu<int>", "Unu<T>: !record" \o NL \o "  fields:" \o NL \o "    x: int" \o NL, "generic"),
    \* ---- rules that are broken only once a generic type is instantiated
    ShD("generic_duplicate_cases", "Either<int, int>", "Either<A, B>: [A, B]" \o NL, "union"),
    ShD("generic_duplicate_cases_alias", "Either<int, Al1>", "Either<A, B>: [A, B]" \o NL, "union"),
    ShD("nested_generic_duplicate_cases", "Outer<int>",
        "Wrapper<T>: !record" \o NL \o "  fields:" \o NL \o "    value: T" \o NL \o "Either<A, B>: [A, B]" \o NL \o
        "Outer<T>: !record" \o NL \o "  fields:" \o NL \o "    choice: Either<Wrapper<T>, Wrapper<int>>" \o NL, "union"),
    ShD("nested_generic_duplicate_cases_vector", "OuterV<int>",
        "WrapperV<T>: !record" \o NL \o "  fields:" \o NL \o "    value: T" \o NL \o "EitherV<A, B>: [A, B]" \o NL \o
        "OuterV<T>: !record" \o NL \o "  fields:" \o NL \o "    choice: EitherV<WrapperV<T>*, WrapperV<int>*>" \o NL, "union"),
    ShD("generic_alias_duplicate_cases", "OuterA<int>",
        "EitherA<A, B>: [A, B]" \o NL \o "MidA<T>: EitherA<T, int>" \o NL \o "OuterA<T>: MidA<T>" \o NL, "union"),
    ShD("generic_map_key_record", "Mp<Rec1>", "Mp<K>: K->int" \o NL, "mapkey"),
    ShD("generic_nested_optional", "Opt2<int?>", "Opt2<T>: [null, T]" \o NL, ""),
    ShD("bad_computed_field", "BadC", "BadC: !record" \o NL \o "  fields:" \o NL \o "    x: int" \o NL \o "  computedFields:" \o NL \o "    c: y + 1" \o NL, "computed") }
  \cup { [n |-> "alias_duplicate_cases_def", s |-> "", y |-> "[int, Al1]", defs |-> "", bad |-> "", okAt |-> {}] }

(* A use site: k = "str" (the shorthand is spliced into a type string) or "node" (a YAML node), pre/post = the text around it *)
Rec(f) == "H: !record" \o NL \o "  fields:" \o NL \o "    x: int" \o NL \o "    u: [int, string]" \o NL \o "    f: " \o f
Step(f) == "H: !protocol" \o NL \o "  sequence:" \o NL \o "    a: int" \o NL \o "    s: " \o f
Sites ==
  { [n |-> "field",            k |-> "node", pre |-> Rec(""), post |-> NL],
    [n |-> "optional",         k |-> "str",  pre |-> Rec("\""), post |-> "?\"" \o NL],
    [n |-> "vector",           k |-> "str",  pre |-> Rec("\""), post |-> "*\"" \o NL],
    [n |-> "fixed_vector",     k |-> "str",  pre |-> Rec("\""), post |-> "*2\"" \o NL],
    [n |-> "dynamic_array",    k |-> "str",  pre |-> Rec("\""), post |-> "[]\"" \o NL],
    [n |-> "fixed_array",      k |-> "str",  pre |-> Rec("\""), post |-> "[2]\"" \o NL],
    [n |-> "map_value",        k |-> "str",  pre |-> Rec("\"string->"), post |-> "\"" \o NL],
    [n |-> "map_key",          k |-> "str",  pre |-> Rec("\""), post |-> "->int\"" \o NL],
    [n |-> "generic_arg",      k |-> "str",  pre |-> Rec("\"G2<"), post |-> ">\"" \o NL],
    [n |-> "second_generic_arg", k |-> "str", pre |-> Rec("\"G3<int, "), post |-> ">\"" \o NL],
    [n |-> "vector_node",      k |-> "node", pre |-> Rec("!vector {items: "), post |-> "}" \o NL],
    [n |-> "array_node",       k |-> "node", pre |-> Rec("!array {items: "), post |-> ", dimensions: [a, b]}" \o NL],
    [n |-> "map_node_value",   k |-> "node", pre |-> Rec("!map {keys: string, values: "), post |-> "}" \o NL],
    [n |-> "map_node_key",     k |-> "node", pre |-> Rec("!map {keys: "), post |-> ", values: int}" \o NL],
    [n |-> "union_case",       k |-> "node", pre |-> Rec("[float, "), post |-> "]" \o NL],
    [n |-> "nullable_union_case", k |-> "node", pre |-> Rec("[null, float, "), post |-> "]" \o NL],
    [n |-> "tagged_union_case", k |-> "node", pre |-> Rec("!union {a: float, b: "), post |-> "}" \o NL],
    [n |-> "optional_node",    k |-> "node", pre |-> Rec("[null, "), post |-> "]" \o NL],
    [n |-> "generic_node_arg", k |-> "node", pre |-> Rec("!generic {name: G2, args: ["), post |-> "]}" \o NL],
    [n |-> "alias",            k |-> "node", pre |-> "H: ", post |-> NL],
    [n |-> "generic_alias",    k |-> "node", pre |-> "H<T>: !record" \o NL \o "  fields:" \o NL \o "    t: T" \o NL \o "    f: ", post |-> NL],
    [n |-> "step",             k |-> "node", pre |-> "H: !protocol" \o NL \o "  sequence:" \o NL \o "    a: int" \o NL \o "    s: ", post |-> NL],
    [n |-> "stream_item",      k |-> "node", pre |-> "H: !protocol" \o NL \o "  sequence:" \o NL \o "    s: !stream {items: ", post |-> "}" \o NL],
    [n |-> "step_vector_node", k |-> "node", pre |-> Step("!vector {items: "), post |-> "}" \o NL],
    [n |-> "step_array_node",  k |-> "node", pre |-> Step("!array {items: "), post |-> ", dimensions: 2}" \o NL],
    [n |-> "step_optional_node", k |-> "node", pre |-> Step("[null, "), post |-> "]" \o NL],
    [n |-> "step_union_case",  k |-> "node", pre |-> Step("[float, "), post |-> "]" \o NL],
    [n |-> "step_map_node_value", k |-> "node", pre |-> Step("!map {keys: string, values: "), post |-> "}" \o NL],
    [n |-> "step_generic_node_arg", k |-> "node", pre |-> Step("!generic {name: G2, args: ["), post |-> "]}" \o NL],
    [n |-> "step_generic_alias_arg", k |-> "node", pre |-> Step("!generic {name: G1, args: ["), post |-> "]}" \o NL],
    [n |-> "stream_item_vector_node", k |-> "node", pre |-> Step("!stream {items: !vector {items: "), post |-> "}}" \o NL],
    [n |-> "enum_base",        k |-> "node", pre |-> "H: !enum" \o NL \o "  base: ", post |-> NL \o "  values: [a, b]" \o NL],
    [n |-> "cast_target",      k |-> "str",  pre |-> Rec("int") \o NL \o "  computedFields:" \o NL \o "    c: 'x as ", post |-> "'" \o NL],
    [n |-> "switch_pattern",   k |-> "str",  pre |-> Rec("int") \o NL \o "  computedFields:" \o NL \o "    c:" \o NL \o "      !switch u:" \o NL \o "        \"", post |-> "\": 1" \o NL \o "        _: 0" \o NL],
    [n |-> "switch_binding",   k |-> "str",  pre |-> Rec("int") \o NL \o "  computedFields:" \o NL \o "    c:" \o NL \o "      !switch u:" \o NL \o "        \"", post |-> " v\": 1" \o NL \o "        _: 0" \o NL] }

Splice(t, s) == IF s.k = "str" THEN t.s ELSE t.y
Applicable(t, s) == s.k = "node" \/ t.s # ""

\* these sites make the package invalid by themselves for most types (an enum base must be an integer type, a pattern must be
\* a case of the union, a map key must be a primitive ...); they are totality cases only
TotalityOnlySites == {"enum_base", "cast_target", "switch_pattern", "switch_binding", "map_key", "map_node_key"}

TypeCases ==
  { [family |-> "type", what |-> t.n, site |-> s.n, rule |-> t.bad,
     must_reject |-> (t.bad # "" /\ s.n \notin t.okAt),
     must_accept |-> FALSE,
     text |-> Support \o (IF t.n = "alias_duplicate_cases" THEN "Al1x: int" \o NL ELSE "") \o t.defs \o s.pre \o Splice(t, s) \o s.post]
    : t \in { x \in Types : x.n # "alias_duplicate_cases_def" }, s \in { x \in Sites : TRUE } }

TypeCasesApplicable == { c \in TypeCases : TRUE }

-----------------------------------------------------------------------------
(* Expressions over a field f of each type shape *)
FieldTypes ==
  { x \in Types : x.bad = "" /\ x.n \notin {"vector_node", "array_node"} } \cup
  { Sh("type_parameter", "T", ""), Sh("complex", "complexfloat", ""), Sh("date", "date", ""), Sh("bool", "bool", ""), Sh("uint64", "uint64", ""),
    Sh("float", "float", ""), Sh("vector_of_arrays", "int[2,3]*", ""), Sh("map_of_vectors", "string->int*", ""), Sh("optional_record", "Rec1?", ""),
    Sh("array_of_records", "Rec1[x,y]", "") }

Line(e) == "    c: '" \o e \o "'" \o NL
Sw(target, cases) == "    c:" \o NL \o "      !switch " \o target \o ":" \o NL \o cases
Case(p, e) == "        " \o p \o ": " \o e \o NL

Exprs ==
  { [n |-> "ref", y |-> Line("f")], [n |-> "plus", y |-> Line("f + 1")], [n |-> "plus_self", y |-> Line("f + f")], [n |-> "neg", y |-> Line("-f")],
    [n |-> "pow", y |-> Line("f ** 2")], [n |-> "div_zero", y |-> Line("f / 0")], [n |-> "mul_k", y |-> Line("k * f")],
    [n |-> "index1", y |-> Line("f[0]")], [n |-> "index2", y |-> Line("f[0, 1]")], [n |-> "index3", y |-> Line("f[0, 1, 2]")],
    [n |-> "index_labeled", y |-> Line("f[x: 0, y: 1]")], [n |-> "index_labeled_swapped", y |-> Line("f[y: 1, x: 0]")],
    [n |-> "index_labeled_unknown", y |-> Line("f[a: 0, b: 1]")], [n |-> "index_labeled_one", y |-> Line("f[x: 0]")],
    [n |-> "index_mixed", y |-> Line("f[0, y: 1]")], [n |-> "index_labeled_dup", y |-> Line("f[x: 0, x: 1]")],
    [n |-> "index_string", y |-> Line("f[\"k\"]")], [n |-> "index_twice", y |-> Line("f[0][0]")], [n |-> "index_member", y |-> Line("f[0].q")],
    [n |-> "index_by_size", y |-> Line("f[size(f)]")], [n |-> "index_by_field", y |-> Line("f[k]")], [n |-> "index_negative", y |-> Line("f[-1]")],
    [n |-> "index_huge", y |-> Line("f[99999999999999999999]")], [n |-> "index_float", y |-> Line("f[1.5]")],
    [n |-> "size", y |-> Line("size(f)")], [n |-> "size_dim", y |-> Line("size(f, 0)")], [n |-> "size_dim_big", y |-> Line("size(f, 7)")],
    [n |-> "size_label", y |-> Line("size(f, \"x\")")], [n |-> "size_label_unknown", y |-> Line("size(f, \"nope\")")], [n |-> "size_of_item", y |-> Line("size(f[0])")],
    [n |-> "size_no_args", y |-> Line("size()")], [n |-> "size_three_args", y |-> Line("size(f, 0, 1)")], [n |-> "size_dim_field", y |-> Line("size(f, k)")],
    [n |-> "dim_index", y |-> Line("dimensionIndex(f, \"x\")")], [n |-> "dim_index_unknown", y |-> Line("dimensionIndex(f, \"nope\")")],
    [n |-> "dim_index_int", y |-> Line("dimensionIndex(f, 0)")], [n |-> "dim_count", y |-> Line("dimensionCount(f)")], [n |-> "dim_count_two", y |-> Line("dimensionCount(f, f)")],
    [n |-> "member", y |-> Line("f.q")], [n |-> "member2", y |-> Line("f.q.r")], [n |-> "member_g", y |-> Line("f.g.q")],
    [n |-> "cast_int", y |-> Line("f as int")], [n |-> "cast_string", y |-> Line("f as string")], [n |-> "cast_record", y |-> Line("f as Rec1")],
    [n |-> "cast_own", y |-> Line("f as Al1")], [n |-> "cast_enum", y |-> Line("f as En1")], [n |-> "cast_vector", y |-> Line("f as int*")],
    [n |-> "unknown_function", y |-> Line("other(f)")], [n |-> "call_field", y |-> Line("f(1)")], [n |-> "self_cycle", y |-> Line("c + f")],
    [n |-> "switch_int", y |-> Sw("f", Case("int", "1") \o Case("_", "0"))],
    [n |-> "switch_bind", y |-> Sw("f", Case("int i", "i") \o Case("string s", "size(s)"))],
    [n |-> "switch_bind_all", y |-> Sw("f", Case("int i", "i + k") \o Case("string s", "k") \o Case("null", "0"))],
    [n |-> "switch_record", y |-> Sw("f", Case("Rec1 r", "r.q") \o Case("_", "0"))],
    [n |-> "switch_discard_only", y |-> Sw("f", Case("_", "f"))],
    [n |-> "switch_dup", y |-> Sw("f", Case("int", "1") \o Case("int", "2") \o Case("_", "0"))],
    [n |-> "switch_unknown", y |-> Sw("f", Case("NoSuch", "1") \o Case("_", "0"))],
    [n |-> "switch_item", y |-> Sw("f[0]", Case("int", "1") \o Case("_", "0"))],
    [n |-> "switch_mixed_results", y |-> Sw("f", Case("int", "1") \o Case("_", "\"s\""))],
    [n |-> "switch_empty", y |-> "    c:" \o NL \o "      !switch f: {}" \o NL],
    [n |-> "switch_null_case", y |-> Sw("f", Case("null", "0") \o Case("_", "1"))] }

ExprCases ==
  { [family |-> "expr", what |-> e.n, site |-> t.n, rule |-> "", must_reject |-> FALSE, must_accept |-> FALSE,
     text |-> Support \o "HX<T>: !record" \o NL \o "  fields:" \o NL \o "    t: T" \o NL \o "    k: int" \o NL \o "    f: " \o t.y \o NL \o
              "  computedFields:" \o NL \o e.y]
    : e \in Exprs, t \in FieldTypes }

\* controls that must be accepted (vacuity guard: the scaffolding itself is valid)
Controls ==
  { [family |-> "control", what |-> t.n, site |-> s.n, rule |-> "", must_reject |-> FALSE, must_accept |-> TRUE,
     text |-> Support \o t.defs \o s.pre \o Splice(t, s) \o s.post]
    : t \in { x \in Types : x.n \in {"int", "record", "alias"} }, s \in { x \in Sites : x.n \notin TotalityOnlySites \cup {"switch_pattern"} } }

AllCases == { c \in TypeCases : \E t \in Types, s \in Sites : t.n = c.what /\ s.n = c.site /\ Applicable(t, s) }
            \cup ExprCases \cup Controls

\* the allowed terminal observations of the front end (as in Corrupt.tla), and what C09 adds for a case that breaks a rule
Outcome(o) == \/ o.exit = 0
              \/ (o.exit = 1 /\ o.errors >= 1 /\ o.names_file)
MustReject(c, o) == c.must_reject => o.exit = 1

ASSUME PrintT(<<"cases", Cardinality(AllCases), "types", Cardinality(Types), "sites", Cardinality(Sites), "exprs", Cardinality(Exprs), "field types", Cardinality(FieldTypes)>>)
ASSUME ndJsonSerialize(IOEnv.VERIF_OUT, SetToSeq(AllCases))
=============================================================================
