------------------------------ MODULE Spelling ------------------------------
(***************************************************************************)
(* Alternative spellings of one model (property C13).                      *)
(*                                                                         *)
(* A spelling is a vector of choices made by the concretiser:              *)
(*   shorthand   expanded !vector/!array/!map nodes  vs  string syntax     *)
(*   prim_alias  canonical primitive names (int32)   vs  aliases (int)     *)
(*   optional    [null, T]                           vs  T?                *)
(*   comments    none  vs  detached (non-documentation) comments           *)
(*   blanks      none  vs  extra blank lines / trailing whitespace         *)
(*   order       definitions as generated | reversed | rotated             *)
(*   files       all definitions in one file | split over 2 | 3 files      *)
(*   generics    records as plain records | as instances of a local        *)
(*               generic record | of a generic record of an imported       *)
(*               package (same fields: the same thing on the wire)         *)
(* The first five are pure syntax: the generated code must be              *)
(* byte-identical to that of the canonical spelling.  order and files are  *)
(* layout: embedded schemas and wire behaviour must be identical.  Every   *)
(* spelling must get the same accept / reject verdict as the canonical     *)
(* one.  TLC explores all spellings reachable from the canonical one by at *)
(* most MaxFlips single-choice flips.                                      *)
(***************************************************************************)
EXTENDS Naturals, Sequences, FiniteSets, TLC, Json

CONSTANT MaxFlips

\*   docs        one YAML document per file | the definitions of a file spread over several documents (`---`), with or without
\*               an explicit document end marker (`...`): a model file is a YAML stream, every document of which holds definitions
Choices == [shorthand : BOOLEAN, prim_alias : BOOLEAN, optional : {"union", "question"}, comments : BOOLEAN, blanks : BOOLEAN,
            order : {"asis", "reversed", "rotated"}, files : {1, 2, 3}, generics : {"none", "local", "imported"},
            docs : {"one", "many", "many_with_end_markers"}]
Canonical == [shorthand |-> FALSE, prim_alias |-> FALSE, optional |-> "union", comments |-> FALSE, blanks |-> FALSE,
              order |-> "asis", files |-> 1, generics |-> "none", docs |-> "one"]

VARIABLES sp, flips
vars == <<sp, flips>>
Init == sp = Canonical /\ flips = 0

Differs(a, b) == Cardinality({ f \in DOMAIN a : a[f] # b[f] })
Flip == /\ flips < MaxFlips
        /\ \E s \in Choices : Differs(s, sp) = 1 /\ sp' = s
        /\ flips' = flips + 1
Next == Flip
Spec == Init /\ [][Next]_vars

LayoutChanged == sp.order # Canonical.order \/ sp.files # Canonical.files \/ sp.docs # Canonical.docs
\* what must hold between the spelling and the canonical spelling
Relation == IF sp.generics # "none" THEN "same_verdict_same_wire"
            ELSE IF LayoutChanged THEN "same_verdict_same_schema_same_wire" ELSE "byte_identical_output"
SpView == sp
Export == PrintT(<<"CASE", ToJson([spelling |-> sp, relation |-> Relation])>>)
=============================================================================
