CONSTANTS MaxFlips = 2
INIT Init
NEXT Next
INVARIANT Export
VIEW SpView
CHECK_DEADLOCK FALSE
