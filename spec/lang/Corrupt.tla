------------------------------- MODULE Corrupt -------------------------------
(***************************************************************************)
(* Systematic structural corruption of YAML documents (property C10).      *)
(*                                                                         *)
(* A document is a tree: scalar [k, v, tag] | sequence [k, items, tag] |   *)
(* mapping [k, entries (sequence of <<key, node>>), tag].  The base        *)
(* documents (valid model files and a manifest) are read from              *)
(* IOEnv.VERIF_IN (NDJSON, one tree per line); for every node of every     *)
(* tree and every corruption kind applicable to that node, the corrupted   *)
(* tree is written to IOEnv.VERIF_OUT.  The harness renders each tree as   *)
(* YAML text and runs the real front end on it.                            *)
(*                                                                         *)
(* Required outcome for *every* input (Outcome below): the command         *)
(* terminates with exit status 0, or with exit status 1 after printing at  *)
(* least one error that names a file.                                      *)
(***************************************************************************)
EXTENDS Naturals, Sequences, FiniteSets, TLC, Json, IOUtils, SequencesExt

Docs == ndJsonDeserialize(IOEnv.VERIF_IN)

Scalar(v) == [k |-> "scalar", v |-> v, tag |-> ""]
Tags == {"!record", "!enum", "!flags", "!protocol", "!vector", "!array", "!map", "!union", "!generic", "!stream", "!bogus", "!!str", "!!int"}
WeirdScalars == {"", "~", "null", "-1", "0", "99999999999999999999999", "1e999", "int[", "G<", "->", "a->b->c", "int**?*", "?", "[,]",
                 "int[x:]", "Foo<int,>", "string->", "(int", "x as", "1 +", "size(", "a.b.", "a[", "!stream", "true", "{", "[", "*", "&a", "- -",
                 ".", "..", "v[]", "arr[]", "m[]", "v[0][0]", "a as int[0]", "a as NoSuch", "v[99]", "arr[x: 5, y: 0]", "size(v, 1)",
                 "dimensionIndex(arr, 'nope')", "a ** a ** a", "-a", "1 / 0", "u", "sw", "n", "Rec", "P", "Color.red", "T1"}

\* all paths (sequences of child indices) of a tree
RECURSIVE Paths(_)
Paths(n) ==
  {<<>>} \cup
  (IF n.k = "seq" THEN UNION { { <<i>> \o p : p \in Paths(n.items[i]) } : i \in 1..Len(n.items) }
   ELSE IF n.k = "map" THEN UNION { { <<i>> \o p : p \in Paths(n.entries[i][2]) } : i \in 1..Len(n.entries) }
   ELSE {})

RECURSIVE At(_, _)
At(n, p) == IF p = <<>> THEN n
            ELSE IF n.k = "seq" THEN At(n.items[p[1]], Tail(p)) ELSE At(n.entries[p[1]][2], Tail(p))

RECURSIVE Replace(_, _, _)
Replace(n, p, m) ==
  IF p = <<>> THEN m
  ELSE IF n.k = "seq" THEN [n EXCEPT !.items[p[1]] = Replace(@, Tail(p), m)]
  ELSE [n EXCEPT !.entries[p[1]] = <<@[1], Replace(@[2], Tail(p), m)>>]

DropAt(s, i) == SubSeq(s, 1, i - 1) \o SubSeq(s, i + 1, Len(s))

RECURSIVE Deep(_)
Deep(d) == IF d = 0 THEN Scalar("int") ELSE [k |-> "seq", items |-> <<Deep(d - 1)>>, tag |-> ""]

\* corruptions of node x: set of [kind, node]
Corruptions(x) ==
  { [kind |-> "to_scalar", node |-> Scalar("x")], [kind |-> "to_null", node |-> Scalar("~")],
    [kind |-> "to_empty_seq", node |-> [k |-> "seq", items |-> <<>>, tag |-> x.tag]],
    [kind |-> "to_one_element_seq", node |-> [k |-> "seq", items |-> <<Scalar("a")>>, tag |-> x.tag]],
    [kind |-> "to_three_element_seq", node |-> [k |-> "seq", items |-> <<Scalar("a"), Scalar("int"), Scalar("b")>>, tag |-> x.tag]],
    [kind |-> "to_empty_map", node |-> [k |-> "map", entries |-> <<>>, tag |-> x.tag]],
    [kind |-> "to_map_with_unknown_key", node |-> [k |-> "map", entries |-> << <<"bogusKey", Scalar("1")>> >>, tag |-> x.tag]],
    [kind |-> "deep_nesting", node |-> Deep(40)] }
  \cup { [kind |-> "tag_" \o t, node |-> [x EXCEPT !.tag = t]] : t \in Tags \ {x.tag} }
  \cup (IF x.tag # "" THEN { [kind |-> "drop_tag", node |-> [x EXCEPT !.tag = ""]] } ELSE {})
  \cup (IF x.k = "scalar" THEN { [kind |-> "scalar_" \o w, node |-> [x EXCEPT !.v = w]] : w \in WeirdScalars } ELSE {})
  \cup (IF x.k = "map"
        THEN { [kind |-> "delete_entry", node |-> [x EXCEPT !.entries = DropAt(@, i)]] : i \in 1..Len(x.entries) }
             \cup { [kind |-> "duplicate_entry", node |-> [x EXCEPT !.entries = @ \o <<@[i]>>]] : i \in 1..Len(x.entries) }
             \cup { [kind |-> "add_unknown_key", node |-> [x EXCEPT !.entries = Append(@, <<"bogusKey", Scalar("1")>>)]],
                    [kind |-> "null_key_value", node |-> [x EXCEPT !.entries = Append(@, <<"extra", Scalar("~")>>)]] }
        ELSE {})
  \cup (IF x.k = "seq"
        THEN { [kind |-> "delete_item", node |-> [x EXCEPT !.items = DropAt(@, i)]] : i \in 1..Len(x.items) }
             \cup { [kind |-> "append_null_item", node |-> [x EXCEPT !.items = Append(@, Scalar("~"))]],
                    [kind |-> "append_map_item", node |-> [x EXCEPT !.items = Append(@, [k |-> "map", entries |-> << <<"a", Scalar("b")>> >>, tag |-> ""])]] }
        ELSE {})

Cases == UNION { UNION { { [doc |-> d, path |-> p, kind |-> c.kind, tree |-> Replace(Docs[d].tree, p, c.node)]
                           : c \in Corruptions(At(Docs[d].tree, p)) }
                         : p \in Paths(Docs[d].tree) }
                 : d \in 1..Len(Docs) }

\* the allowed terminal observations of the front end
Outcome(o) == \/ o.exit = 0
              \/ (o.exit = 1 /\ o.errors >= 1 /\ o.names_file)

ASSUME PrintT(<<"cases", Cardinality(Cases)>>)
ASSUME ndJsonSerialize(IOEnv.VERIF_OUT, SetToSeq(Cases))
=============================================================================
