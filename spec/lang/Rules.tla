-------------------------------- MODULE Rules --------------------------------
(***************************************************************************)
(* The language rules and the places where a violation can sit (C09).      *)
(*                                                                         *)
(* A package closure is modelled as a set of *slots*: (package location,   *)
(* type position) pairs that hold a type expression, plus one definition   *)
(* slot per package location.  The base closure holds a valid fragment in  *)
(* every slot.  Inject(rule, loc, pos) puts a fragment violating exactly   *)
(* `rule` into one slot.  Valid is the conjunction over all slots and      *)
(* rules; the tool must accept a closure iff it is Valid, and on           *)
(* rejection name the file of a slot that holds a violation.               *)
(* The concrete YAML of each (rule, position) lives in the harness table   *)
(* (checks/c09.py); TLC enumerates the combinations (one and two           *)
(* simultaneous violations), guards against vacuity and fixes the          *)
(* required verdict and file.                                              *)
(***************************************************************************)
EXTENDS Naturals, Sequences, FiniteSets, TLC, Json

\* rules violated inside a type expression
TypeRules == {"unknown_type", "generic_too_many_args", "generic_missing_args", "stream_outside_step", "map_key_record",
              "map_key_vector", "union_nested", "union_null_not_first", "union_duplicate_case", "union_only_null",
              "union_empty", "union_bad_tag", "array_partial_lengths", "array_duplicate_dim", "array_bad_dim_name",
              "reference_to_protocol"}
\* rules violated by a definition as a whole
DefRules == {"duplicate_type_name", "type_name_casing", "field_name_casing", "duplicate_field", "step_name_casing",
             "duplicate_step", "enum_symbol_casing", "enum_duplicate_symbol", "enum_duplicate_value", "enum_value_out_of_range",
             "enum_base_not_integer", "flags_value_out_of_range", "cyclic_reference", "cyclic_alias", "cyclic_via_generic_argument",
             "cyclic_via_imported_generic", "unused_type_parameter",
             "type_parameter_casing", "computed_unknown_name", "computed_type_error", "computed_duplicate_name", "generic_enum",
             "generic_protocol", "reserved_type_name",
             \* names that differ only in the case of letters inside a word become one identifier in generated code
             \* a type parameter is in scope only inside the definition that declares it
             "type_parameter_out_of_scope", "type_parameter_out_of_scope_nested", "type_parameter_out_of_scope_plain",
             "field_names_not_distinct", "computed_field_not_distinct", "step_names_not_distinct", "enum_symbols_not_distinct"}
Rules == TypeRules \cup DefRules

Locations == {"main", "main_second_file", "import1", "import2", "version", "version_import"}
TypePositions == {"field", "generic_argument", "vector_item", "map_value", "union_case", "protocol_step", "stream_item", "alias",
                  "array_item", "optional"}

\* where a type-rule violation can be expressed at all
Applicable(rule, pos) ==
  /\ (rule = "stream_outside_step" => pos \notin {"protocol_step"})                      \* that *is* the allowed place
  /\ (rule \in {"union_nested", "union_null_not_first", "union_duplicate_case", "union_only_null", "union_empty", "union_bad_tag"}
        => pos \notin {"union_case", "optional"})                                       \* a union directly inside a union is another rule
  /\ (rule = "reference_to_protocol" => TRUE)

FileOf(loc) == CASE loc = "main" -> "main/model.yml" [] loc = "main_second_file" -> "main/extra.yml"
                 [] loc = "import1" -> "imp1/model.yml" [] loc = "import2" -> "imp2/model.yml"
                 [] loc = "version" -> "v0/model.yml" [] loc = "version_import" -> "v0imp/model.yml"

Violations1 == { [rule |-> r, loc |-> l, pos |-> p] : r \in TypeRules, l \in Locations, p \in TypePositions } \cup
               { [rule |-> r, loc |-> l, pos |-> "definition"] : r \in DefRules, l \in Locations }
\* a cycle through the argument of a generic type defined in an imported package needs a package that imports something
Possible == { v \in Violations1 : /\ (v.pos = "definition" \/ Applicable(v.rule, v.pos))
                                  /\ (v.rule = "cyclic_via_imported_generic" => v.loc \notin {"import2", "main_second_file"}) }

VARIABLES injected      \* set of violations present in the closure
vars == <<injected>>
MaxViolations == 2

Init == injected = {}
Inject == /\ Cardinality(injected) < MaxViolations
          /\ \E v \in Possible : v \notin injected
                /\ (\A w \in injected : ~(w.loc = v.loc /\ w.pos = v.pos))      \* one fragment per slot
                /\ (Cardinality(injected) = 1 => v.rule \in {"unknown_type", "duplicate_field", "enum_duplicate_value", "union_null_not_first"})
                /\ injected' = injected \cup {v}
Next == Inject
Spec == Init /\ [][Next]_vars

Valid == injected = {}
RequiredVerdict == IF Valid THEN "accept" ELSE "reject"
\* on rejection at least one reported error names the file of a slot holding a violation
AdmissibleFiles == { FileOf(v.loc) : v \in injected }

VacuityGuard == (injected # {}) => ~Valid
Export == PrintT(<<"CASE", ToJson([violations |-> injected, required |-> RequiredVerdict, files |-> AdmissibleFiles])>>)
=============================================================================
