------------------------------ MODULE EvoData ------------------------------
(***************************************************************************)
(* What an accepted schema change means for DATA (property C05).           *)
(*                                                                         *)
(* docs/cpp/evolution.md: a reader generated from the current model reads  *)
(* a stream written under a listed previous version and delivers, for      *)
(* every value, the conversion of the old value (Up); a writer asked to    *)
(* target a previous version writes the conversion of the new value        *)
(* (Down).  Unchanged parts are exact, removed parts are dropped, added    *)
(* parts take the zero value, convertible parts are converted, and some    *)
(* conversions fail at run time ("ERROR").  Where the document only says   *)
(* "may" (rounding, numeric overflow, enum values unknown to the other     *)
(* side) the result is "ANY": nothing is required but a clean outcome.     *)
(*                                                                         *)
(* Every value is a TLA+ record (TLC refuses to compare a string with a    *)
(* record): leaves [leaf |-> "i:7"] ("s:12", "f:1.5", "null" ... tokens    *)
(* the harness maps to JSON), unions [tag, v], vectors and streams         *)
(* [vec |-> <<...>>], yardl records plain records.  Each edit is compared  *)
(* DIRECTLY between the current model and each listed version - also when  *)
(* several versions are listed (chains): cur vs v0 sees every edit, cur vs *)
(* v1 only the later ones.                                                 *)
(***************************************************************************)
EXTENDS Naturals, Sequences, FiniteSets, TLC, Json, IOUtils, SequencesExt

\* results of a conversion: [s |-> "ok", v |-> value] | [s |-> "err", ...] | [s |-> "any", ...]
L(t) == [leaf |-> t]
NULL == L("null")
V(seq) == [vec |-> seq]
U(tag, v) == [tag |-> tag, v |-> v]
Ok(v) == [s |-> "ok", v |-> v]
ERROR == [s |-> "err", v |-> V(<<>>)]
ANY == [s |-> "any", v |-> V(<<>>)]
\* "yardl defaults to the zero value ... / may emit a runtime error": either the zero value z or an error
ZeroOrErr(z) == [s |-> "zeroerr", v |-> z]

\* ---- type-level edits: old/new value samples and conversions of a single value
TypeEdits == {"int_to_long", "int_to_float", "int_to_string", "float_to_double", "string_to_int", "make_optional", "optional_to_union",
              "add_union_case", "remove_union_case", "uint_to_int", "ulong_to_long"}
Ls(S) == { L(t) : t \in S }

OldVals(e) ==
  CASE e \in {"int_to_long", "int_to_float", "int_to_string", "make_optional"} -> Ls({"i:0", "i:7", "i:-3", "i:max"})
    [] e = "float_to_double" -> Ls({"f:0", "f:1.5", "f:-2"})
    [] e = "uint_to_int" -> Ls({"i:0", "i:7", "u:3e9"})
    [] e = "ulong_to_long" -> Ls({"i:0", "i:7", "u:2^63"})
    [] e = "string_to_int" -> Ls({"s:12", "s:-3", "s:x", "s:"})
    [] e = "optional_to_union" -> Ls({"null", "i:7"})
    [] e = "add_union_case" -> {U("int32", L("i:7")), U("string", L("s:x"))}
    [] e = "remove_union_case" -> {U("int32", L("i:7")), U("string", L("s:x")), U("float32", L("f:1.5"))}

NewVals(e) ==
  CASE e = "int_to_long" -> Ls({"i:7", "i:-3", "l:big"})
    [] e = "int_to_float" -> Ls({"f:0", "f:-2", "f:1.5"})
    [] e = "int_to_string" -> Ls({"s:12", "s:-3", "s:x", "s:"})
    [] e = "float_to_double" -> Ls({"f:0", "f:1.5", "f:-2"})
    [] e = "string_to_int" -> Ls({"i:0", "i:7", "i:-3"})
    [] e \in {"uint_to_int", "ulong_to_long"} -> Ls({"i:0", "i:7", "i:-3"})
    [] e = "make_optional" -> Ls({"null", "i:7"})
    [] e = "optional_to_union" -> {NULL, U("int32", L("i:7")), U("string", L("s:x"))}
    [] e = "add_union_case" -> {U("int32", L("i:7")), U("string", L("s:x")), U("float32", L("f:1.5"))}
    [] e = "remove_union_case" -> {U("int32", L("i:7")), U("string", L("s:x"))}

Tab(t, pairs, other) == IF t.leaf \in DOMAIN pairs THEN Ok(L(pairs[t.leaf])) ELSE other
IntOfString(x) == Tab(x, ("s:12" :> "i:12") @@ ("s:-3" :> "i:-3") @@ ("s:0" :> "i:0") @@ ("s:7" :> "i:7") @@ ("s:2147483647" :> "i:max"), ERROR)
StringOfInt(x) == Tab(x, ("i:0" :> "s:0") @@ ("i:7" :> "s:7") @@ ("i:-3" :> "s:-3") @@ ("i:12" :> "s:12") @@ ("i:max" :> "s:2147483647"), ANY)
FloatOfInt(x) == Tab(x, ("i:0" :> "f:0") @@ ("i:7" :> "f:7") @@ ("i:-3" :> "f:-3"), ANY)       \* i:max is not a float32
IntOfFloat(x) == Tab(x, ("f:0" :> "i:0") @@ ("f:-2" :> "i:-2"), ANY)                           \* 1.5 "may round"

Up(e, v) ==
  CASE e = "int_to_long" -> Ok(v)
    [] e = "int_to_float" -> FloatOfInt(v)
    [] e = "int_to_string" -> StringOfInt(v)
    [] e = "float_to_double" -> Ok(v)
    [] e \in {"uint_to_int", "ulong_to_long"} -> IF v \in Ls({"u:3e9", "u:2^63"}) THEN ZeroOrErr(L("i:0")) ELSE Ok(v)   \* above the signed maximum
    [] e = "string_to_int" -> IntOfString(v)
    [] e = "make_optional" -> Ok(v)
    [] e = "optional_to_union" -> IF v = NULL THEN Ok(v) ELSE Ok(U("int32", v))
    [] e = "add_union_case" -> Ok(v)
    [] e = "remove_union_case" -> IF v.tag = "float32" THEN ERROR ELSE Ok(v)

Down(e, v) ==
  CASE e = "int_to_long" -> IF v = L("l:big") THEN ZeroOrErr(L("i:0")) ELSE Ok(v)   \* overflow: an error or the zero value, never a wrapped number
    [] e \in {"uint_to_int", "ulong_to_long"} -> IF v = L("i:-3") THEN ZeroOrErr(L("i:0")) ELSE Ok(v)
    [] e = "int_to_float" -> IntOfFloat(v)
    [] e = "int_to_string" -> IntOfString(v)
    [] e = "float_to_double" -> Ok(v)
    [] e = "string_to_int" -> StringOfInt(v)
    [] e = "make_optional" -> IF v = NULL THEN Ok(L("i:0")) ELSE Ok(v)     \* the zero value is written for an absent one
    [] e = "optional_to_union" -> IF v = NULL THEN Ok(v) ELSE IF v.tag = "int32" THEN Ok(v.v) ELSE ZeroOrErr(NULL)
    [] e = "add_union_case" -> IF v.tag = "float32" THEN ERROR ELSE Ok(v)
    [] e = "remove_union_case" -> Ok(v)

\* ---- positions: how a conversion of the probe type lifts to the value of the protocol step
Positions == {"step", "stream_item", "field", "alias", "vector_item", "optional", "vector_of_optional", "stream_of_optional", "optional_vector",
              "field_of_nested_record", "vector_of_vector"}
\* an optional or union cannot sit directly under an optional ("unions may not immediately contain other unions")
\* (yardl also refuses a union or optional as the item type of a vector that sits under an optional)
Applicable(e, p) == e \in {"make_optional", "optional_to_union", "add_union_case", "remove_union_case"} =>
                       p \notin {"optional", "vector_of_optional", "stream_of_optional", "optional_vector"}

MapSeq(F(_), s) == [i \in 1..Len(s) |-> F(s[i])]
Bad(r) == { i \in 1..Len(r) : r[i].s # "ok" }
FirstBad(r) == CHOOSE i \in Bad(r) : \A j \in Bad(r) : i <= j
Vals(r) == [i \in 1..Len(r) |-> r[i].v]
\* a vector: a failing element fails the whole step; a stream: the items before the failing one are still delivered
VecLift(F(_), x) == LET r == MapSeq(F, x.vec) IN
                    IF \E i \in 1..Len(r) : r[i].s = "err" THEN ERROR
                    ELSE IF \E i \in 1..Len(r) : r[i].s = "any" THEN ANY
                    ELSE IF Bad(r) # {} THEN ZeroOrErr(V(Vals(r))) ELSE Ok(V(Vals(r)))
StreamLift(F(_), x) == LET r == MapSeq(F, x.vec) IN
                       IF Bad(r) = {} THEN Ok(V(Vals(r)))
                       ELSE IF r[FirstBad(r)].s = "zeroerr" THEN ANY
                       ELSE [s |-> r[FirstBad(r)].s, v |-> V(SubSeq(Vals(r), 1, FirstBad(r) - 1))]
OptLift(F(_), v) == IF v = NULL THEN Ok(v) ELSE F(v)
RecLift(F(_), r) == LET x == F(r.p) IN IF x.s \in {"ok", "zeroerr"} THEN [s |-> x.s, v |-> [r EXCEPT !.p = x.v]] ELSE [x EXCEPT !.v = V(<<>>)]

Lift(p, F(_), v) ==
  CASE p \in {"step", "alias"} -> F(v)
    [] p = "stream_item" -> StreamLift(F, v)
    [] p = "field" -> RecLift(F, v)
    [] p = "vector_item" -> VecLift(F, v)
    [] p = "optional" -> OptLift(F, v)
    [] p = "vector_of_optional" -> LET G(x) == OptLift(F, x) IN VecLift(G, v)
    [] p = "stream_of_optional" -> LET G(x) == OptLift(F, x) IN StreamLift(G, v)
    [] p = "optional_vector" -> LET G(x) == VecLift(F, x) IN OptLift(G, v)
    [] p = "vector_of_vector" -> LET G(x) == VecLift(F, x) IN VecLift(G, v)
    [] p = "field_of_nested_record" -> LET y == RecLift(F, v.o) IN IF y.s \in {"ok", "zeroerr"} THEN [s |-> y.s, v |-> [v EXCEPT !.o = y.v]] ELSE y

\* step values built around leaf samples (two samples a, b where the position holds several)
Build(p, a, b) ==
  CASE p \in {"step", "alias", "optional"} -> a
    [] p = "stream_item" -> V(<<a, b, a>>)
    [] p = "field" -> [k |-> L("i:1"), p |-> a]
    [] p = "vector_item" -> V(<<a, b>>)
    [] p = "vector_of_optional" -> V(<<a, NULL, b>>)
    [] p = "stream_of_optional" -> V(<<NULL, a, b>>)
    [] p = "optional_vector" -> V(<<a, b>>)
    [] p = "vector_of_vector" -> V(<<V(<<a>>), V(<<>>), V(<<b, a, b>>)>>)
    [] p = "field_of_nested_record" -> [o |-> [k |-> L("i:1"), p |-> a], z |-> L("s:x")]
Extra(p) == IF p \in {"optional", "optional_vector"} THEN {NULL} ELSE IF p \in {"stream_item", "vector_item", "stream_of_optional"} THEN {V(<<>>)} ELSE {}

StepVals(p, vals) == { Build(p, a, b) : a \in vals, b \in vals } \cup Extra(p)

TypeCases == { [edit |-> x[1], pos |-> x[2],
                up |-> { [in |-> v, out |-> LET F(y) == Up(x[1], y) IN Lift(x[2], F, v)] : v \in StepVals(x[2], OldVals(x[1])) },
                down |-> { [in |-> v, out |-> LET F(y) == Down(x[1], y) IN Lift(x[2], F, v)] : v \in StepVals(x[2], NewVals(x[1])) }]
               : x \in { y \in TypeEdits \X Positions : Applicable(y[1], y[2]) } }

\* ---- record edits: fields are matched by name; a field the other side lacks is dropped, a field only this side has takes its zero value
Fld(n, zero, sample) == [n |-> n, zero |-> L(zero), sample |-> L(sample)]
FA == Fld("a", "i:0", "i:5")
FB == Fld("b", "s:", "s:hello")
FC == Fld("c", "null", "f:1.5")
FD == Fld("d", "i:0", "l:9")
FDS == Fld("d", "s:", "s:dd")
FDO == Fld("d", "null", "s:dd")
FZ == Fld("z", "f:0", "f:2.5")
PX == Fld("x", "f:0", "f:1.5")
PY == Fld("y", "f:0", "f:2.5")
PW == Fld("w", "f:0", "f:3.5")
RecordEdits == [
  identity |-> <<<<FA, FB, FC>>, <<FA, FB, FC>>>>,
  add_optional_field |-> <<<<FA, FB, FC>>, <<FA, FB, FC, FDO>>>>,
  remove_optional_field |-> <<<<FA, FB, FC>>, <<FA, FB>>>>,
  reorder_fields |-> <<<<FA, FB, FC>>, <<FB, FC, FA>>>>,
  add_required_field |-> <<<<FA, FB, FC>>, <<FA, FB, FC, FDS>>>>,
  remove_required_field |-> <<<<FA, FB, FC>>, <<FA, FC>>>>,
  remove_first_required_field |-> <<<<FA, FB, FC, FD>>, <<FB, FC, FD>>>>,
  remove_last_required_field |-> <<<<FA, FB, FC, FD>>, <<FA, FB, FC>>>>,
  remove_last_two_fields |-> <<<<FA, FB, FC, FD>>, <<FA, FB>>>>,
  add_first_required_field |-> <<<<FA, FB, FC, FD>>, <<FZ, FA, FB, FC, FD>>>>,
  \* the record is renamed and the old name kept as an alias ("Example: Renaming a Record"): nothing changes for the data
  rename_with_alias |-> <<<<FA, FB, FC>>, <<FA, FB, FC>>>>,
  \* records of fixed-width fields only ("plain old data"): the runtimes copy vectors, arrays and stream batches of such records
  \* as raw memory, which is right only when the record has not changed between the versions
  pod_reorder_fields |-> <<<<PX, PY>>, <<PY, PX>>>>,
  pod_add_required_field |-> <<<<PX, PY>>, <<PX, PY, PW>>>>,
  pod_remove_required_field |-> <<<<PX, PY, PW>>, <<PX, PW>>>> ]

Names(fs) == { fs[i].n : i \in 1..Len(fs) }
ByName(fs, n) == fs[CHOOSE i \in 1..Len(fs) : fs[i].n = n]
Sample(fs) == [n \in Names(fs) |-> ByName(fs, n).sample]
Zeroed(fs) == [n \in Names(fs) |-> ByName(fs, n).zero]
ConvRec(from, to, v) == [n \in Names(to) |-> IF n \in Names(from) THEN v[n] ELSE ByName(to, n).zero]

\* the record is used as the step type, as a case of a union ([Data, string] / [string, Data]: the other cases are untouched, the
\* change sits behind a name), as item of a vector / stream, or under an optional
RecPositions == {"step", "union_first", "union_last", "vector_item", "stream_item", "optional"}
RecPosBase(p) == IF p \in {"union_first", "union_last"} THEN "step" ELSE p
RecCases == { [edit |-> x[1], pos |-> x[2], old |-> RecordEdits[x[1]][1], new |-> RecordEdits[x[1]][2],
               up |-> { [in |-> v, out |-> LET F(y) == Ok(ConvRec(RecordEdits[x[1]][1], RecordEdits[x[1]][2], y)) IN Lift(RecPosBase(x[2]), F, v)]
                        : v \in StepVals(RecPosBase(x[2]), {Sample(RecordEdits[x[1]][1]), Zeroed(RecordEdits[x[1]][1])}) },
               down |-> { [in |-> v, out |-> LET F(y) == Ok(ConvRec(RecordEdits[x[1]][2], RecordEdits[x[1]][1], y)) IN Lift(RecPosBase(x[2]), F, v)]
                          : v \in StepVals(RecPosBase(x[2]), {Sample(RecordEdits[x[1]][2]), Zeroed(RecordEdits[x[1]][2])}) }]
              : x \in (DOMAIN RecordEdits) \X RecPositions }

\* conversion is the identity where nothing changed, and dropping-then-defaulting loses exactly the dropped fields
ASSUME \A e \in DOMAIN RecordEdits : LET o == RecordEdits[e][1] n == RecordEdits[e][2] IN
          \A v \in {Sample(o), Zeroed(o)} : \A f \in Names(o) \cap Names(n) : ConvRec(n, o, ConvRec(o, n, v))[f] = v[f]
ASSUME \A e \in TypeEdits : \A v \in OldVals(e) : Up(e, v).s = "ok" => (Down(e, Up(e, v).v).s = "any" \/ Down(e, Up(e, v).v) = Ok(v))

\* ---- enum values added: old symbols mean the same in both directions; a new symbol written for the old version is unknown there
EnumCases == { [edit |-> "enum_add_value", pos |-> p,
                up |-> { [in |-> v, out |-> LET F(y) == Ok(y) IN Lift(p, F, v)] : v \in StepVals(p, Ls({"e:red", "e:green"})) },
                down |-> { [in |-> v, out |-> LET F(y) == IF y = L("e:black") THEN ANY ELSE Ok(y) IN Lift(p, F, v)]
                           : v \in StepVals(p, Ls({"e:red", "e:black"})) }]
               : p \in {"step", "stream_item", "field", "vector_item", "optional"} }

\* ---- steps appended to the protocol: reading an old stream they are empty / null; writing for the old version they are dropped
StepEdits == [add_stream_step |-> [decl |-> "stream_int", absent |-> V(<<>>), sample |-> V(<<L("i:1"), L("i:2")>>)],
              add_vector_step |-> [decl |-> "vector_int", absent |-> V(<<>>), sample |-> V(<<L("i:1"), L("i:2")>>)],
              add_optional_step |-> [decl |-> "optional_string", absent |-> NULL, sample |-> L("s:x")]]

ASSUME PrintT(<<"type cases", Cardinality(TypeCases), "record cases", Cardinality(RecCases)>>)
ASSUME ndJsonSerialize(IOEnv.VERIF_OUT_TYPES, SetToSeq({ [c EXCEPT !.up = SetToSeq(c.up), !.down = SetToSeq(c.down)] : c \in TypeCases }))
ASSUME ndJsonSerialize(IOEnv.VERIF_OUT_RECS, SetToSeq({ [c EXCEPT !.up = SetToSeq(c.up), !.down = SetToSeq(c.down)] : c \in RecCases }))
ASSUME ndJsonSerialize(IOEnv.VERIF_OUT_STEPS, <<StepEdits>>)
ASSUME ndJsonSerialize(IOEnv.VERIF_OUT_ENUMS, SetToSeq({ [c EXCEPT !.up = SetToSeq(c.up), !.down = SetToSeq(c.down)] : c \in EnumCases }))
=============================================================================
