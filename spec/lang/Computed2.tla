------------------------------ MODULE Computed2 ------------------------------
(***************************************************************************)
(* Computed fields over containers, records, unions and optionals          *)
(* (property C19, second family; arithmetic over primitives is in          *)
(* Computed.tla): size(), dimension functions, subscripts (positional and  *)
(* by dimension name), member access, `as` conversions and   *)
(* !switch over optionals and unions with type patterns, declaration       *)
(* patterns and the discard pattern.                                       *)
(*                                                                         *)
(* Every value is a record: [i |-> n] integers, [h |-> n] halves (n/2, so  *)
(* that 2.5 is [h |-> 5]), [s |-> "..."] strings, [null |-> TRUE],         *)
(* [vec |-> seq], [arr |-> rows, dims |-> names], [map |-> keys/values],   *)
(* [rec |-> fields], and a union value is [tag |-> type, v |-> value].     *)
(* Eval is total on the catalogue below; the harness prints the trees as   *)
(* yardl text, generates code, and compares what the generated C++ and     *)
(* Python compute for a record holding exactly these field values.         *)
(***************************************************************************)
EXTENDS Integers, Sequences, FiniteSets, TLC, Json, IOUtils, SequencesExt

I(n) == [i |-> n]
H(n) == [h |-> n]                      \* n / 2
S(x) == [s |-> x]
NULL == [null |-> TRUE]
Vec(q) == [vec |-> q]
U(tag, v) == [tag |-> tag, v |-> v]

\* the record under evaluation; the three union-ish fields take several valuations
Valuations == { [opt |-> o, un |-> u, nun |-> n] :
                  o \in {NULL, I(9)}, u \in {U("int", I(3)), U("float", H(5))}, n \in {NULL, U("int", I(3)), U("float", H(5))} }
Base == [arr |-> [arr |-> <<<<I(1), I(2), I(3)>>, <<I(4), I(5), I(6)>>>>, dims |-> <<"x", "y">>],
         vec |-> Vec(<<I(4), I(5), I(6)>>),
         vv |-> Vec(<<Vec(<<I(1)>>), Vec(<<I(2), I(3)>>)>>),
         ni |-> I(1), ns |-> S("y"),
         inner |-> [rec |-> [q |-> I(11), w |-> I(1)]],
         mp |-> [map |-> <<<<S("a"), I(1)>>, <<S("b"), I(2)>>>>],
         f |-> H(3), i |-> I(7), k |-> I(40), two |-> H(4),
         \* fixed-size and dynamic containers
         fa |-> [arr |-> <<<<I(1), I(2), I(3)>>, <<I(4), I(5), I(6)>>>>, dims |-> <<"x", "y">>],
         fv |-> Vec(<<I(7), I(8), I(9)>>),
         da |-> [arr |-> <<<<I(1), I(2)>>, <<I(3), I(4)>>>>, dims |-> <<"d0", "d1">>],
         \* a second array of the same element type whose dimensions have the same names in the other order (4 x 5), and a
         \* second name field: one expression can then look up dimensions of two different arrays by run-time names
         tr |-> [arr |-> <<<<I(1), I(2), I(3), I(4), I(5)>>, <<I(6), I(7), I(8), I(9), I(10)>>,
                            <<I(11), I(12), I(13), I(14), I(15)>>, <<I(16), I(17), I(18), I(19), I(20)>>>>, dims |-> <<"y", "x">>],
         nx |-> S("x"),
         \* one generic record with a computed field, instantiated with an integer and with a floating-point type: the type of
         \* `ga.val` / `gb.val` is that of the instantiation accessed, whichever was resolved first
         \* fields whose type is an alias of a 16-bit integer: arithmetic on them is done in (at least) 32 bits, as on the primitives
         cnt |-> I(300), sm |-> I(20000), cv |-> Vec(<<I(300), I(250)>>),
         ga |-> [rec |-> [x |-> I(11), val |-> I(11), again |-> I(11)]],
         gb |-> [rec |-> [x |-> H(5), val |-> H(5), again |-> H(5)]]]

\* ---- expression trees
Fld(n) == [k |-> "fld", n |-> n]
Lit(n) == [k |-> "lit", v |-> n]
Str(x) == [k |-> "str", s |-> x]
Mem(e, n) == [k |-> "mem", e |-> e, n |-> n]
Arg(name, e) == [name |-> name, e |-> e]
Idx(e, args) == [k |-> "idx", e |-> e, args |-> args]
Size(e) == [k |-> "size", e |-> e]
SizeDim(e, a) == [k |-> "sizedim", e |-> e, a |-> a]
DimIndex(e, a) == [k |-> "dimindex", e |-> e, a |-> a]
DimCount(e) == [k |-> "dimcount", e |-> e]
Cast(e, p) == [k |-> "cast", e |-> e, p |-> p]
Bin(op, l, r) == [k |-> "bin", op |-> op, l |-> l, r |-> r]
Case(pat, var, body) == [pat |-> pat, var |-> var, body |-> body]
Sw(target, cases) == [k |-> "switch", t |-> target, cases |-> cases]

\* ---- evaluation
AsHalves(v) == IF "i" \in DOMAIN v THEN 2 * v.i ELSE v.h
Norm(h, float) == IF float THEN H(h) ELSE I(h \div 2)
IsFloatV(v) == "h" \in DOMAIN v
Arith(op, a, b) ==
  LET fl == IsFloatV(a) \/ IsFloatV(b)  x == AsHalves(a)  y == AsHalves(b) IN
  CASE op = "+" -> Norm(x + y, fl)
    [] op = "-" -> Norm(x - y, fl)
    [] op = "*" -> Norm((x * y) \div 2, fl)          \* exact on the catalogue: one factor is always integral

DimPos(a, name) == CHOOSE j \in 1..Len(a.dims) : a.dims[j] = name
Shape(a) == <<Len(a.arr), Len(a.arr[1])>>          \* (every array of the catalogue has two dimensions)
TagOf(v) == IF "null" \in DOMAIN v THEN "null" ELSE IF "tag" \in DOMAIN v THEN v.tag ELSE "int"       \* a non-null optional int
Payload(v) == IF "tag" \in DOMAIN v THEN v.v ELSE v

RECURSIVE Eval(_, _)
Eval(e, env) ==
  CASE e.k = "fld" -> env[e.n]
    [] e.k = "lit" -> I(e.v)
    [] e.k = "str" -> S(e.s)
    [] e.k = "mem" -> Eval(e.e, env).rec[e.n]
    [] e.k = "size" -> LET v == Eval(e.e, env) IN
                       IF "vec" \in DOMAIN v THEN I(Len(v.vec)) ELSE IF "map" \in DOMAIN v THEN I(Len(v.map)) ELSE I(Shape(v)[1] * Shape(v)[2])
    [] e.k = "sizedim" -> LET v == Eval(e.e, env)  a == Eval(e.a, env) IN
                          IF "s" \in DOMAIN a THEN I(Shape(v)[DimPos(v, a.s)]) ELSE I(Shape(v)[a.i + 1])
    [] e.k = "dimindex" -> LET v == Eval(e.e, env) a == Eval(e.a, env) IN I(DimPos(v, a.s) - 1)
    [] e.k = "dimcount" -> I(Len(Eval(e.e, env).dims))
    [] e.k = "idx" -> LET v == Eval(e.e, env) IN
                      IF "vec" \in DOMAIN v THEN v.vec[Eval(e.args[1].e, env).i + 1]
                      ELSE IF "map" \in DOMAIN v
                        THEN LET key == Eval(e.args[1].e, env) IN v.map[CHOOSE j \in 1..Len(v.map) : v.map[j][1] = key][2]
                      ELSE \* two subscripts, positional or named in any order
                           LET pos(j) == IF e.args[j].name = "" THEN j ELSE DimPos(v, e.args[j].name)
                               at(d) == Eval(e.args[CHOOSE j \in 1..2 : pos(j) = d].e, env).i + 1
                           IN v.arr[at(1)][at(2)]
    [] e.k = "cast" -> LET v == Eval(e.e, env) IN
                       IF e.p \in {"float", "double"} THEN H(AsHalves(v)) ELSE I(AsHalves(v) \div 2)    \* only integral floats are cast to integers
    [] e.k = "bin" -> Arith(e.op, Eval(e.l, env), Eval(e.r, env))
    [] e.k = "switch" -> LET v == Eval(e.t, env)
                             hit(c) == c.pat = "_" \/ c.pat = TagOf(v)
                             c == e.cases[CHOOSE j \in 1..Len(e.cases) : hit(e.cases[j]) /\ \A m \in 1..(j - 1) : ~hit(e.cases[m])]
                         IN Eval(c.body, IF c.var = "" THEN env ELSE [x \in DOMAIN env \cup {c.var} |-> IF x = c.var THEN Payload(v) ELSE env[x]])

\* ---- the catalogue
Arr == Fld("arr")
VecF == Fld("vec")
DimArgs == {Lit(0), Lit(1), Str("x"), Str("y"), Fld("ni"), Fld("ns"), Bin("-", Lit(2), Lit(1)), Mem(Fld("inner"), "w")}
IndexArgs == {Lit(0), Lit(1), Fld("ni"), Mem(Fld("inner"), "w"), Bin("-", Lit(2), Lit(1))}
Plain ==
  {Size(Arr), Size(VecF), Size(Fld("vv")), Size(Fld("mp")), DimCount(Arr)}
  \cup { SizeDim(Arr, a) : a \in DimArgs }
  \cup { DimIndex(Arr, a) : a \in {Str("x"), Str("y"), Fld("ns")} }
  \cup { Idx(VecF, <<Arg("", a)>>) : a \in IndexArgs \cup {Lit(2)} }
  \cup { Idx(Arr, <<Arg("", a), Arg("", b)>>) : a \in {Lit(0), Lit(1), Fld("ni")}, b \in {Lit(0), Lit(2), Fld("ni")} }
  \cup { Idx(Arr, <<Arg("x", a), Arg("y", b)>>) : a \in {Lit(0), Lit(1)}, b \in {Lit(0), Lit(2), Fld("ni")} }
  \cup { Idx(Idx(Fld("vv"), <<Arg("", Lit(1))>>), <<Arg("", a)>>) : a \in {Lit(0), Lit(1)} }
  \cup { Idx(Fld("mp"), <<Arg("", Str(x))>>) : x \in {"a", "b"} }
  \cup { Mem(Fld("inner"), "q"), Bin("+", Mem(Fld("inner"), "q"), Idx(VecF, <<Arg("", Lit(1))>>)),
         Bin("*", SizeDim(Arr, Lit(0)), SizeDim(Arr, Lit(1))), Bin("-", Size(Arr), Size(VecF)),
         Bin("+", Idx(VecF, <<Arg("", Lit(0))>>), Idx(Arr, <<Arg("", Lit(1)), Arg("", Lit(2))>>)),
         Idx(VecF, <<Arg("", Bin("-", Size(VecF), Lit(1)))>>), Bin("*", Size(VecF), Lit(2)) }
  \cup { Cast(Fld("i"), p) : p \in {"long", "double", "float", "int"} }
  \cup { Cast(Fld("two"), p) : p \in {"int", "long", "double"} }
  \cup { Bin("+", Cast(Fld("i"), "long"), Fld("k")), Bin("*", Cast(Fld("i"), "double"), Fld("f")), Cast(Bin("+", Fld("i"), Lit(1)), "double"),
         Bin("+", Cast(Size(VecF), "int"), Fld("i")), Cast(Idx(VecF, <<Arg("", Lit(0))>>), "double") }
Fixed ==
  {Size(Fld("fa")), Size(Fld("fv")), Size(Fld("da")), DimCount(Fld("fa")), DimCount(Fld("da"))}
  \cup { SizeDim(Fld("fa"), a) : a \in {Lit(0), Lit(1), Str("x"), Str("y"), Fld("ni")} }
  \cup { DimIndex(Fld("fa"), a) : a \in {Str("x"), Str("y")} }
  \cup { SizeDim(Fld("da"), a) : a \in {Lit(0), Lit(1)} }
  \cup { Idx(Fld("fv"), <<Arg("", a)>>) : a \in {Lit(0), Lit(2), Fld("ni")} }
  \cup { Idx(Fld("fa"), <<Arg("", a), Arg("", b)>>) : a \in {Lit(0), Lit(1)}, b \in {Lit(0), Lit(2), Fld("ni")} }
  \cup { Idx(Fld("fa"), <<Arg("x", a), Arg("y", b)>>) : a \in {Lit(1)}, b \in {Lit(0), Lit(2)} }
  \cup { Idx(Fld("da"), <<Arg("", a), Arg("", b)>>) : a \in {Lit(0), Lit(1)}, b \in {Lit(0), Lit(1)} }
  \cup { Bin("+", Idx(Fld("fv"), <<Arg("", Lit(1))>>), Idx(Fld("fa"), <<Arg("", Lit(1)), Arg("", Lit(1))>>)),
         Bin("*", Size(Fld("fv")), Size(Fld("fa"))) }

Switches ==
  { Sw(Fld("opt"), <<Case("int", "", Lit(1)), Case("_", "", Lit(0))>>),
    Sw(Fld("opt"), <<Case("int", "x", Bin("+", Fld("x"), Lit(1))), Case("null", "", Lit(0))>>),
    Sw(Fld("opt"), <<Case("null", "", Fld("i")), Case("int", "x", Bin("*", Fld("x"), Fld("i")))>>),
    Sw(Fld("un"), <<Case("int", "n", Bin("*", Fld("n"), Lit(2))), Case("float", "g", Bin("*", Fld("g"), Lit(2)))>>),
    Sw(Fld("un"), <<Case("float", "", Lit(2)), Case("_", "", Lit(1))>>),
    Sw(Fld("un"), <<Case("int", "n", Idx(VecF, <<Arg("", Bin("-", Fld("n"), Lit(1)))>>)), Case("float", "", Idx(VecF, <<Arg("", Lit(0))>>))>>),
    Sw(Fld("nun"), <<Case("null", "", Lit(0)), Case("int", "n", Fld("n")), Case("float", "g", Bin("+", Fld("g"), Fld("f")))>>),
    Sw(Fld("nun"), <<Case("int", "", Lit(1)), Case("_", "", Lit(2))>>),
    Sw(Fld("nun"), <<Case("float", "g", Fld("g")), Case("_", "", Fld("f"))>>),
    Sw(Fld("nun"), <<Case("null", "", Lit(0)), Case("_", "", Sw(Fld("un"), <<Case("int", "", Lit(10)), Case("float", "", Lit(20))>>))>>),
    Sw(Fld("i"), <<Case("int", "j", Bin("+", Fld("j"), Lit(1)))>>),
    Sw(Fld("i"), <<Case("int", "", Lit(5))>>),
    Sw(Fld("k"), <<Case("_", "", Bin("+", Fld("i"), Lit(1)))>>) }

\* several arrays in one expression, each looked up by a dimension name that is only known at run time
Tr == Fld("tr")
TwoArrays ==
  { Bin("+", SizeDim(a, n), SizeDim(b, m)) : a \in {Arr, Tr}, b \in {Arr, Tr}, n \in {Fld("ns"), Fld("nx")}, m \in {Fld("ns"), Fld("nx")} }
  \cup { Bin("+", Bin("*", DimIndex(a, n), Lit(10)), DimIndex(b, n)) : a \in {Arr, Tr}, b \in {Arr, Tr}, n \in {Fld("ns"), Fld("nx")} }
  \cup { Bin("*", SizeDim(Tr, Fld("ns")), SizeDim(Fld("fa"), Fld("ns"))), Bin("+", SizeDim(Fld("fa"), Fld("nx")), SizeDim(Tr, Fld("nx"))),
         Bin("+", SizeDim(Tr, Str("x")), SizeDim(Arr, Fld("ns"))), Bin("+", SizeDim(Arr, Fld("ns")), Bin("+", SizeDim(Tr, Fld("ns")), SizeDim(Arr, Fld("nx")))),
         Idx(Tr, <<Arg("", DimIndex(Arr, Fld("ns"))), Arg("", DimIndex(Tr, Fld("nx")))>>), SizeDim(Tr, Fld("nx")), DimIndex(Tr, Fld("ns")), Size(Tr) }

Generics == { Mem(Fld(g), m) : g \in {"ga", "gb"}, m \in {"x", "val", "again"} }
            \cup { Bin("+", Mem(Fld("gb"), "val"), Mem(Fld("ga"), "val")), Bin("+", Mem(Fld("ga"), "val"), Lit(1)), Bin("*", Mem(Fld("gb"), "again"), Lit(2)),
                   Bin("+", Mem(Fld("ga"), "again"), Mem(Fld("ga"), "val")), Idx(VecF, <<Arg("", Bin("-", Mem(Fld("ga"), "val"), Lit(10)))>>) }

SmallAliases == { Bin("*", Fld("cnt"), Fld("cnt")), Bin("+", Fld("sm"), Fld("sm")), Bin("-", Bin("*", Fld("cnt"), Fld("cnt")), Lit(1)),
                  Bin("*", Fld("cnt"), Fld("sm")), Bin("-", Fld("cnt"), Fld("sm")), Bin("+", Fld("cnt"), Lit(65535)),
                  Bin("*", Idx(Fld("cv"), <<Arg("", Lit(0))>>), Idx(Fld("cv"), <<Arg("", Lit(1))>>)),
                  Bin("*", Idx(Fld("cv"), <<Arg("", Lit(0))>>), Idx(Fld("cv"), <<Arg("", Lit(0))>>)) }

Exprs == Plain \cup Fixed \cup Switches \cup TwoArrays \cup Generics \cup SmallAliases
EnvOf(val) == [n \in DOMAIN Base \cup DOMAIN val |-> IF n \in DOMAIN val THEN val[n] ELSE Base[n]]
ValSeq == SetToSeq(Valuations)
Cases == { [e |-> e, values |-> [j \in 1..Len(ValSeq) |-> Eval(e, EnvOf(ValSeq[j]))]] : e \in Exprs }

\* sanity of the specification itself
ASSUME Eval(Bin("*", SizeDim(Arr, Lit(0)), SizeDim(Arr, Lit(1))), EnvOf(ValSeq[1])) = Eval(Size(Arr), EnvOf(ValSeq[1]))
\* (yardl requires named subscripts in declaration order; the evaluation itself is order independent)
ASSUME \A a \in {0, 1}, b \in {0, 1, 2} : Eval(Idx(Arr, <<Arg("y", Lit(b)), Arg("x", Lit(a))>>), EnvOf(ValSeq[1])) = Eval(Idx(Arr, <<Arg("", Lit(a)), Arg("", Lit(b))>>), EnvOf(ValSeq[1]))
ASSUME PrintT(<<"container expressions", Cardinality(Exprs), "valuations", Len(ValSeq)>>)
ASSUME ndJsonSerialize(IOEnv.VERIF_OUT_VALS, ValSeq)
ASSUME ndJsonSerialize(IOEnv.VERIF_OUT_BASE, <<Base>>)
ASSUME ndJsonSerialize(IOEnv.VERIF_OUT, SetToSeq(Cases))
=============================================================================
