----------------------------- MODULE ProtocolSM -----------------------------
(***************************************************************************)
(* Protocol step order (property C07).                                     *)
(*                                                                         *)
(* A protocol shape is a sequence of BOOLEAN (TRUE = stream step).  Four   *)
(* APIs are modelled, each with                                            *)
(*   - the abstract requirement: for the current abstract state and a      *)
(*     call, the verdict "accept" | "reject" | "either" ("either" only     *)
(*     where the property does not decide: a stream whose items have all   *)
(*     been delivered but whose end the caller has not yet observed, and   *)
(*     the Python writer's stream step that was never written), and        *)
(*   - an implementation-shaped machine transcribed from the generators    *)
(*     (cpp/protocols/protocols.go, python/protocols/protocols.go) with    *)
(*     the generated state numbering (writer: i; reader: 2i / 2i+1;        *)
(*     Python: 2i / 2i+1), held in a counter of Width bits (16 in the      *)
(*     generated C++ since the fix of the uint8_t wrap-around).            *)
(* Refines says the implementation verdict is one the requirement allows.  *)
(* Every explored (accepted prefix, call) pair is exported; the harness    *)
(* performs it on the real generated reader/writer.                        *)
(***************************************************************************)
EXTENDS Naturals, Sequences, FiniteSets, TLC, Json

CONSTANTS MaxLen,     \* protocol shapes of length 1..MaxLen
          K,          \* items in every stream of the file the reader is given
          Mod,        \* 2^Width of the C++ state counter (65536 in the generated code)
          Apis,       \* subset of {"cppw", "cppr", "pyw", "pyr"}
          Ctx         \* how many trailing calls of the history distinguish states in the VIEW (history context per exported test)

VARIABLES errs,       \* calls rejected so far: an error does not end the history (the property speaks of all finite call sequences)
          api, shape,
          pos,        \* abstract: index (0-based) of the step in progress / next; N = complete
          left,       \* abstract (readers): items of the current stream step not yet delivered
          begun,      \* abstract: the current stream step has been started (Python: iterable obtained / written at least once)
          st,         \* implementation: generated state counter
          drained,    \* implementation (C++ reader): unobserved completion, encoded in st as 2i+1
          hist, closed

vars == <<errs, api, shape, pos, left, begun, st, drained, hist, closed>>

N == Len(shape)
dropped == api = "pyr" /\ drained           \* Python reader: the iterable of the current stream step was abandoned
IsStream(i) == i < N /\ shape[i + 1]                 \* i is 0-based
U(x) == x % Mod

RECURSIVE Shapes(_)
Shapes(n) == IF n = 0 THEN {<<>>} ELSE { Append(s, b) : s \in Shapes(n - 1), b \in BOOLEAN }
AllShapes == UNION { Shapes(n) : n \in 1..MaxLen }

Init == /\ api \in Apis /\ shape \in AllShapes
        /\ pos = 0 /\ left = K /\ begun = FALSE /\ st = 0 /\ drained = FALSE /\ hist = <<>> /\ closed = FALSE /\ errs = 0

Min(a, b) == IF a < b THEN a ELSE b

-----------------------------------------------------------------------------
(* Calls: [op, i, n]  *)
\* (WriteBatch / End exist only for stream steps: the generated class has no such methods for the others)
CppWCalls == { [op |-> "write", i |-> i, n |-> 2] : i \in 0..(N - 1) } \cup
             { [op |-> "end", i |-> i, n |-> 2] : i \in { j \in 0..(N - 1) : IsStream(j) } } \cup
             \* a batch may be empty: it writes nothing, but it is still a call on step i and subject to the step order
             { [op |-> "wbatch", i |-> i, n |-> n] : i \in { j \in 0..(N - 1) : IsStream(j) }, n \in {0, 2} } \cup
             { [op |-> "close", i |-> 0, n |-> 0] }
CppRCalls == { [op |-> "one", i |-> i, n |-> 0] : i \in 0..(N - 1) } \cup
             { [op |-> "batch", i |-> i, n |-> c] : i \in { j \in 0..(N - 1) : IsStream(j) }, c \in 1..3 } \cup { [op |-> "close", i |-> 0, n |-> 0] }
PyWCalls  == { [op |-> "write", i |-> i, n |-> n] : i \in 0..(N - 1), n \in {0, 2} } \cup { [op |-> "close", i |-> 0, n |-> 0] }
PyRCalls  == { [op |-> "read", i |-> i, n |-> 0] : i \in 0..(N - 1) } \cup
             { [op |-> "take", i |-> i, n |-> c] : i \in { j \in 0..(N - 1) : IsStream(j) }, c \in {1, 9} } \cup
             { [op |-> "drop", i |-> i, n |-> 0] : i \in { j \in 0..(N - 1) : IsStream(j) } } \cup { [op |-> "close", i |-> 0, n |-> 0] }
Calls == CASE api = "cppw" -> CppWCalls [] api = "cppr" -> CppRCalls [] api = "pyw" -> PyWCalls [] api = "pyr" -> PyRCalls

-----------------------------------------------------------------------------
(* Abstract requirement.  Result: [v |-> verdict, pos', left', begun', more, count] for the accepting branch. *)
Acc(p, l, b, more, cnt) == [v |-> "accept", pos |-> p, left |-> l, begun |-> b, more |-> more, count |-> cnt]
Either(p, l, b, more, cnt) == [v |-> "either", pos |-> p, left |-> l, begun |-> b, more |-> more, count |-> cnt]
Rej == [v |-> "reject", pos |-> pos, left |-> left, begun |-> begun, more |-> FALSE, count |-> 0]

ReqCppW(c) ==
  CASE c.op = "close" -> IF pos = N THEN Acc(pos, left, begun, FALSE, 0) ELSE Rej
    [] c.op \in {"write", "wbatch"} ->
         IF c.i # pos \/ (c.op = "wbatch" /\ ~IsStream(c.i)) THEN Rej
         ELSE IF IsStream(pos) THEN Acc(pos, left, TRUE, FALSE, 0) ELSE Acc(pos + 1, left, FALSE, FALSE, 0)
    [] c.op = "end" -> IF c.i = pos /\ IsStream(pos) THEN Acc(pos + 1, left, FALSE, FALSE, 0) ELSE Rej

\* the stream step before `pos`... a reader call on step i when step i-1 = pos is a stream with nothing left but whose end
\* has not been observed is left open ("either"); taking it means the end is thereby observed.
Unobserved == pos < N /\ IsStream(pos) /\ left = 0

ReadOn(p, c) ==     \* a read call on step c.i with the abstract position p (items of a fresh stream: K)
  LET l == IF p = pos THEN left ELSE K IN
  IF c.i # p \/ p >= N THEN Rej
  ELSE IF ~IsStream(p) THEN (IF c.op = "one" THEN Acc(p + 1, K, FALSE, FALSE, 1) ELSE Rej)
  ELSE IF l = 0 THEN Acc(p + 1, K, FALSE, FALSE, 0)
  ELSE LET d == IF c.op = "one" THEN 1 ELSE Min(c.n, l) IN Acc(p, l - d, TRUE, TRUE, d)

ReqCppR(c) ==
  IF c.op = "close"
  THEN IF pos = N THEN Acc(pos, left, begun, FALSE, 0)
       ELSE IF pos = N - 1 /\ Unobserved THEN Either(N, K, FALSE, FALSE, 0) ELSE Rej
  ELSE LET direct == ReadOn(pos, c) IN
       IF direct.v = "accept" THEN direct
       ELSE IF Unobserved /\ c.i = pos + 1
            THEN LET r == ReadOn(pos + 1, c) IN IF r.v = "accept" THEN [r EXCEPT !.v = "either"] ELSE Rej
            ELSE Rej

ReqPyW(c) ==
  IF c.op = "close"
  THEN IF pos = N THEN Acc(pos, left, begun, FALSE, 0)
       ELSE IF pos = N - 1 /\ IsStream(pos) THEN (IF begun THEN Acc(N, left, FALSE, FALSE, 0) ELSE Either(N, left, FALSE, FALSE, 0))
       ELSE Rej
  ELSE IF c.i = pos
       THEN IF IsStream(pos) THEN Acc(pos, left, TRUE, FALSE, 0) ELSE Acc(pos + 1, left, FALSE, FALSE, 0)
       ELSE IF c.i = pos + 1 /\ pos < N /\ IsStream(pos) /\ c.i < N     \* implicit end of the previous stream
            THEN LET nxt == IF IsStream(c.i) THEN Acc(c.i, left, TRUE, FALSE, 0) ELSE Acc(c.i + 1, left, FALSE, FALSE, 0)
                 IN IF begun THEN nxt ELSE [nxt EXCEPT !.v = "either"]
            ELSE Rej

ReqPyR(c) ==
  CASE c.op = "close" ->
         IF pos = N THEN Acc(pos, left, begun, FALSE, 0)
         ELSE IF pos = N - 1 /\ Unobserved /\ begun THEN Either(N, K, FALSE, FALSE, 0) ELSE Rej
    [] c.op = "read" ->
         IF c.i = pos /\ pos < N
         THEN IF ~IsStream(pos) THEN Acc(pos + 1, K, FALSE, FALSE, 1)
              ELSE IF begun THEN Either(pos, left, TRUE, FALSE, 0) ELSE Acc(pos, left, TRUE, FALSE, 0)
         ELSE IF Unobserved /\ begun /\ c.i = pos + 1 /\ c.i < N
              THEN IF IsStream(c.i) THEN Either(c.i, K, TRUE, FALSE, 0) ELSE Either(c.i + 1, K, FALSE, FALSE, 1)
              ELSE Rej
    [] c.op = "take" ->        \* consuming the iterable obtained for stream step c.i (a driver action, never "rejected")
         IF c.i = pos /\ pos < N /\ IsStream(pos) /\ begun /\ ~dropped
         THEN LET d == Min(c.n, left) IN
              IF c.n > left THEN Acc(pos + 1, K, FALSE, FALSE, d)        \* ran into the end: exhausted
              ELSE Acc(pos, left - d, TRUE, TRUE, d)
         ELSE [Rej EXCEPT !.v = "skip"]                                   \* no iterable to consume: not a test
    [] c.op = "drop" ->        \* the caller abandons the iterable (break out of the loop): nothing is completed by that
         IF c.i = pos /\ pos < N /\ IsStream(pos) /\ begun /\ left > 0 /\ ~dropped
         THEN Acc(pos, left, TRUE, FALSE, 0) ELSE [Rej EXCEPT !.v = "skip"]

Req(c) == CASE api = "cppw" -> ReqCppW(c) [] api = "cppr" -> ReqCppR(c) [] api = "pyw" -> ReqPyW(c) [] api = "pyr" -> ReqPyR(c)

-----------------------------------------------------------------------------
(* Implementation-shaped machines.  Result: [ok, st', drained'] *)
Ok(s, d) == [ok |-> TRUE, st |-> s, drained |-> d]
Raise == [ok |-> FALSE, st |-> st, drained |-> drained]

ImplCppW(c) ==        \* writer: state_ == i
  CASE c.op = "close" -> IF st # N THEN Raise ELSE Ok(st, FALSE)                 \* compared with the literal N
    [] c.op \in {"write", "wbatch"} ->
         IF c.op = "wbatch" /\ ~IsStream(c.i) THEN Raise
         ELSE IF st # U(c.i) THEN Raise ELSE IF IsStream(c.i) THEN Ok(st, FALSE) ELSE Ok(U(c.i + 1), FALSE)
    [] c.op = "end" -> IF ~IsStream(c.i) \/ st # U(c.i) THEN Raise ELSE Ok(U(c.i + 1), FALSE)

ImplCppR(c) ==        \* reader: 2i ready, 2i+1 drained-but-unobserved
  IF c.op = "close" THEN (IF st # 2 * N THEN Raise ELSE Ok(st, FALSE))
  ELSE LET i == c.i
           l == IF i = pos THEN left ELSE K            \* items the file holds for the step the call is aimed at
           \* the previous step is a stream whose completion was not observed: generated code moves on silently
           viaPrev == i > 0 /\ IsStream(i - 1) /\ st = U(2 * i - 1)
           Body == IF IsStream(i)
                   THEN IF c.op = "one"
                        THEN IF l = 0 THEN Ok(U(2 * i + 2), FALSE) ELSE Ok(U(2 * i), FALSE)
                        ELSE LET d == Min(c.n, l) IN
                             IF l - d = 0 THEN (IF d > 0 THEN Ok(U(2 * i + 1), TRUE) ELSE Ok(U(2 * i + 2), FALSE))
                             ELSE Ok(U(2 * i), FALSE)
                   ELSE IF c.op # "one" THEN Raise ELSE Ok(U(2 * i + 2), FALSE)
       IN
       IF st = U(2 * i) THEN Body
       ELSE IF IsStream(i) /\ st = U(2 * i + 1) THEN Ok(U(2 * i + 2), FALSE)           \* observed now: returns false
       ELSE IF viaPrev THEN Body
       ELSE Raise

ImplPyW(c) ==         \* Python writer: 2i ready; 2i+1 inside stream i
  IF c.op = "close"
  THEN IF st = 2 * N \/ (N > 0 /\ IsStream(N - 1) /\ st = 2 * N - 1) THEN Ok(2 * N, FALSE) ELSE Raise
  ELSE LET i == c.i IN
       IF IsStream(i)
       THEN IF st = 2 * i \/ st = 2 * i + 1 THEN Ok(2 * i + 1, FALSE)
            ELSE IF i > 0 /\ IsStream(i - 1) /\ st = 2 * i - 1 THEN Ok(2 * i + 1, FALSE) ELSE Raise
       ELSE IF st = 2 * i THEN Ok(2 * i + 2, FALSE)
            ELSE IF i > 0 /\ IsStream(i - 1) /\ st = 2 * i - 1 THEN Ok(2 * i + 2, FALSE) ELSE Raise

ImplPyR(c) ==         \* Python reader: read_x sets 2i+1 and returns a generator that sets 2i+2 when exhausted
  CASE c.op = "close" -> IF st = 2 * N THEN Ok(st, FALSE) ELSE Raise
    [] c.op = "read" -> IF st # 2 * c.i THEN Raise
                        ELSE IF IsStream(c.i) THEN Ok(2 * c.i + 1, FALSE) ELSE Ok(2 * c.i + 2, FALSE)
    [] c.op = "take" -> IF c.n > left THEN Ok(2 * c.i + 2, FALSE) ELSE Ok(st, FALSE)
    [] c.op = "drop" -> Ok(st, FALSE)

Impl(c) == CASE api = "cppw" -> ImplCppW(c) [] api = "cppr" -> ImplCppR(c) [] api = "pyw" -> ImplPyW(c) [] api = "pyr" -> ImplPyR(c)

-----------------------------------------------------------------------------
\* After a rejected call the abstract position is what it was, so every call that is out of order there is still out of order and
\* must be rejected again ("Closing succeeds only when every step has been completed", whatever was tried before); whether a call
\* that is in order is still served after an error is not specified, so such calls are not explored.  MaxErrs rejected calls per history.
MaxErrs == 2
Do(c) ==
  LET r == Req(c)
      m == Impl(c)
  IN /\ ~closed /\ r.v # "skip"
     /\ (errs > 0 => r.v = "reject")
     /\ hist' = Append(hist, [call |-> c, allowed |-> r.v, model |-> m.ok, more |-> r.more, count |-> r.count])
     /\ IF m.ok /\ r.v # "reject"
        THEN /\ pos' = r.pos /\ left' = r.left /\ begun' = r.begun /\ st' = m.st
             /\ drained' = IF api = "pyr" THEN (c.op = "drop" \/ (drained /\ r.pos = pos)) ELSE m.drained
             /\ closed' = (c.op = "close") /\ UNCHANGED errs
        ELSE /\ errs' = errs + 1 /\ closed' = (errs + 1 >= MaxErrs \/ r.v # "reject") /\ UNCHANGED <<pos, left, begun, st, drained>>
     /\ UNCHANGED <<api, shape>>

Next == \E c \in Calls : Do(c)
Spec == Init /\ [][Next]_vars

\* the implementation-shaped machine never contradicts the requirement
Refines == \A i \in 1..Len(hist) :
             /\ hist[i].allowed = "accept" => hist[i].model
             /\ hist[i].allowed = "reject" => ~hist[i].model

Export == (hist # <<>>) => PrintT(<<"CASE", ToJson([api |-> api, shape |-> shape, k |-> K, hist |-> hist])>>)
Depth == Len(hist) <= 2 * MaxLen + 4 + MaxErrs
\* one representative (shortest) history per (reachable state, last call): the history itself is output only
\* (an implementation can hold more state than the model - e.g. a flag that was not reset - so the same (state, call) is
\* exported once per distinct recent history, not just once)
View == <<errs, api, shape, pos, left, begun, st, drained, closed,
          SubSeq(hist, IF Len(hist) > Ctx THEN Len(hist) - Ctx + 1 ELSE 1, Len(hist))>>
=============================================================================
