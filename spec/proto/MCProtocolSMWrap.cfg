\* design-only: a 3-bit state counter (Mod = 8) makes the wrap-around of the generated uint8_t counter reachable with 4 steps
CONSTANTS MaxLen = 4  K = 2  Mod = 8  Apis = {"cppw", "cppr"}  Ctx = 1
INIT Init
NEXT Next
INVARIANTS Refines
CONSTRAINT Depth
VIEW View
CHECK_DEADLOCK FALSE
