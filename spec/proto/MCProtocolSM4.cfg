\* every shape of length <= 4, every call in every reachable state; one shortest history per (state, call) via VIEW
CONSTANTS MaxLen = 4  K = 2  Mod = 65536  Apis = {"cppw", "cppr", "pyw", "pyr"}  Ctx = 2
INIT Init
NEXT Next
INVARIANTS Refines Export
CONSTRAINT Depth
VIEW View
CHECK_DEADLOCK FALSE
