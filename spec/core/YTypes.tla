------------------------------- MODULE YTypes -------------------------------
(***************************************************************************)
(* Abstract syntax of yardl types and of their values.                     *)
(*                                                                         *)
(* Types (records with a kind field k):                                    *)
(*   prim p | opt t | vec t | fvec t n | farr t dims | ndarr t r | dynarr t*)
(*   map kt vt | union cases nullable | enum base syms | flags base syms   *)
(*   rec fields | alias t                                                  *)
(* Named types (rec, enum, flags, alias) carry no name here: the           *)
(* concretiser names them by content; `gen`/`imp` (optional fields) are    *)
(* spelling choices (define generically / in an imported package) that     *)
(* must not change meaning.                                                *)
(*                                                                         *)
(* Values:                                                                 *)
(*   integers   [neg, mag] (BigNat)        bool   TRUE/FALSE               *)
(*   floats, strings, date/time/datetime   [tok |-> name] (Tokens)         *)
(*   complex    [re |-> tok, im |-> tok]                                   *)
(*   opt        <<>> | <<v>>               vec/fvec  sequence              *)
(*   arrays     [shape |-> Seq(Nat), data |-> Seq(v)] (row-major)          *)
(*   map        sequence of <<k, v>> in written order                      *)
(*   union      [c |-> 0 (null) | i (i-th non-null case), v |-> value]     *)
(*   enum/flags integer                    rec    sequence of field values *)
(***************************************************************************)
EXTENDS Naturals, Sequences, FiniteSets, BigNat, Tokens, SequencesExt

SignedPrims   == {"int8", "int16", "int32", "int64"}
UnsignedPrims == {"uint8", "uint16", "uint32", "uint64", "size"}
IntPrims      == SignedPrims \cup UnsignedPrims
FloatPrims    == {"float32", "float64"}
ComplexPrims  == {"complexfloat32", "complexfloat64"}
TimePrims     == {"date", "time", "datetime"}
Prims         == IntPrims \cup FloatPrims \cup ComplexPrims \cup TimePrims \cup {"bool", "string"}

Bits(p) == CASE p \in {"int8", "uint8"} -> 8 [] p \in {"int16", "uint16"} -> 16
             [] p \in {"int32", "uint32"} -> 32 [] OTHER -> 64

Prim(p)          == [k |-> "prim", p |-> p]
Opt(t)           == [k |-> "opt", t |-> t]
Vec(t)           == [k |-> "vec", t |-> t]
FVec(t, n)       == [k |-> "fvec", t |-> t, n |-> n]
FArr(t, dims)    == [k |-> "farr", t |-> t, dims |-> dims]
NdArr(t, r)      == [k |-> "ndarr", t |-> t, r |-> r]
DynArr(t)        == [k |-> "dynarr", t |-> t]
Map(kt, vt)      == [k |-> "map", kt |-> kt, vt |-> vt]
Case(tag, t)     == [tag |-> tag, t |-> t]
Union(cs, nl)    == [k |-> "union", cases |-> cs, nullable |-> nl]
Sym(s, v)        == [s |-> s, v |-> v]
Enum(base, syms) == [k |-> "enum", base |-> base, syms |-> syms]
Flags(base, syms) == [k |-> "flags", base |-> base, syms |-> syms]
Field(n, t)      == [n |-> n, t |-> t]
Rec(fields)      == [k |-> "rec", fields |-> fields]
Alias(t)         == [k |-> "alias", t |-> t]

RECURSIVE Resolve(_)
Resolve(t) == IF t.k = "alias" THEN Resolve(t.t) ELSE t            \* what an alias stands for

Tok(n) == [tok |-> n]

Product(s) == LET RECURSIVE P(_)
                  P(i) == IF i > Len(s) THEN 1 ELSE s[i] * P(i + 1)
              IN P(1)

-----------------------------------------------------------------------------
(* Small, edge-biased value lists.  Vals(t) is a *sequence* so that the i-th value of every type in a package can be
   combined into the i-th run of a protocol. *)

IntVals(p) ==
  LET b == Bits(p) IN
  IF p \in SignedPrims
  THEN << SmallInt(0), NegSmall(1), SmallInt(63), SmallInt(64), NegSmall(64), NegSmall(65),
          Nat0(AllOnes(b - 1)), Int(TRUE, Pow2(b - 1)) >>
  ELSE << SmallInt(0), SmallInt(1), SmallInt(127), SmallInt(128), Nat0(AllOnes(b)) >>

F32Vals == << Tok("f32_zero"), Tok("f32_1p5"), Tok("f32_neg2p25"), Tok("f32_big"), Tok("f32_tiny"), Tok("f32_third"),
              Tok("f32_negzero"), Tok("f32_inf"), Tok("f32_ninf"), Tok("f32_nan") >>
F64Vals == << Tok("f64_zero"), Tok("f64_1p5"), Tok("f64_neg2p25"), Tok("f64_big"), Tok("f64_tiny"), Tok("f64_third"),
              Tok("f64_negzero"), Tok("f64_inf"), Tok("f64_ninf"), Tok("f64_nan") >>

PrimVals(p) ==
  CASE p \in IntPrims -> IntVals(p)
    [] p = "bool" -> << TRUE, FALSE >>
    [] p = "float32" -> F32Vals
    [] p = "float64" -> F64Vals
    [] p = "complexfloat32" -> << [re |-> "f32_1p5", im |-> "f32_neg2p25"], [re |-> "f32_zero", im |-> "f32_negzero"],
                                  [re |-> "f32_big", im |-> "f32_tiny"], [re |-> "f32_nan", im |-> "f32_inf"] >>
    [] p = "complexfloat64" -> << [re |-> "f64_1p5", im |-> "f64_neg2p25"], [re |-> "f64_zero", im |-> "f64_negzero"],
                                  [re |-> "f64_big", im |-> "f64_tiny"], [re |-> "f64_nan", im |-> "f64_inf"] >>
    [] p = "string" -> << Tok("s_hello"), Tok("s_empty"), Tok("s_2byte"), Tok("s_3byte"), Tok("s_4byte"), Tok("s_esc"),
                          Tok("s_long"), Tok("s_num") >>
    [] p = "date" -> << Tok("d_2020"), Tok("d_epoch"), Tok("d_before"), Tok("d_leap"), Tok("d_far"), Tok("d_old") >>
    [] p = "time" -> << Tok("t_doc"), Tok("t_midnight"), Tok("t_1ns"), Tok("t_last"), Tok("t_noon") >>
    [] p = "datetime" -> << Tok("dt_doc"), Tok("dt_epoch"), Tok("dt_1ns"), Tok("dt_before"), Tok("dt_2020"), Tok("dt_neg") >>

\* the i-th element of a value list, cycling
Nth(s, i) == s[((i - 1) % Len(s)) + 1]

\* distinct keys for maps
KeyVals(p) == IF p = "string" THEN << Tok("s_key1"), Tok("s_key2"), Tok("s_key3"), Tok("s_empty") >>
              ELSE PrimVals(p)

Take(s, n) == SubSeq(s, 1, IF Len(s) < n THEN Len(s) ELSE n)

RECURSIVE Vals(_)
Vals(t) ==
  CASE t.k = "prim" -> PrimVals(t.p)
    [] t.k = "alias" -> Vals(t.t)
    [] t.k = "opt" -> LET in == Vals(t.t) IN << <<in[1]>>, <<>> >> \o [i \in 1..(Len(Take(in, 4)) - 1) |-> <<in[i + 1]>>]
    [] t.k = "vec" -> LET in == Vals(t.t) IN
                      << <<in[1], Nth(in, 2)>>, <<>>, <<Nth(in, 3)>>, <<Nth(in, 4), Nth(in, 5), Nth(in, 6)>> >>
    [] t.k = "fvec" -> LET in == Vals(t.t) IN
                       << [i \in 1..t.n |-> Nth(in, i)], [i \in 1..t.n |-> Nth(in, i + t.n)], [i \in 1..t.n |-> Nth(in, i + 3)] >>
    [] t.k = "farr" -> LET in == Vals(t.t) n == Product(t.dims) IN
                       << [shape |-> t.dims, data |-> [i \in 1..n |-> Nth(in, i)]],
                          [shape |-> t.dims, data |-> [i \in 1..n |-> Nth(in, i + 2)]] >>
    [] t.k = "ndarr" -> LET in == Vals(t.t)
                            sh1 == [i \in 1..t.r |-> IF i = 1 THEN 2 ELSE IF i = 2 THEN 3 ELSE 1]
                            sh0 == [i \in 1..t.r |-> IF i = 1 THEN 0 ELSE 2]
                            sh2 == [i \in 1..t.r |-> 1]
                        IN << [shape |-> sh1, data |-> [i \in 1..Product(sh1) |-> Nth(in, i)]],
                              [shape |-> sh0, data |-> <<>>],
                              [shape |-> sh2, data |-> <<Nth(in, 2)>>] >>
    [] t.k = "dynarr" -> LET in == Vals(t.t) IN
                         << [shape |-> <<2, 2>>, data |-> [i \in 1..4 |-> Nth(in, i)]],
                            [shape |-> <<3>>, data |-> [i \in 1..3 |-> Nth(in, i + 1)]],
                            [shape |-> <<>>, data |-> <<in[1]>>],
                            [shape |-> <<0>>, data |-> <<>>],
                            [shape |-> <<1, 2, 1>>, data |-> <<Nth(in, 2), Nth(in, 3)>>] >>
    [] t.k = "map" -> LET ks == KeyVals(Resolve(t.kt).p) vs == Vals(t.vt) IN
                      << << <<ks[1], vs[1]>>, <<ks[2], Nth(vs, 2)>> >>, <<>>, << <<Nth(ks, 3), Nth(vs, 3)>> >>,
                         << <<ks[2], Nth(vs, 4)>>, <<ks[1], Nth(vs, 5)>>, <<Nth(ks, 3), vs[1]>> >> >>
    [] t.k = "union" -> LET n == Len(t.cases)
                            per == [i \in 1..n |-> Vals(t.cases[i].t)]
                        IN (IF t.nullable THEN << [c |-> 0, v |-> <<>>] >> ELSE <<>>)
                           \o [i \in 1..n |-> [c |-> i, v |-> per[i][1]]]
                           \o [i \in 1..n |-> [c |-> i, v |-> Nth(per[i], 2)]]
    [] t.k = "enum" -> [i \in 1..Len(t.syms) |-> t.syms[i].v] \o << IF t.base \in SignedPrims THEN NegSmall(7) ELSE SmallInt(77) >>
    [] t.k = "flags" -> \* every symbol alone, none, first two together, all, an undefined bit; for symbols of several bits also
                        \* every single bit of such a symbol alone (only part of the symbol is set) and with the last symbol
                        LET AllBits == UNION { t.syms[i].bits : i \in 1..Len(t.syms) }
                            Multi == { i \in 1..Len(t.syms) : Cardinality(t.syms[i].bits) > 1 }
                            Parts == SetToSeq(UNION { { {b}, {b} \cup t.syms[Len(t.syms)].bits } : b \in UNION { t.syms[i].bits : i \in Multi } })
                        \* (the partial values come first: only the first few values of a type are run in the quick tier)
                        IN << SmallInt(0) >> \o [i \in 1..Len(Parts) |-> Nat0(OrBits(Parts[i]))]
                           \o [i \in 1..Len(t.syms) |-> t.syms[i].v]
                           \o << Nat0(OrBits(UNION { t.syms[i].bits : i \in 1..(IF Len(t.syms) < 2 THEN Len(t.syms) ELSE 2) })),
                                 Nat0(OrBits(AllBits)),
                                 Nat0(OrBits(t.syms[1].bits \cup {5})) >>
    [] t.k = "rec" -> LET n == Len(t.fields)
                          per == [i \in 1..n |-> Vals(t.fields[i].t)]
                          m == IF n = 0 THEN 1 ELSE 3
                      IN [j \in 1..m |-> [i \in 1..n |-> Nth(per[i], j + i - 1)]]

\* a flags symbol: name, bit position, value = 2^bit
FlagSym(s, bit) == [s |-> s, bits |-> {bit}, v |-> Nat0(Pow2(bit))]
\* a flags symbol that stands for several bits (`readWrite: 3`)
FlagSymM(s, bits) == [s |-> s, bits |-> bits, v |-> Nat0(OrBits(bits))]
=============================================================================
