------------------------------- MODULE BigNat -------------------------------
(***************************************************************************)
(* Integers beyond TLC's 32-bit range.  A natural number is a sequence of  *)
(* base-128 digits, least significant first, without trailing zero digits  *)
(* (zero is <<>>); an integer is [neg |-> BOOLEAN, mag |-> digits] (zero   *)
(* is never negative).  Base 128 is the varint digit size, so the varint   *)
(* encoding of a natural is its digit sequence with continuation bits.     *)
(***************************************************************************)
EXTENDS Naturals, Sequences

Digit == 0..127

RECURSIVE Norm(_)
Norm(d) == IF d # <<>> /\ d[Len(d)] = 0 THEN Norm(SubSeq(d, 1, Len(d) - 1)) ELSE d

RECURSIVE NatDigits(_)
NatDigits(n) == IF n = 0 THEN <<>> ELSE <<n % 128>> \o NatDigits(n \div 128)      \* for small (TLC-sized) naturals

\* 2 * d
RECURSIVE DoubleC(_, _)
DoubleC(d, carry) == IF d = <<>> THEN (IF carry = 0 THEN <<>> ELSE <<carry>>)
                     ELSE LET x == 2 * d[1] + carry IN <<x % 128>> \o DoubleC(Tail(d), x \div 128)
Double(d) == DoubleC(d, 0)

\* d - 1   (d > 0)
RECURSIVE Dec(_)
Dec(d) == IF d[1] > 0 THEN Norm(<<d[1] - 1>> \o Tail(d)) ELSE <<127>> \o Dec(Tail(d))

\* d + 1
RECURSIVE Inc(_)
Inc(d) == IF d = <<>> THEN <<1>> ELSE IF d[1] < 127 THEN <<d[1] + 1>> \o Tail(d) ELSE <<0>> \o Inc(Tail(d))

RECURSIVE Pow2Small(_)
Pow2Small(k) == IF k = 0 THEN 1 ELSE 2 * Pow2Small(k - 1)                           \* k < 7

Zeros(n) == [i \in 1..n |-> 0]
Pow2(n)     == Zeros(n \div 7) \o <<Pow2Small(n % 7)>>                                \* 2^n
AllOnes(n)  == Norm([i \in 1..(n \div 7) |-> 127] \o <<Pow2Small(n % 7) - 1>>)       \* 2^n - 1

\* sum of distinct powers of two given as a set of bit positions (no carries can occur)
Bit7(b) == Pow2Small(b % 7)
RECURSIVE SumBits(_)
SumBits(S) == IF S = {} THEN 0 ELSE LET x == CHOOSE x \in S : TRUE IN Bit7(x) + SumBits(S \ {x})
OrBits(S) == IF S = {} THEN <<>>
             ELSE LET top == CHOOSE b \in S : \A c \in S : c <= b
                  IN Norm([i \in 1..(top \div 7 + 1) |-> SumBits({b \in S : b \div 7 = i - 1})])

Int(neg, mag) == [neg |-> neg, mag |-> mag]
Nat0(mag)     == [neg |-> FALSE, mag |-> mag]
SmallInt(n)   == Nat0(NatDigits(n))                                                 \* n >= 0
NegSmall(n)   == [neg |-> TRUE, mag |-> NatDigits(n)]                               \* -n, n > 0

\* zig-zag: 2n for n >= 0, 2|n| - 1 for n < 0
ZigZag(i) == IF i.neg THEN Dec(Double(i.mag)) ELSE Double(i.mag)

\* varint bytes of a natural: seven bits per byte, least significant group first, bit 7 = "more follows"
VarU(d) == IF d = <<>> THEN <<0>>
           ELSE [i \in 1..Len(d) |-> IF i < Len(d) THEN d[i] + 128 ELSE d[i]]
VarS(i) == VarU(ZigZag(i))
VarSmall(n) == VarU(NatDigits(n))
=============================================================================
