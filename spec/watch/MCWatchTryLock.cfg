\* giving up instead of waiting loses the last save - Converges is violated
SPECIFICATION Spec
CONSTANTS
  MaxEdits = 2
  MaxRegens = 5
  Invalid = {}
  Mode = "trylock"
  Dirs = {"main"}
  WatchDirs = "rearm"
  Kinds = {"write"}
INVARIANTS Converges
VIEW View
CHECK_DEADLOCK FALSE
