----------------------------- MODULE TraceWatch -----------------------------
(***************************************************************************)
(* Trace validation for Watch.tla: the hook events recorded from the real  *)
(* `yardl generate --watch` (RegenStart after the lock is taken, Validated *)
(* after the package was read, WriteFile, RegenEnd) and the harness's own  *)
(* edits, abstracted to edit / start / read / write / end lines, must be a *)
(* behaviour of the serialized design; the "final" line carries what the   *)
(* output files on disk actually hold after draining, which must be what   *)
(* the specification's out variable predicts.  Many runs are concatenated; *)
(* a "reset" line starts a fresh watcher.  Versions are numbered globally  *)
(* over the whole file, Invalid is the set of versions the harness wrote   *)
(* as broken models.  The debounce timer firing is not logged: it is a     *)
(* silent step.                                                            *)
(***************************************************************************)
EXTENDS Watch, IOUtils

Trace == ndJsonDeserialize(IOEnv.VERIF_TRACE)
TraceInvalid == { Trace[i].version : i \in { j \in 1..Len(Trace) : Trace[j].e \in {"editbegin", "reset"} /\ ~Trace[j].valid } }
TraceMaxEdits == Len(Trace)

VARIABLES l,      \* next line of the trace
          pend    \* line number of an edit that has begun and not yet taken effect (0: none)
tvars == <<vars, l, pend>>

ToSetOf(s) == { s[i] : i \in 1..Len(s) }
IsEvent(e) == l <= Len(Trace) /\ Trace[l].e = e /\ l' = l + 1

\* nothing runs until the first "reset" line starts a watcher
TInit == /\ content = 0 /\ prev = 0 /\ edits = 0 /\ timer = FALSE /\ spawned = 1
         /\ st = [r \in Regens |-> "none"] /\ ver = [r \in Regens |-> None] /\ wrote = [r \in Regens |-> 0]
         /\ lock = 0 /\ out = [f \in Files |-> None] /\ hist = <<>> /\ watched = {"main"} /\ l = 1 /\ pend = 0

TReset == /\ IsEvent("reset") /\ Drained /\ pend = 0 /\ UNCHANGED pend
          /\ content' = Trace[l].version /\ content' > content /\ prev' = content'
          /\ edits' = edits /\ timer' = FALSE /\ spawned' = 1
          /\ st' = [r \in Regens |-> IF r = 1 THEN "spawned" ELSE "none"]
          /\ ver' = [r \in Regens |-> None] /\ wrote' = [r \in Regens |-> 0] /\ lock' = 0
          /\ out' = [f \in Files |-> None] /\ hist' = <<>> /\ watched' = {"main"}
\* The harness logs an edit before and after it touches the file; when exactly in between the new contents become visible to a
\* regeneration that is reading is not observable, so the edit itself is an internal step between the two lines.
DoEdit(j) == (\E k \in Kinds : Edit(k, Trace[j].dir)) /\ content' = Trace[j].version
TEditBegin == IsEvent("editbegin") /\ pend = 0 /\ pend' = l /\ UNCHANGED vars
ApplyEdit == pend # 0 /\ DoEdit(pend) /\ pend' = 0 /\ l' = l
TEditEnd == IsEvent("editend") /\ \/ (pend # 0 /\ DoEdit(pend) /\ pend' = 0)
                                  \/ (pend = 0 /\ UNCHANGED <<vars, pend>>)
TFsEvent == IsEvent("fsevent") /\ timer' = TRUE /\ UNCHANGED <<content, prev, edits, spawned, st, ver, wrote, lock, out, hist, watched, pend>>
TStart == IsEvent("start") /\ UNCHANGED pend /\ \E r \in Regens : Acquire(r) /\ st'[r] = "running"
TRead == IsEvent("read") /\ UNCHANGED pend /\ \E r \in Regens : Read(r) /\ (Trace[l].ok <=> st'[r] = "read")
TWrite == IsEvent("write") /\ UNCHANGED pend /\ \E r \in Regens : Write(r)
TEnd == IsEvent("end") /\ UNCHANGED pend /\ \E r \in Regens : End(r)
\* what is on disk after draining is what the specification says was written last
TFinal == /\ IsEvent("final") /\ Drained /\ pend = 0 /\ UNCHANGED pend
          /\ \A f \in Files : out[f] \in ToSetOf(Trace[l].candidates)
          /\ UNCHANGED vars
Silent == TimerFire /\ l' = l /\ UNCHANGED pend

TNext == TReset \/ TEditBegin \/ ApplyEdit \/ TEditEnd \/ TFsEvent \/ TStart \/ TRead \/ TWrite \/ TEnd \/ TFinal \/ Silent
TraceSpec == TInit /\ [][TNext]_tvars

\* acceptance: some behaviour consumes every line (high-water mark of l; run with -workers 1)
HighWater == TLCSet(1, IF TLCGet(1) < l THEN l ELSE TLCGet(1))
ASSUME TLCSet(1, 0)
TraceAccepted == IF TLCGet(1) = Len(Trace) + 1 THEN TRUE ELSE PrintT(<<"STUCK", TLCGet(1)>>) /\ FALSE
TView == <<View, l, pend>>
=============================================================================
