\* vacuity guard: one configuration object for the whole process (the code as found) must violate UnconfiguredUntouched
CONSTANTS MaxEdits = 3  RestorePolicy = "deferred"  ConfigPolicy = "accumulated"
INIT Init
NEXT Next
INVARIANTS Converges AtHomeWhenIdle UnconfiguredUntouched
CHECK_DEADLOCK FALSE
