\* the code as it is: the working directory is restored on every path.  MaxEdits = 3.
CONSTANTS MaxEdits = 3  RestorePolicy = "deferred"
INIT Init
NEXT Next
INVARIANTS Converges AtHomeWhenIdle ExportSchedules
CHECK_DEADLOCK FALSE
