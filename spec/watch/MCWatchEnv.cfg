\* the code as it is: the working directory is restored on every path.  MaxEdits = 3.
CONSTANTS MaxEdits = 3  RestorePolicy = "deferred"  ConfigPolicy = "fresh"
INIT Init
NEXT Next
INVARIANTS Converges AtHomeWhenIdle UnconfiguredUntouched ExportSchedules
CHECK_DEADLOCK FALSE
