\* watching referenced directories after every regeneration is not enough: an edit there between the first read and the moment
\* the directory is watched is never heard of - Converges is violated
SPECIFICATION Spec
CONSTANTS
  MaxEdits = 1
  MaxRegens = 3
  Invalid = {}
  Mode = "serialized"
  Dirs = {"main", "imp"}
  WatchDirs = "always"
  Kinds = {"write"}
INVARIANTS Converges
VIEW View
CHECK_DEADLOCK FALSE
