\* schedules for replay: every complete behaviour of the unsynchronised design (the most permissive one)
SPECIFICATION Spec
CONSTANTS
  MaxEdits = 2
  MaxRegens = 3
  Invalid = {}
  Mode = "concurrent"
  Kinds = {"write", "remove", "rename"}
INVARIANTS ExportSchedules
CHECK_DEADLOCK FALSE
