\* schedules for replay: every complete behaviour of the unsynchronised design (the most permissive one)
SPECIFICATION Spec
CONSTANTS
  MaxEdits = 2
  MaxRegens = 3
  Invalid = {}
  Mode = "concurrent"
  Dirs = {"main"}
  WatchDirs = "rearm"
  Kinds = {"write", "remove", "rename", "restore"}
INVARIANTS ExportSchedules
CHECK_DEADLOCK FALSE
