\* the code as found: regenerations spawned by the debounce timer run side by side - Converges is violated
SPECIFICATION Spec
CONSTANTS
  MaxEdits = 2
  MaxRegens = 5
  Invalid = {}
  Mode = "concurrent"
  Dirs = {"main"}
  WatchDirs = "rearm"
  Kinds = {"write"}
INVARIANTS Converges
VIEW View
CHECK_DEADLOCK FALSE
