------------------------------ MODULE WatchEnv ------------------------------
(***************************************************************************)
(* `yardl generate --watch`: what a regeneration leaves behind in the      *)
(* process (property C20, second module).                                  *)
(*                                                                         *)
(* Watch.tla abstracts a regeneration to Read / Write and explores how     *)
(* regenerations and edits interleave.  This module looks inside one       *)
(* regeneration at the state that outlives it: the working directory of    *)
(* the watcher process.  Every regeneration starts from os.Getwd(); while  *)
(* the imports of a package are fetched the process changes into that      *)
(* package's directory (fetchAndCachePackages) and changes back            *)
(* afterwards.  Regenerations run one at a time (the repaired code).       *)
(*                                                                         *)
(* The package closure: main -> nested -> leaf.  Faults an edit can        *)
(* introduce (the "invalid intermediate states" of the property):          *)
(*   model_error            a model file of main that does not validate    *)
(*   main_fetch_error       an import of main that cannot be fetched       *)
(*   nested_fetch_error     an import of the nested package that cannot be *)
(*                          fetched (fails while the process is inside the *)
(*                          nested package's directory)                    *)
(*   nested_manifest_error  the nested package's manifest does not parse   *)
(* RestorePolicy: "deferred" - the directory is restored on every path     *)
(* (the code as it is); "on_success" - only when fetching succeeded (a     *)
(* tempting rewrite of the deferred call).                                 *)
(*                                                                         *)
(* A second piece of process state is the configuration object that every  *)
(* regeneration loads the manifest into (ConfigPolicy).                    *)
(*                                                                         *)
(* Converges: once edits have stopped, nothing is pending and the package  *)
(* is valid, the output is the generation of the final contents of main.   *)
(* hist records the edits and whether the watcher had settled before each  *)
(* one; the harness replays every complete behaviour on the real watcher.  *)
(***************************************************************************)
EXTENDS Naturals, Sequences, FiniteSets, TLC, Json

CONSTANTS MaxEdits, RestorePolicy,
          ConfigPolicy      \* "fresh": every regeneration takes its targets from the manifest it has just read (a one-shot run does);
                            \* "accumulated": keys of manifests read earlier in the process stay in force (the code as found: one
                            \*                package-level configuration object that every regeneration loads into)

Faults == {"model_error", "main_fetch_error", "nested_fetch_error", "nested_manifest_error"}
Wrong == 99                \* what is on disk after a regeneration that read some other directory as the package

VARIABLES broken, content, edits, pending, cwd, pc, dir, saved, snap, out, hist,
          json,       \* does the manifest (still) configure the JSON target
          loaded,     \* has any manifest read by this process configured it
          snapj,      \* does the running regeneration write it
          outj,       \* the contents version its output holds
          dropAt      \* the contents version when the target was taken out of the manifest
vars == <<broken, content, edits, pending, cwd, pc, dir, saved, snap, out, hist, json, loaded, snapj, outj, dropAt>>
cfgvars == <<json, loaded, snapj, outj, dropAt>>

Init == /\ broken = {} /\ content = 0 /\ edits = 0 /\ pending = TRUE     \* the generation at start-up
        /\ cwd = "main" /\ pc = "idle" /\ dir = "main" /\ saved = "main" /\ snap = 0 /\ out = 0 /\ hist = <<>>
        /\ json = TRUE /\ loaded = FALSE /\ snapj = FALSE /\ outj = 0 /\ dropAt = 0

Settled == pc = "idle" /\ ~pending

Note(kind) == hist' = Append(hist, [kind |-> kind, settled |-> Settled])

Break(f) == /\ edits < MaxEdits /\ f \notin broken
            /\ broken' = broken \cup {f} /\ edits' = edits + 1 /\ pending' = TRUE /\ Note(f)
            /\ UNCHANGED <<content, cwd, pc, dir, saved, snap, out>> /\ UNCHANGED cfgvars
\* a repair is made where the fault is: a fault of the nested package is repaired by saving files of the nested package only (its
\* manifest and a model file), so the watcher hears of it only if it still watches that directory; hist records what was repaired
Repair == /\ edits < MaxEdits /\ broken # {}
          /\ broken' = {} /\ content' = content + 1 /\ edits' = edits + 1 /\ pending' = TRUE
          /\ hist' = Append(hist, [kind |-> "repair", settled |-> Settled, faults |-> broken])
          /\ UNCHANGED <<cwd, pc, dir, saved, snap, out>> /\ UNCHANGED cfgvars
Save == /\ edits < MaxEdits /\ broken = {}
        /\ content' = content + 1 /\ edits' = edits + 1 /\ pending' = TRUE /\ Note("save")
        /\ UNCHANGED <<broken, cwd, pc, dir, saved, snap, out>> /\ UNCHANGED cfgvars
\* the JSON target's section is deleted from the manifest of main (a valid edit: the package just has one target less)
DropJson == /\ edits < MaxEdits /\ broken = {} /\ json
            /\ json' = FALSE /\ dropAt' = content /\ edits' = edits + 1 /\ pending' = TRUE /\ Note("drop_json")
            /\ UNCHANGED <<broken, content, cwd, pc, dir, saved, snap, out, loaded, snapj, outj>>

Keep == UNCHANGED <<broken, content, edits, hist, json, dropAt>>

\* generateInWatchMode -> generateImpl: the input directory is the process' working directory
Start == /\ pc = "idle" /\ pending /\ pending' = FALSE /\ dir' = cwd /\ pc' = "load"
         /\ Keep /\ UNCHANGED <<cwd, saved, snap, out, loaded, snapj, outj>>

\* LoadPackage(dir): manifests of the closure; a regeneration that starts in another directory treats that one as the package
Load == /\ pc = "load"
        /\ IF dir # "main" THEN pc' = "write_wrong"
           ELSE IF "nested_manifest_error" \in broken THEN pc' = "idle"
           ELSE pc' = "fetch_main"
        /\ Keep /\ UNCHANGED <<pending, cwd, dir, saved, snap, out, loaded, snapj, outj>>

Restore(failed) == IF failed /\ RestorePolicy = "on_success" THEN UNCHANGED cwd ELSE cwd' = saved

\* fetchAndCachePackages(main): Getwd, Chdir(main), fetch, (restore)
FetchMainEnter == /\ pc = "fetch_main" /\ saved' = cwd /\ cwd' = "main" /\ pc' = "fetch_main_in"
                  /\ Keep /\ UNCHANGED <<pending, dir, snap, out, loaded, snapj, outj>>
FetchMainLeave == /\ pc = "fetch_main_in"
                  /\ LET failed == "main_fetch_error" \in broken IN
                     /\ Restore(failed) /\ pc' = IF failed THEN "idle" ELSE "fetch_nested"
                  /\ Keep /\ UNCHANGED <<pending, dir, saved, snap, out, loaded, snapj, outj>>
\* ... and the same for the nested package's own imports, inside its directory
FetchNestedEnter == /\ pc = "fetch_nested" /\ saved' = cwd /\ cwd' = "nested" /\ pc' = "fetch_nested_in"
                    /\ Keep /\ UNCHANGED <<pending, dir, snap, out, loaded, snapj, outj>>
FetchNestedLeave == /\ pc = "fetch_nested_in"
                    /\ LET failed == "nested_fetch_error" \in broken IN
                       /\ Restore(failed) /\ pc' = IF failed THEN "idle" ELSE "validate"
                    /\ Keep /\ UNCHANGED <<pending, dir, saved, snap, out, loaded, snapj, outj>>

\* updatePackageInfoFromArgs: the manifest goes into the configuration object, the targets come out of it
Validate == /\ pc = "validate"
            /\ loaded' = (loaded \/ json)
            /\ snapj' = IF ConfigPolicy = "fresh" THEN json ELSE (loaded \/ json)
            /\ IF "model_error" \in broken THEN pc' = "idle" /\ UNCHANGED snap ELSE pc' = "write" /\ snap' = content
            /\ Keep /\ UNCHANGED <<pending, cwd, dir, saved, out, outj>>
Write == /\ pc = "write" /\ out' = snap /\ pc' = "idle"
         /\ outj' = IF snapj THEN snap ELSE outj
         /\ Keep /\ UNCHANGED <<pending, cwd, dir, saved, snap, loaded, snapj>>
WriteWrong == /\ pc = "write_wrong" /\ out' = Wrong /\ pc' = "idle"
              /\ Keep /\ UNCHANGED <<pending, cwd, dir, saved, snap, loaded, snapj, outj>>

Next == (\E f \in Faults : Break(f)) \/ Repair \/ Save \/ DropJson
        \/ Start \/ Load \/ FetchMainEnter \/ FetchMainLeave \/ FetchNestedEnter \/ FetchNestedLeave \/ Validate \/ Write \/ WriteWrong
Spec == Init /\ [][Next]_vars

Quiescent == edits = MaxEdits /\ Settled
Converges == (Quiescent /\ broken = {}) => out = content /\ (json => outj = content)
\* a target that the manifest no longer configures is not written any more (a one-shot run of the final contents would not touch it)
UnconfiguredUntouched == ~json => outj <= dropAt
\* the process is back where it started whenever no regeneration is running
AtHomeWhenIdle == pc = "idle" => cwd = "main"

ExportSchedules == (Quiescent /\ broken = {}) => PrintT(<<"CASE", ToJson([hist |-> hist, converged |-> (out = content)])>>)
View == <<broken, content, edits, pending, cwd, pc, dir, saved, snap, out, json, loaded, snapj, outj, dropAt, [i \in 1..Len(hist) |-> hist[i].settled]>>
=============================================================================
