SPECIFICATION TraceSpec
CONSTANTS
  MaxEdits <- TraceMaxEdits
  MaxRegens = 8
  Invalid <- TraceInvalid
  Mode = "serialized"
  Kinds = {"any"}
CONSTRAINT HighWater
INVARIANTS NoOverlap
POSTCONDITION TraceAccepted
VIEW TView
CHECK_DEADLOCK FALSE
