SPECIFICATION TraceSpec
CONSTANTS
  MaxEdits <- TraceMaxEdits
  MaxRegens = 8
  Invalid <- TraceInvalid
  Mode = "serialized"
  Dirs = {"main", "imp"}
  WatchDirs = "rearm"
  Kinds = {"any"}
CONSTRAINT HighWater
INVARIANTS NoOverlap
POSTCONDITION TraceAccepted
VIEW TView
CHECK_DEADLOCK FALSE
