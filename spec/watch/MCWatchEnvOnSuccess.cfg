\* vacuity guard: restoring the working directory only when fetching succeeded must violate Converges / AtHomeWhenIdle
CONSTANTS MaxEdits = 3  RestorePolicy = "on_success"
INIT Init
NEXT Next
INVARIANTS Converges AtHomeWhenIdle
CHECK_DEADLOCK FALSE
