\* vacuity guard: restoring the working directory only when fetching succeeded must violate Converges / AtHomeWhenIdle
CONSTANTS MaxEdits = 3  RestorePolicy = "on_success"  ConfigPolicy = "fresh"
INIT Init
NEXT Next
INVARIANTS Converges AtHomeWhenIdle UnconfiguredUntouched
CHECK_DEADLOCK FALSE
