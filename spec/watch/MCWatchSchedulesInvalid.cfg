\* schedules that pass through an invalid intermediate package
SPECIFICATION Spec
CONSTANTS
  MaxEdits = 2
  MaxRegens = 3
  Invalid = {1}
  Mode = "concurrent"
  Kinds = {"write"}
INVARIANTS ExportSchedules
CHECK_DEADLOCK FALSE
