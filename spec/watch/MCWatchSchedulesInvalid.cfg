\* schedules that pass through an invalid intermediate package
SPECIFICATION Spec
CONSTANTS
  MaxEdits = 2
  MaxRegens = 3
  Invalid = {0}
  Mode = "concurrent"
  Dirs = {"main", "imp"}
  WatchDirs = "rearm"
  Kinds = {"write"}
INVARIANTS ExportSchedules
CHECK_DEADLOCK FALSE
