\* schedules with edits in the main directory and in an imported package's directory
SPECIFICATION Spec
CONSTANTS
  MaxEdits = 2
  MaxRegens = 3
  Invalid = {}
  Mode = "concurrent"
  Dirs = {"main", "imp"}
  WatchDirs = "rearm"
  Kinds = {"write"}
INVARIANTS ExportSchedules
CHECK_DEADLOCK FALSE
