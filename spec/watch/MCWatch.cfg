\* the repaired design: regenerations are serialized
SPECIFICATION FairSpec
CONSTANTS
  MaxEdits = 3
  MaxRegens = 6
  Invalid = {0, 2}
  Mode = "serialized"
  Dirs = {"main", "imp"}
  WatchDirs = "rearm"
  Kinds = {"write", "restore"}
INVARIANTS Converges NoOverlap NeverMixedWhenDrained
PROPERTY EventuallyDrained
VIEW View
CHECK_DEADLOCK FALSE
