\* the repaired design: regenerations are serialized
SPECIFICATION FairSpec
CONSTANTS
  MaxEdits = 3
  MaxRegens = 6
  Invalid = {2}
  Mode = "serialized"
  Kinds = {"write", "remove"}
INVARIANTS Converges NoOverlap NeverMixedWhenDrained
PROPERTY EventuallyDrained
VIEW View
CHECK_DEADLOCK FALSE
