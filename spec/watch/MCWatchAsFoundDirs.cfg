\* the code as found: referenced directories are watched only after a successful generation - a package that starts out with an
\* error in an imported package never hears of its repair: Converges is violated
SPECIFICATION Spec
CONSTANTS
  MaxEdits = 1
  MaxRegens = 3
  Invalid = {0}
  Mode = "serialized"
  Dirs = {"main", "imp"}
  WatchDirs = "onsuccess"
  Kinds = {"write"}
INVARIANTS Converges
VIEW View
CHECK_DEADLOCK FALSE
