-------------------------------- MODULE Watch --------------------------------
(***************************************************************************)
(* `yardl generate --watch` (property C20).                                *)
(*                                                                         *)
(* The package on disk is abstracted to a version number (content); some   *)
(* versions are invalid models.  Every edit (in-place write, create,       *)
(* remove, atomic rename) raises a file-system event, which (re)arms the   *)
(* 5 ms debounce timer; when it fires, a regeneration is spawned on its    *)
(* own goroutine (time.AfterFunc).  A regeneration reads and validates     *)
(* the package (one step: Read), and if it is valid writes the output      *)
(* files one after the other, then ends.  Mode says what happens when a    *)
(* regeneration is spawned while another one is running:                   *)
(*   "concurrent"  nothing - they run side by side (the code as found)     *)
(*   "serialized"  it waits for the lock and then runs (the repaired code) *)
(*   "trylock"     it gives up at once (a tempting but wrong repair)       *)
(* Edits happen in the main package directory or in the directory of an   *)
(* imported package / previous version; the watcher hears only of edits in *)
(* directories it watches, and it starts with the main directory only.     *)
(* Converges: once edits have stopped and everything has drained, the      *)
(* output files hold the generation of the final contents (if valid).      *)
(* hist records the visible choices of a behaviour; the harness replays    *)
(* them on the real watcher (gate hooks hold a regeneration between Read   *)
(* and its first write).                                                   *)
(***************************************************************************)
EXTENDS Naturals, Sequences, FiniteSets, TLC, Json

CONSTANTS MaxEdits, MaxRegens, Invalid, Mode, Kinds,
          Dirs,        \* directories of the package closure: "main" and the imported / previous-version packages
          WatchDirs    \* "onsuccess": referenced directories are watched only after a generation succeeded (the code as found)
                       \* "always": after every regeneration that could load the packages
                       \* "rearm": as "always", and a regeneration that starts watching a directory arms the timer once more,
                       \*          because that directory may have changed after it was read (the repaired code)
Files == {1, 2}
Versions == 0..MaxEdits
None == 99

VARIABLES content, prev, edits, timer, spawned, st, ver, wrote, lock, out, hist, watched
vars == <<content, prev, edits, timer, spawned, st, ver, wrote, lock, out, hist, watched>>
Regens == 1..MaxRegens

Init == /\ content = 0 /\ prev = 0 /\ edits = 0 /\ timer = FALSE
        /\ spawned = 1                                   \* the regeneration at start-up
        /\ st = [r \in Regens |-> IF r = 1 THEN "spawned" ELSE "none"]
        /\ ver = [r \in Regens |-> None]
        /\ wrote = [r \in Regens |-> 0]
        /\ lock = 0
        /\ out = [f \in Files |-> None]
        /\ hist = <<>>
        /\ watched = {"main"}

\* a version number no earlier contents had: the highest one so far is always content or prev
Fresh == (IF content > prev THEN content ELSE prev) + 1
\* an edit in directory d changes the package; the watcher only hears of it if d is being watched
\* (kind "restore": the edit puts back the contents the package had before the previous edit - a type removed and added again, an
\* undo in the editor: the files to generate are then ones that were generated before, and may or may not still be on disk)
Edit(k, d) == /\ edits < MaxEdits
              /\ content' = (IF k = "restore" THEN prev ELSE Fresh) /\ prev' = content
              /\ edits' = edits + 1 /\ timer' = (timer \/ d \in watched)
              /\ hist' = Append(hist, [a |-> "edit", kind |-> k, dir |-> d, valid |-> content' \notin Invalid])
              /\ UNCHANGED <<spawned, st, ver, wrote, lock, out, watched>>

\* a file-system event that changes nothing (attribute change, the second of the two events of one save, an editor's temporary file)
\* (bounded so that the regenerations still owed to the remaining edits always fit into MaxRegens)
Touch == /\ ~timer /\ spawned + 1 + (MaxEdits - edits) <= MaxRegens - 1 /\ timer' = TRUE
         /\ UNCHANGED <<content, prev, edits, spawned, st, ver, wrote, lock, out, hist, watched>>

TimerFire == /\ timer /\ spawned < MaxRegens
             /\ timer' = FALSE /\ spawned' = spawned + 1
             /\ st' = [st EXCEPT ![spawned + 1] = "spawned"]
             /\ UNCHANGED <<content, prev, edits, ver, wrote, lock, out, hist, watched>>

Acquire(r) == /\ st[r] = "spawned"
              /\ CASE Mode = "concurrent" -> st' = [st EXCEPT ![r] = "running"] /\ UNCHANGED lock
                   [] Mode = "serialized" -> lock = 0 /\ lock' = r /\ st' = [st EXCEPT ![r] = "running"]
                   [] Mode = "trylock" -> IF lock = 0 THEN lock' = r /\ st' = [st EXCEPT ![r] = "running"]
                                          ELSE st' = [st EXCEPT ![r] = "done"] /\ UNCHANGED lock
              /\ UNCHANGED <<content, prev, edits, timer, spawned, ver, wrote, out, hist, watched>>

Release(r) == IF lock = r THEN lock' = 0 ELSE UNCHANGED lock
HeldBefore(r) == Cardinality({ q \in Regens : q < r /\ st[q] = "read" /\ wrote[q] = 0 })

Read(r) == /\ st[r] = "running"
           /\ IF content \in Invalid
                THEN /\ st' = [st EXCEPT ![r] = "done"] /\ Release(r) /\ UNCHANGED ver     \* reported, nothing written, watcher goes on
                     /\ watched' = IF WatchDirs \in {"always", "rearm"} THEN Dirs ELSE watched
                     /\ timer' = (timer \/ (WatchDirs = "rearm" /\ watched # Dirs))
                ELSE st' = [st EXCEPT ![r] = "read"] /\ ver' = [ver EXCEPT ![r] = content] /\ UNCHANGED <<lock, watched, timer>>
           /\ UNCHANGED <<content, prev, edits, spawned, wrote, out, hist>>

Write(r) == /\ st[r] = "read" /\ wrote[r] < Cardinality(Files)
            /\ out' = [out EXCEPT ![wrote[r] + 1] = ver[r]]
            /\ wrote' = [wrote EXCEPT ![r] = wrote[r] + 1]
            /\ hist' = IF wrote[r] = 0 THEN Append(hist, [a |-> "release", rank |-> HeldBefore(r)]) ELSE hist
            /\ UNCHANGED <<content, prev, edits, timer, spawned, st, ver, lock, watched>>

End(r) == /\ st[r] = "read" /\ wrote[r] = Cardinality(Files)
          /\ st' = [st EXCEPT ![r] = "done"] /\ Release(r) /\ watched' = Dirs
          /\ timer' = (timer \/ (WatchDirs = "rearm" /\ watched # Dirs))
          /\ UNCHANGED <<content, prev, edits, spawned, ver, wrote, out, hist>>

Next == \/ \E k \in Kinds, d \in Dirs : Edit(k, d)
        \/ TimerFire \/ Touch
        \/ \E r \in Regens : Acquire(r) \/ Read(r) \/ Write(r) \/ End(r)

Spec == Init /\ [][Next]_vars
FairSpec == Spec /\ WF_vars(TimerFire) /\ \A r \in Regens : WF_vars(Acquire(r)) /\ WF_vars(Read(r)) /\ WF_vars(Write(r)) /\ WF_vars(End(r))

Drained == ~timer /\ \A r \in Regens : st[r] \in {"none", "done"}
Quiescent == edits = MaxEdits /\ Drained
\* the property
Converges == (Quiescent /\ content \notin Invalid) => \A f \in Files : out[f] = content
\* design facts the repaired code relies on
NoOverlap == Mode = "serialized" => Cardinality({ r \in Regens : st[r] \in {"running", "read"} }) <= 1
NeverMixedWhenDrained == Drained => \A f, g \in Files : out[f] = out[g]
\* the watcher never gets stuck: whatever happened, it drains
EventuallyDrained == <>[]Drained

\* schedules for the harness: the visible choices of every complete behaviour
ExportSchedules == Quiescent => PrintT(<<"CASE", ToJson([hist |-> hist, converged |-> (content \in Invalid \/ \A f \in Files : out[f] = content)])>>)
View == <<content, prev, edits, timer, spawned, st, ver, wrote, lock, out, watched>>
==============================================================================
