----------------------------- MODULE CodedStream -----------------------------
(***************************************************************************)
(* The buffered input stream of the C++ runtime (coded_stream.h,           *)
(* CodedInputStream), with a parametric buffer size B (65536 in the code,  *)
(* 4..6 here), reading a possibly truncated stream (properties C16, C01).  *)
(*                                                                         *)
(* The written stream is the concatenation of the encodings of a plan of   *)
(* operations; byte number p carries the value p (and its varint           *)
(* continuation flag), so "the bytes an operation consumed" identifies     *)
(* what it decoded.  `cut` bytes of it are available to the reader.        *)
(*                                                                         *)
(* Implementation-shaped actions, one per public read method:              *)
(*   FillBuffer (throws only when EOF was already seen), ReadByte,         *)
(*   ReadVarInt (fast path when >= MaxVar bytes are buffered, else slow    *)
(*   path incl. "refill then fast path"), ReadFixed, ReadBytes.            *)
(* Requirement: each operation either consumes exactly its own bytes or    *)
(* the reader raises; in particular a truncated stream never lets the      *)
(* whole plan complete, and the read pointer never passes the buffer end.  *)
(***************************************************************************)
EXTENDS Naturals, Sequences, FiniteSets, TLC, Json

CONSTANTS B,          \* buffer size
          MaxVar,     \* MAX_VARINT bytes of the fast-path guard
          MaxOps,     \* plan length
          ThrowOnEmptyRefill,  \* TRUE: a refill that delivers nothing raises (the repaired code); FALSE: as first found
          FastAfterRefill      \* TRUE: slow paths use the unchecked fast decoder right after a refill (as first found)

Ops == { [k |-> "byte", n |-> 1], [k |-> "var", n |-> 1], [k |-> "var", n |-> 2], [k |-> "var", n |-> 3],
         [k |-> "fix", n |-> 4], [k |-> "bytes", n |-> 3], [k |-> "bytes", n |-> B + 1] }

VARIABLES plan, cut,                      \* configuration
          buf, ptr, end, atEof, srcPos,   \* reader
          pc,                             \* index of the next operation
          consumed,                       \* per completed operation: the sequence of byte positions it decoded
          status                          \* "run" | "raised" | "done"

vars == <<plan, cut, buf, ptr, end, atEof, srcPos, pc, consumed, status>>

RECURSIVE Plans(_)
Plans(n) == IF n = 0 THEN {<<>>} ELSE { Append(p, o) : p \in Plans(n - 1), o \in Ops }

\* the written stream: per byte [pos, cont]; varint bytes but the last have cont = TRUE
RECURSIVE Written(_, _)
Written(p, start) ==
  IF p = <<>> THEN <<>>
  ELSE LET o == p[1] IN
       [i \in 1..o.n |-> [pos |-> start + i - 1, cont |-> (o.k = "var" /\ i < o.n)]] \o Written(Tail(p), start + o.n)
Total(p) == Len(Written(p, 1))
Src == SubSeq(Written(plan, 1), 1, cut)                 \* what the reader can get
Stale == [pos |-> 0, cont |-> FALSE]                    \* initial buffer content

Init == /\ plan \in UNION { Plans(n) : n \in 1..MaxOps }
        /\ cut \in 0..Total(plan)
        /\ buf = [i \in 1..B |-> Stale] /\ ptr = 1 /\ end = 1 /\ atEof = FALSE /\ srcPos = 0
        /\ pc = 1 /\ consumed = <<>> /\ status = "run"

Min(a, b) == IF a < b THEN a ELSE b

\* FillBuffer as a function of the reader state: [raised, buf, ptr, end, atEof, srcPos]
Fill(s) ==
  IF s.atEof THEN [s EXCEPT !.raised = TRUE]
  ELSE LET got == Min(B, cut - s.srcPos)
           eof == s.srcPos + B > cut                        \* istream::read hit the end of the source (eof is set only on a short read)
       IN IF got = 0 /\ ThrowOnEmptyRefill THEN [s EXCEPT !.raised = TRUE, !.atEof = TRUE]
          ELSE [s EXCEPT !.buf = [i \in 1..B |-> IF i <= got THEN Src[s.srcPos + i] ELSE s.buf[i]],
                         !.ptr = 1, !.end = got + 1, !.atEof = eof, !.srcPos = s.srcPos + got]

S0 == [raised |-> FALSE, buf |-> buf, ptr |-> ptr, end |-> end, atEof |-> atEof, srcPos |-> srcPos, out |-> <<>>]
Remaining(s) == s.end - s.ptr          \* may underflow in the code; here it can become "negative" = ptr > end (tracked by invariant)

\* read one raw byte at ptr without any check (fast paths)
Take(s) == [s EXCEPT !.ptr = @ + 1, !.out = Append(@, s.buf[IF s.ptr <= B THEN s.ptr ELSE B].pos)]
ByteAt(s) == s.buf[IF s.ptr <= B THEN s.ptr ELSE B]

\* ReadVarIntegerFastFromArray
RECURSIVE VarFast(_, _)
VarFast(s, fuel) == IF fuel = 0 THEN s
                    ELSE LET b == ByteAt(s) t == Take(s) IN IF b.cont THEN VarFast(t, fuel - 1) ELSE t

\* byte-wise loop of ReadVarIntegerSlow
RECURSIVE VarSlowLoop(_, _)
VarSlowLoop(s, fuel) ==
  IF fuel = 0 \/ s.raised THEN s
  ELSE LET s1 == IF s.ptr = s.end THEN Fill(s) ELSE s IN
       IF s1.raised THEN s1
       ELSE LET b == ByteAt(s1) t == Take(s1) IN IF b.cont THEN VarSlowLoop(t, fuel - 1) ELSE t

ReadVar(s) ==
  IF s.ptr <= s.end /\ Remaining(s) >= MaxVar THEN VarFast(s, 6)
  ELSE IF s.ptr = s.end /\ FastAfterRefill
       THEN LET s1 == Fill(s) IN IF s1.raised THEN s1 ELSE VarFast(s1, 6)       \* (as first found) refill, then the unchecked fast path
       ELSE VarSlowLoop(s, 6)

ReadByteOp(s) == LET s1 == IF s.ptr = s.end THEN Fill(s) ELSE s IN IF s1.raised THEN s1 ELSE Take(s1)

RECURSIVE ReadBytesN(_, _)
ReadBytesN(s, n) ==
  IF n = 0 \/ s.raised THEN s
  ELSE LET s1 == IF s.ptr = s.end THEN Fill(s) ELSE s IN
       IF s1.raised THEN s1
       ELSE LET k == Min(n, IF s1.end > s1.ptr THEN s1.end - s1.ptr ELSE 0) IN
            IF k = 0 THEN [s1 EXCEPT !.raised = TRUE, !.out = Append(@, 9999)]      \* would spin forever: flag as failure
            ELSE ReadBytesN([s1 EXCEPT !.ptr = @ + k, !.out = @ \o [i \in 1..k |-> s1.buf[s1.ptr + i - 1].pos]], n - k)

ReadFixedOp(s, w) ==
  IF s.ptr <= s.end /\ Remaining(s) >= w THEN ReadBytesN(s, w)
  ELSE IF s.ptr = s.end /\ FastAfterRefill
       THEN LET s1 == Fill(s) IN IF s1.raised THEN s1
                                 ELSE [s1 EXCEPT !.ptr = @ + w, !.out = [i \in 1..w |-> s1.buf[IF s1.ptr + i - 1 <= B THEN s1.ptr + i - 1 ELSE B].pos]]
       ELSE ReadBytesN(s, w)

Exec(o) == CASE o.k = "byte" -> ReadByteOp(S0) [] o.k = "var" -> ReadVar(S0) [] o.k = "fix" -> ReadFixedOp(S0, o.n) [] o.k = "bytes" -> ReadBytesN(S0, o.n)

Step == /\ status = "run" /\ pc <= Len(plan)
        /\ LET r == Exec(plan[pc]) IN
           /\ buf' = r.buf /\ ptr' = r.ptr /\ end' = r.end /\ atEof' = r.atEof /\ srcPos' = r.srcPos
           /\ IF r.raised THEN status' = "raised" /\ UNCHANGED <<pc, consumed>>
              ELSE /\ consumed' = Append(consumed, r.out) /\ pc' = pc + 1
                   /\ status' = IF pc = Len(plan) THEN "done" ELSE "run"
        /\ UNCHANGED <<plan, cut>>

Next == Step
Spec == Init /\ [][Next]_vars

-----------------------------------------------------------------------------
\* byte positions operation i of the plan is made of
RECURSIVE StartOf(_)
StartOf(i) == IF i = 1 THEN 1 ELSE StartOf(i - 1) + plan[i - 1].n
Expected(i) == [k \in 1..plan[i].n |-> StartOf(i) + k - 1]

NeverReadBeyondEnd == ptr <= end
ValuesCorrect      == \A i \in 1..Len(consumed) : consumed[i] = Expected(i)
CutImpliesError    == (status = "done") => cut = Total(plan)
\* export of the configurations in which the reader misbehaves (for the conformance harness: which operation kind meets
\* which position relative to the buffer boundary)
Misbehaves == ~NeverReadBeyondEnd \/ ~ValuesCorrect \/ ~CutImpliesError
Export == Misbehaves => PrintT(<<"CASE", ToJson([plan |-> plan, cut |-> cut, total |-> Total(plan), pc |-> pc, status |-> status,
                                                  op |-> plan[IF pc <= Len(plan) THEN pc ELSE Len(plan)], bufsize |-> B])>>)
=============================================================================
