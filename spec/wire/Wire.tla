-------------------------------- MODULE Wire --------------------------------
(***************************************************************************)
(* The compact binary encoding, transcribed from docs/reference/binary.md. *)
(* Enc(t, v) is the byte sequence of value v of type t, with map entries   *)
(* in the order given by v.  Alts(t, v) is the set of values equal to v    *)
(* up to the order of map entries (a writer may emit entries in any        *)
(* order), so EncAlts(t, v) is the set of admissible byte strings.         *)
(* StreamEnc(t, items, partition) writes a stream as blocks.               *)
(***************************************************************************)
EXTENDS YTypes

\* concatenation of a sequence of sequences, by halving (recursion depth log n, so that long vectors can be evaluated)
RECURSIVE ConcatRange(_, _, _)
ConcatRange(ss, lo, hi) == IF lo > hi THEN <<>>
                           ELSE IF lo = hi THEN ss[lo]
                           ELSE LET mid == (lo + hi) \div 2 IN ConcatRange(ss, lo, mid) \o ConcatRange(ss, mid + 1, hi)
Concat(ss) == ConcatRange(ss, 1, Len(ss))

\* value of a short digit sequence as a TLC integer (only used for 8-bit quantities)
RECURSIVE SmallOf(_)
SmallOf(d) == IF d = <<>> THEN 0 ELSE d[1] + 128 * SmallOf(Tail(d))

\* 8-bit integers are one raw byte (two's complement); all others are (zig-zag) varints
EncInt(p, i) == IF Bits(p) = 8
                THEN << IF i.neg THEN 256 - SmallOf(i.mag) ELSE SmallOf(i.mag) >>
                ELSE IF p \in SignedPrims THEN VarS(i) ELSE VarU(i.mag)

EncPrim(p, v) ==
  CASE p = "bool" -> IF v THEN <<1>> ELSE <<0>>
    [] p \in IntPrims -> EncInt(p, v)
    [] p = "float32" -> Lookup(F32Table, v.tok).b
    [] p = "float64" -> Lookup(F64Table, v.tok).b
    [] p = "complexfloat32" -> Lookup(F32Table, v.re).b \o Lookup(F32Table, v.im).b
    [] p = "complexfloat64" -> Lookup(F64Table, v.re).b \o Lookup(F64Table, v.im).b
    [] p = "string" -> LET b == Lookup(StrTable, v.tok).b IN VarSmall(Len(b)) \o b
    [] p = "date" -> VarS(Lookup(DateTable, v.tok).n)
    [] p = "time" -> VarS(Lookup(TimeTable, v.tok).n)
    [] p = "datetime" -> VarS(Lookup(DateTimeTable, v.tok).n)

RECURSIVE Enc(_, _)
Enc(t, v) ==
  CASE t.k = "prim" -> EncPrim(t.p, v)
    [] t.k = "alias" -> Enc(t.t, v)
    [] t.k = "opt" -> IF v = <<>> THEN <<0>> ELSE <<1>> \o Enc(t.t, v[1])
    [] t.k = "vec" -> VarSmall(Len(v)) \o Concat([i \in 1..Len(v) |-> Enc(t.t, v[i])])
    [] t.k = "fvec" -> Concat([i \in 1..Len(v) |-> Enc(t.t, v[i])])
    [] t.k = "farr" -> Concat([i \in 1..Len(v.data) |-> Enc(t.t, v.data[i])])
    [] t.k = "ndarr" -> Concat([i \in 1..Len(v.shape) |-> VarSmall(v.shape[i])])
                        \o Concat([i \in 1..Len(v.data) |-> Enc(t.t, v.data[i])])
    [] t.k = "dynarr" -> VarSmall(Len(v.shape)) \o Concat([i \in 1..Len(v.shape) |-> VarSmall(v.shape[i])])
                         \o Concat([i \in 1..Len(v.data) |-> Enc(t.t, v.data[i])])
    [] t.k = "map" -> VarSmall(Len(v)) \o Concat([i \in 1..Len(v) |-> Enc(t.kt, v[i][1]) \o Enc(t.vt, v[i][2])])
    [] t.k = "union" -> IF v.c = 0 THEN <<0>>
                        ELSE VarSmall(IF t.nullable THEN v.c ELSE v.c - 1) \o Enc(t.cases[v.c].t, v.v)
    [] t.k \in {"enum", "flags"} -> EncInt(t.base, v)
    [] t.k = "rec" -> Concat([i \in 1..Len(t.fields) |-> Enc(t.fields[i].t, v[i])])

-----------------------------------------------------------------------------
(* Equivalence up to map entry order *)

\* all sequences s with s[i] \in ss[i]
RECURSIVE SeqProd(_)
SeqProd(ss) == IF ss = <<>> THEN {<<>>}
               ELSE { <<x>> \o r : x \in ss[1], r \in SeqProd(Tail(ss)) }

Perms(n) == { p \in [1..n -> 1..n] : \A i, j \in 1..n : p[i] = p[j] => i = j }

RECURSIVE Alts(_, _)
Alts(t, v) ==
  CASE t.k = "alias" -> Alts(t.t, v)
    [] t.k = "opt" -> IF v = <<>> THEN {v} ELSE { <<w>> : w \in Alts(t.t, v[1]) }
    [] t.k \in {"vec", "fvec"} -> SeqProd([i \in 1..Len(v) |-> Alts(t.t, v[i])])
    [] t.k \in {"farr", "ndarr", "dynarr"} ->
         { [shape |-> v.shape, data |-> d] : d \in SeqProd([i \in 1..Len(v.data) |-> Alts(t.t, v.data[i])]) }
    [] t.k = "map" -> UNION { SeqProd([i \in 1..Len(v) |-> { <<v[p[i]][1], w>> : w \in Alts(t.vt, v[p[i]][2]) }])
                              : p \in Perms(Len(v)) }
    [] t.k = "union" -> IF v.c = 0 THEN {v} ELSE { [c |-> v.c, v |-> w] : w \in Alts(t.cases[v.c].t, v.v) }
    [] t.k = "rec" -> SeqProd([i \in 1..Len(t.fields) |-> Alts(t.fields[i].t, v[i])])
    [] OTHER -> {v}

EncAlts(t, v) == { Enc(t, w) : w \in Alts(t, v) }

-----------------------------------------------------------------------------
(* Streams: blocks of items, each block prefixed by its length; a zero length ends the stream. *)

\* partition: sequence of positive block sizes summing to Len(items)
RECURSIVE StreamBlocksEnc(_, _, _)
StreamBlocksEnc(t, items, part) ==
  IF part = <<>> THEN <<0>>
  ELSE VarSmall(part[1]) \o Concat([i \in 1..part[1] |-> Enc(t, items[i])])
       \o StreamBlocksEnc(t, SubSeq(items, part[1] + 1, Len(items)), Tail(part))

RECURSIVE Partitions(_)
Partitions(n) == IF n = 0 THEN {<<>>} ELSE UNION { { <<k>> \o p : p \in Partitions(n - k) } : k \in 1..n }

StreamEncAlts(t, items) ==
  UNION { { StreamBlocksEnc(t, w, part) : part \in Partitions(Len(items)) }
          : w \in SeqProd([i \in 1..Len(items) |-> Alts(t, items[i])]) }
=============================================================================
