\* the repaired reader: FillBuffer raises on an empty refill
CONSTANTS B = 4  MaxVar = 3  MaxOps = 3  ThrowOnEmptyRefill = TRUE  FastAfterRefill = FALSE
INIT Init
NEXT Next
INVARIANTS NeverReadBeyondEnd ValuesCorrect CutImpliesError
CHECK_DEADLOCK FALSE
