------------------------------- MODULE Header -------------------------------
(***************************************************************************)
(* Opening a stream (property C15).                                        *)
(*                                                                         *)
(* Binary:  magic "yardl" (5 bytes) . int32 LE format version (1) .        *)
(*          string(schema) = varint length . UTF-8 JSON text               *)
(* NDJSON:  first line {"yardl": {"version": 1, "schema": <schema JSON>}}  *)
(*                                                                         *)
(* A header is described symbolically: which fields are intact and which   *)
(* schema it carries; the harness concretises it around real schema text.  *)
(* The reader-open machine consumes the fields in order and ends in        *)
(* Accept or Reject; no value may be delivered before Accept.              *)
(* Accept is required iff every field is intact and the schema is the      *)
(* reader's own or one of its registered previous versions (binary: text   *)
(* equality; NDJSON: equality as JSON values, so re-serialised text with   *)
(* other whitespace / key order is still the reader's own schema).         *)
(***************************************************************************)
EXTENDS Naturals, Sequences, FiniteSets, TLC, Json

Formats == {"binary", "ndjson"}

\* what the schema field carries
Schemas == {"own", "registered_previous", "unregistered_previous", "foreign", "near_identical",
            "own_one_char_changed", "own_reserialised", "not_json"}

\* symbolic headers
BinaryHeaders ==
  [ fmt : {"binary"},
    magic : {"ok", "altered1", "altered2", "altered3", "altered4", "altered5"},
    version : {"1", "0", "2", "256", "2147483648"},
    len : {"exact", "minus1", "plus1", "huge"},
    schema : Schemas \ {"own_reserialised", "not_json"},
    trunc : {"none", "empty", "in_magic", "after_magic", "in_version", "after_version", "in_length", "in_schema"} ]

NdjsonHeaders ==
  [ fmt : {"ndjson"},
    line : {"ok", "not_json", "no_yardl_member", "yardl_not_object", "empty_file", "blank_first_line"},
    version : {"1", "0", "2", "\"1\"", "missing"},
    schema : Schemas,
    trunc : {"none"} ]

\* only single faults and a few double faults are interesting; keep the space small but complete for single faults
Weight(h) ==
  IF h.fmt = "binary"
  THEN (IF h.magic = "ok" THEN 0 ELSE 1) + (IF h.version = "1" THEN 0 ELSE 1) + (IF h.len = "exact" THEN 0 ELSE 1)
       + (IF h.schema = "own" THEN 0 ELSE 1) + (IF h.trunc = "none" THEN 0 ELSE 1)
  ELSE (IF h.line = "ok" THEN 0 ELSE 1) + (IF h.version = "1" THEN 0 ELSE 1) + (IF h.schema = "own" THEN 0 ELSE 1)

Headers == { h \in BinaryHeaders \cup NdjsonHeaders : Weight(h) <= 2 }

KnownSchema(h) == h.schema \in {"own", "registered_previous"} \/ (h.fmt = "ndjson" /\ h.schema = "own_reserialised")

WellFormed(h) ==
  IF h.fmt = "binary" THEN h.magic = "ok" /\ h.version = "1" /\ h.len = "exact" /\ h.trunc = "none"
  ELSE h.line = "ok" /\ h.version = "1"

MustAccept(h) == WellFormed(h) /\ KnownSchema(h)
\* "plus1"/"minus1" lengths shift the boundary between schema text and values: the schema text read is then not a known one
MustReject(h) == ~MustAccept(h)

-----------------------------------------------------------------------------
(* The reader-open machine (implementation-shaped: header.h / _binary.py / _ndjson.py read the fields in this order) *)
VARIABLES h, pc, delivered, verdict
vars == <<h, pc, delivered, verdict>>

Init == h \in Headers /\ pc = "start" /\ delivered = 0 /\ verdict = "none"

Truncated(at) == h.fmt = "binary" /\ h.trunc = at

Step ==
  /\ verdict = "none"
  /\ CASE pc = "start" ->
            IF h.fmt = "binary"
            THEN IF Truncated("empty") \/ Truncated("in_magic") \/ h.magic # "ok" THEN verdict' = "reject" /\ UNCHANGED pc
                 ELSE pc' = "version" /\ UNCHANGED verdict
            ELSE IF h.line # "ok" THEN verdict' = "reject" /\ UNCHANGED pc ELSE pc' = "version" /\ UNCHANGED verdict
       [] pc = "version" ->
            IF Truncated("after_magic") \/ Truncated("in_version") \/ h.version # "1" THEN verdict' = "reject" /\ UNCHANGED pc
            ELSE pc' = "schema" /\ UNCHANGED verdict
       [] pc = "schema" ->
            IF Truncated("after_version") \/ Truncated("in_length") \/ Truncated("in_schema") \/ (h.fmt = "binary" /\ h.len # "exact")
               \/ ~KnownSchema(h)
            THEN verdict' = "reject" /\ UNCHANGED pc
            ELSE verdict' = "accept" /\ UNCHANGED pc
  /\ UNCHANGED <<h, delivered>>

Deliver == verdict = "accept" /\ delivered < 1 /\ delivered' = delivered + 1 /\ UNCHANGED <<h, pc, verdict>>

Next == Step \/ Deliver
Spec == Init /\ [][Next]_vars

AcceptOnlyKnown     == verdict = "accept" => MustAccept(h)
RejectOnlyBad       == verdict = "reject" => MustReject(h)
NoValueBeforeAccept == delivered > 0 => verdict = "accept"
\* A schema that is the reader's own as a JSON value but not as text (other whitespace / member order) is accepted by readers
\* that compare parsed JSON order-insensitively (Python) and refused by those that do not (C++ ordered_json): the property only
\* demands refusal of *other* schemas, so this case is exported as "either".
Unspecified(x) == x.fmt = "ndjson" /\ x.schema = "own_reserialised" /\ WellFormed(x)
Export == verdict # "none" /\ delivered = 0 =>
            PrintT(<<"CASE", ToJson([h |-> h, required |-> IF Unspecified(h) THEN "either" ELSE verdict])>>)
=============================================================================
