------------------------------- MODULE Ndjson -------------------------------
(***************************************************************************)
(* The NDJSON mapping of values, transcribed from docs/reference/ndjson.md.*)
(* Json(t, v) is a JSON *tree* whose leaves stay symbolic:                 *)
(*   [j |-> "int", neg, mag]  [j |-> "f", tok]  [j |-> "s", tok]           *)
(*   [j |-> "date"|"time"|"datetime", tok]  [j |-> "bool", b]  [j |-> "null"]*)
(*   [j |-> "arr", items]  [j |-> "obj", members |-> Seq(<<key, tree>>)]    *)
(* (keys are field names or string leaves).  The harness renders a tree to *)
(* a JSON value mechanically; it has no knowledge of yardl types.          *)
(***************************************************************************)
EXTENDS YTypes

JInt(i)   == [j |-> "int", neg |-> i.neg, mag |-> i.mag]
JSmall(n) == [j |-> "int", neg |-> FALSE, mag |-> NatDigits(n)]
JF(tok)   == [j |-> "f", tok |-> tok]
JS(tok)   == [j |-> "s", tok |-> tok]
JLit(s)   == [j |-> "lit", s |-> s]                 \* a literal string known to the spec (symbol, tag)
JNull     == [j |-> "null"]
JArr(xs)  == [j |-> "arr", items |-> xs]
JObj(ms)  == [j |-> "obj", members |-> ms]

\* JSON datatypes a type's values may serialize to
RECURSIVE Kinds(_)
Kinds(t) ==
  CASE t.k = "alias" -> Kinds(t.t)
    [] t.k = "prim" -> (CASE t.p = "bool" -> {"boolean"}
                          [] t.p \in IntPrims \cup FloatPrims -> {"number"}
                          [] t.p \in ComplexPrims -> {"array"}
                          [] OTHER -> {"string"})                \* string, date, time, datetime
    [] t.k = "enum" -> {"string", "number"}
    [] t.k = "flags" -> {"array", "number"}
    [] t.k \in {"vec", "fvec", "farr"} -> {"array"}
    [] t.k \in {"ndarr", "dynarr", "rec"} -> {"object"}
    [] t.k = "map" -> IF Resolve(t.kt).p = "string" THEN {"object"} ELSE {"array"}
    [] t.k = "opt" -> Kinds(t.t) \cup {"null"}
    \* a union (as a case of another union it can only be reached through an alias): the kinds of its cases if it is written
    \* without tags, i.e. if those are pairwise distinct; otherwise an object with the tag as its only key; null stays null
    [] t.k = "union" -> LET ks == [i \in 1..Len(t.cases) |-> Kinds(t.cases[i].t)]
                            distinct == /\ \A i, j \in 1..Len(t.cases) : i # j => ks[i] \cap ks[j] = {}
                                        /\ (t.nullable => \A i \in 1..Len(t.cases) : "null" \notin ks[i])
                        IN (IF distinct THEN UNION { ks[i] : i \in 1..Len(t.cases) } ELSE {"object"})
                           \cup (IF t.nullable THEN {"null"} ELSE {})

\* a union is written without tags iff its cases serialize to pairwise distinct JSON datatypes
\* (the null case of a nullable union counts as a case that serializes to null: a case that may itself be null - an alias of an
\* optional or of a nullable union - would otherwise be indistinguishable from it)
Untagged(t) == /\ \A i, j \in 1..Len(t.cases) : i # j => Kinds(t.cases[i].t) \cap Kinds(t.cases[j].t) = {}
               /\ (t.nullable => \A i \in 1..Len(t.cases) : "null" \notin Kinds(t.cases[i].t))

IsNullable(t) == LET r == Resolve(t) IN r.k = "opt" \/ (r.k = "union" /\ r.nullable)
IsNullValue(t, v) == LET r == Resolve(t) IN IF r.k = "opt" THEN v = <<>> ELSE IF r.k = "union" THEN v.c = 0 ELSE FALSE

SymbolOf(t, v) == { i \in 1..Len(t.syms) : t.syms[i].v = v }

\* flags: the set of symbols whose bit is set, if the value has no other bits; values are built with OrBits, so compare
\* flags: the symbols are tried in declaration order against the bits that are still unaccounted for; a symbol is named when
\* *all* its bits are among them (a symbol of several bits is not named when only some of its bits are set); if bits remain
\* that no symbol covers, the value is written as an integer (ndjson.md; cpp/ndjson/ndjson.go:writeFlagsConverters)
FlagBitsOf(t, v) == LET B == UNION { t.syms[i].bits : i \in 1..Len(t.syms) } \cup {5}
                    IN CHOOSE S \in SUBSET B : Nat0(OrBits(S)) = v
RECURSIVE Greedy(_, _, _, _)
Greedy(t, i, rem, acc) == IF i > Len(t.syms) THEN [names |-> acc, rem |-> rem]
                          ELSE IF t.syms[i].bits # {} /\ t.syms[i].bits \subseteq rem
                               THEN Greedy(t, i + 1, rem \ t.syms[i].bits, Append(acc, i))
                               ELSE Greedy(t, i + 1, rem, acc)
FlagsOf(t, v) == LET g == Greedy(t, 1, FlagBitsOf(t, v), <<>>) IN IF g.rem = {} THEN {g.names} ELSE {}

RECURSIVE Json(_, _)
Json(t, v) ==
  CASE t.k = "alias" -> Json(t.t, v)
    [] t.k = "prim" -> (CASE t.p = "bool" -> [j |-> "bool", b |-> v]
                          [] t.p \in IntPrims -> JInt(v)
                          [] t.p \in FloatPrims -> JF(v.tok)
                          [] t.p \in ComplexPrims -> JArr(<<JF(v.re), JF(v.im)>>)
                          [] t.p = "string" -> JS(v.tok)
                          [] OTHER -> [j |-> t.p, tok |-> v.tok])
    [] t.k = "opt" -> IF v = <<>> THEN JNull ELSE Json(t.t, v[1])
    [] t.k \in {"vec", "fvec"} -> JArr([i \in 1..Len(v) |-> Json(t.t, v[i])])
    [] t.k = "farr" -> JArr([i \in 1..Len(v.data) |-> Json(t.t, v.data[i])])
    [] t.k \in {"ndarr", "dynarr"} ->
         JObj(<< <<"shape", JArr([i \in 1..Len(v.shape) |-> JSmall(v.shape[i])])>>,
                 <<"data", JArr([i \in 1..Len(v.data) |-> Json(t.t, v.data[i])])>> >>)
    [] t.k = "map" -> IF Resolve(t.kt).p = "string"
                      THEN JObj([i \in 1..Len(v) |-> <<JS(v[i][1].tok), Json(t.vt, v[i][2])>>])
                      ELSE JArr([i \in 1..Len(v) |-> JArr(<<Json(t.kt, v[i][1]), Json(t.vt, v[i][2])>>)])
    [] t.k = "union" -> IF v.c = 0 THEN JNull
                        ELSE IF Untagged(t) THEN Json(t.cases[v.c].t, v.v)
                        ELSE JObj(<< <<t.cases[v.c].tag, Json(t.cases[v.c].t, v.v)>> >>)
    [] t.k = "enum" -> IF SymbolOf(t, v) # {} THEN JLit(t.syms[CHOOSE i \in SymbolOf(t, v) : TRUE].s) ELSE JInt(v)
    [] t.k = "flags" -> IF FlagsOf(t, v) # {}
                        THEN LET S == CHOOSE S \in FlagsOf(t, v) : TRUE
                             IN JArr([k \in 1..Len(S) |-> JLit(t.syms[S[k]].s)])
                        ELSE JInt(v)
    [] t.k = "rec" -> JObj(SelectSeq([i \in 1..Len(t.fields) |->
                                        IF IsNullable(t.fields[i].t) /\ IsNullValue(t.fields[i].t, v[i])
                                        THEN <<>> ELSE <<t.fields[i].n, Json(t.fields[i].t, v[i])>>],
                                     LAMBDA m : m # <<>>))

\* values that JSON cannot carry (non-finite floats) anywhere inside
RECURSIVE Jsonable(_, _)
Jsonable(t, v) ==
  CASE t.k = "alias" -> Jsonable(t.t, v)
    [] t.k = "prim" -> (CASE t.p \in FloatPrims -> v.tok \notin NonFinite
                          [] t.p \in ComplexPrims -> v.re \notin NonFinite /\ v.im \notin NonFinite
                          [] OTHER -> TRUE)
    [] t.k = "opt" -> v = <<>> \/ Jsonable(t.t, v[1])
    [] t.k \in {"vec", "fvec"} -> \A i \in 1..Len(v) : Jsonable(t.t, v[i])
    [] t.k \in {"farr", "ndarr", "dynarr"} -> \A i \in 1..Len(v.data) : Jsonable(t.t, v.data[i])
    [] t.k = "map" -> \A i \in 1..Len(v) : Jsonable(t.vt, v[i][2])
    [] t.k = "union" -> v.c = 0 \/ Jsonable(t.cases[v.c].t, v.v)
    [] t.k = "rec" -> \A i \in 1..Len(t.fields) : Jsonable(t.fields[i].t, v[i])
    [] OTHER -> TRUE
=============================================================================
