\* the reader as first found: an empty refill does not raise; TLC exports every misbehaving configuration
CONSTANTS B = 4  MaxVar = 3  MaxOps = 3  ThrowOnEmptyRefill = FALSE  FastAfterRefill = TRUE
INIT Init
NEXT Next
INVARIANTS Export
CHECK_DEADLOCK FALSE
