CONSTANTS MaxLen = 4  MaxItems = 2
INIT Init
NEXT Next
INVARIANTS NeverFails DeliversWhatWasWritten Export
CHECK_DEADLOCK FALSE
