INIT Init
NEXT Next
INVARIANTS AcceptOnlyKnown RejectOnlyBad NoValueBeforeAccept Export
CHECK_DEADLOCK FALSE
