------------------------------- MODULE Schema -------------------------------
(***************************************************************************)
(* The schema embedded in every stream (property C04).                     *)
(*                                                                         *)
(* An edit of a model is                                                   *)
(*   affecting  if it changes how some value of the protocol is encoded or *)
(*              which values exist: the embedded schema text must change;  *)
(*   neutral    if it is one of the edits the property lists as unable to  *)
(*              affect encoding (comments, computed fields, unrelated      *)
(*              definitions, definition order, file layout): the text must *)
(*              stay the same;                                             *)
(*   free       otherwise (e.g. introducing an alias): nothing is required.*)
(* For type-level edits the class is *computed* from the wire              *)
(* specification: Affects(a, b) holds iff the value sets differ or some    *)
(* common value has different encodings (Wire.tla).  Definition-level      *)
(* edits are classified by the table below.  The concrete model pairs are  *)
(* those of the evolution catalogue (lib/evolib.py) plus the neutral edits *)
(* named here.                                                             *)
(***************************************************************************)
EXTENDS Wire, TLC, Json

P(p) == Prim(p)
ValSet(t) == { Vals(t)[i] : i \in 1..Len(Vals(t)) }
Affects(a, b) == ValSet(a) # ValSet(b) \/ \E v \in ValSet(a) \cap ValSet(b) : Enc(a, v) # Enc(b, v)

U2 == Union(<<Case("int32", P("int32")), Case("string", P("string"))>>, FALSE)
U3 == Union(<<Case("int32", P("int32")), Case("string", P("string")), Case("float32", P("float32"))>>, FALSE)
\* the type-level edits of lib/evolib.py (TYPE_EDITS) as pairs of types
TypeEdits ==
  << [e |-> "int_to_long", a |-> P("int32"), b |-> P("int64")],
     [e |-> "int_to_float", a |-> P("int32"), b |-> P("float32")],
     [e |-> "int_to_string", a |-> P("int32"), b |-> P("string")],
     [e |-> "float_to_double", a |-> P("float32"), b |-> P("float64")],
     [e |-> "string_to_int", a |-> P("string"), b |-> P("int32")],
     [e |-> "make_optional", a |-> P("int32"), b |-> Opt(P("int32"))],
     [e |-> "optional_to_union", a |-> Opt(P("int32")), b |-> Union(<<Case("int32", P("int32")), Case("string", P("string"))>>, TRUE)],
     [e |-> "add_union_case", a |-> U2, b |-> U3],
     [e |-> "remove_union_case", a |-> U3, b |-> U2],
     [e |-> "scalar_to_vector", a |-> P("int32"), b |-> Vec(P("int32"))],
     [e |-> "scalar_to_array", a |-> P("int32"), b |-> DynArr(P("int32"))],
     [e |-> "vector_to_scalar", a |-> Vec(P("int32")), b |-> P("int32")],
     [e |-> "vector_to_fixed_vector", a |-> Vec(P("int32")), b |-> FVec(P("int32"), 2)],
     [e |-> "fixed_vector_length", a |-> FVec(P("int32"), 2), b |-> FVec(P("int32"), 3)],
     [e |-> "array_rank", a |-> NdArr(P("float32"), 2), b |-> NdArr(P("float32"), 3)],
     [e |-> "array_shape", a |-> FArr(P("float32"), <<2, 3>>), b |-> FArr(P("float32"), <<3, 2>>)],
     [e |-> "array_fixed_to_nd", a |-> FArr(P("float32"), <<2, 3>>), b |-> NdArr(P("float32"), 2)],
     [e |-> "map_key_type", a |-> Map(P("string"), P("int32")), b |-> Map(P("int32"), P("int32"))],
     [e |-> "map_value_type", a |-> Map(P("string"), P("int32")), b |-> Map(P("string"), P("uint32"))],
     [e |-> "signedness", a |-> P("int32"), b |-> P("uint32")],
     [e |-> "uint64_to_size", a |-> P("uint64"), b |-> P("size")],
     [e |-> "wrap_in_alias", a |-> P("int32"), b |-> Alias(P("int32"))] >>

TypeClass(x) == IF Affects(x.a, x.b) THEN "affecting" ELSE "free"

\* computed fields that mention named types which nothing else in the protocol uses (cast targets, type patterns): computed fields
\* are not part of the encoding, so neither they nor the types only they mention may show in the schema
ComputedFieldEdits == {"add_computed_field_cast_to_alias", "add_computed_field_switch_pattern"}
DefClass(e) ==
  CASE e \in ComputedFieldEdits -> "neutral"
    [] e \in {"add_comments", "comments_everywhere", "change_comments", "reorder_definitions", "add_unused_type", "add_computed_field", "change_computed_field",
              "add_unrelated_protocol", "split_files", "identity"} -> "neutral"
    [] e \in {"add_optional_field", "remove_optional_field", "reorder_fields", "add_required_field", "remove_required_field",
              "add_stream_step", "add_vector_step", "add_optional_step", "remove_step", "reorder_steps", "rename_step", "rename_field",
              "enum_add_value", "enum_remove_value", "enum_change_value", "enum_base_type", "flags_add_value", "flags_change_value",
              "generic_add_parameter", "generic_remove_parameter", "change_generic_argument",
              "imported_type_field_type", "imported_clashing_type_field_type", "local_clashing_type_field_type"} -> "affecting"
    [] OTHER -> "free"
DefEdits == ComputedFieldEdits \cup {"add_comments", "comments_everywhere", "change_comments", "imported_type_field_type", "imported_clashing_type_field_type",
             "local_clashing_type_field_type", "reorder_definitions", "add_unused_type", "add_computed_field", "change_computed_field", "add_unrelated_protocol",
             "split_files", "identity", "add_optional_field", "remove_optional_field", "reorder_fields", "add_required_field",
             "remove_required_field", "add_stream_step", "add_vector_step", "add_optional_step", "remove_step", "reorder_steps", "rename_step",
             "rename_field", "enum_add_value", "enum_remove_value", "enum_change_value", "enum_base_type", "flags_add_value", "flags_change_value",
             "generic_add_parameter", "generic_remove_parameter", "rename_with_alias", "add_alias", "remove_alias"}

Positions == {"step", "stream_item", "field", "alias", "vector_item", "optional", "vector_of_optional", "field_of_nested_record",
              \* reached only through a type argument of a generic (see Evolution.tla): the closure must follow type arguments of every
              \* instantiation, not only of the first one it meets
              "generic_arg", "second_instantiation", "third_instantiation", "nested_generic_arg", "generic_alias_arg",
              "second_instantiation_alias", "second_instantiation_in_record", "union_case_record", "map_value_record",
              \* the edited type sits behind an alias that the protocol's closure reaches through exactly one kind of reference
              "map_key_alias", "map_value_alias", "array_item_alias", "fixed_vector_item_alias", "union_case_alias", "generic_arg_alias",
              "optional_alias", "stream_item_alias"}

ASSUME \A i \in 1..Len(TypeEdits) : PrintT(<<"CASE", ToJson([kind |-> "type", edit |-> TypeEdits[i].e, a |-> TypeEdits[i].a, b |-> TypeEdits[i].b,
                                                              class |-> TypeClass(TypeEdits[i]), positions |-> Positions])>>)
ASSUME \A e \in DefEdits : PrintT(<<"CASE", ToJson([kind |-> "definition", edit |-> e, class |-> DefClass(e)])>>)
=============================================================================
