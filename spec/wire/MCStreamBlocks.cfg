\* all partitions of 4 items x all sequences of single / batch reads with capacities 1..3
CONSTANTS N = 4  MaxCap = 3
INIT Init
NEXT Next
INVARIANTS TypeOK NoReadPastTerminator DeliveredIsPrefix DoneMeansAll MoreMeansProgress Export
CHECK_DEADLOCK FALSE
