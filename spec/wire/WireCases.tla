------------------------------ MODULE WireCases ------------------------------
(***************************************************************************)
(* The bounded universe of (type, value) cases for the wire properties     *)
(* C01/C02/C03/C14/C16/C17 and its export.  This module is "constant       *)
(* level": TLC evaluates the spec functions Enc / Json over the universe,  *)
(* checks the sanity properties below (ASSUMEs) and writes one NDJSON      *)
(* record per case, which the harness turns into one execution of the      *)
(* real generated code per case and leg.                                   *)
(*   IOEnv.VERIF_OUT    output file                                        *)
(*   IOEnv.VERIF_DEPTH  "1" | "2"   type nesting depth                     *)
(*   IOEnv.VERIF_TIER   "quick" | "thorough"                               *)
(*   IOEnv.VERIF_MOD, IOEnv.VERIF_REM  depth-2 sampling: keep every        *)
(*                      MOD-th type starting at REM (seeded by harness)    *)
(***************************************************************************)
EXTENDS Plan, Ndjson

S2N(s) == CHOOSE n \in 0..100000 : ToString(n) = s
Depth == S2N(IOEnv.VERIF_DEPTH)
Quick == IOEnv.VERIF_TIER = "quick"          \* quick tier: fewer element types, one orientation per union pair
Mod   == S2N(IOEnv.VERIF_MOD)
Rem   == S2N(IOEnv.VERIF_REM)

P(p) == Prim(p)
PrimTypes == { P(p) : p \in Prims }

E3 == Enum("int32", << Sym("a", SmallInt(0)), Sym("b", SmallInt(1)), Sym("c", SmallInt(5)) >>)
EU8 == Enum("uint8", << Sym("x", SmallInt(200)), Sym("y", SmallInt(3)) >>)
EI64 == Enum("int64", << Sym("lo", Int(TRUE, Pow2(63))), Sym("hi", Nat0(AllOnes(63))), Sym("neg", NegSmall(2)) >>)
F3 == Flags("int32", << FlagSym("r", 0), FlagSym("w", 1), FlagSym("x", 2) >>)
FU64 == Flags("uint64", << FlagSym("low", 0), FlagSym("top", 63), FlagSym("mid", 30) >>)
\* the base type of an enum / flags named through an alias of the integer primitive (`base: Code` with `Code: uint16`): the
\* encoding is that of the primitive the alias stands for
WithAliasedBase(e) == [k |-> e.k, base |-> e.base, syms |-> e.syms, balias |-> TRUE]
EU16 == Enum("uint16", << Sym("a", SmallInt(1)), Sym("big", SmallInt(300)), Sym("top", Nat0(AllOnes(16))) >>)
AliasedBases == { WithAliasedBase(EU8), WithAliasedBase(EU16), WithAliasedBase(FU64), WithAliasedBase(EI64),
                  Vec(WithAliasedBase(EU16)), Rec(<< Field("e", WithAliasedBase(EU8)), Field("f", WithAliasedBase(FU64)) >>),
                  Union(<<Case("code", WithAliasedBase(EU16)), Case("bool", P("bool"))>>, TRUE) }
\* a symbol of two bits declared before the symbols of its single bits
FM == Flags("uint8", << FlagSymM("readWrite", {0, 1}), FlagSym("read", 0), FlagSym("exec", 2) >>)
R2 == Rec(<< Field("x", P("uint64")), Field("y", P("int32")) >>)                 \* the Point of binary.md
ROpt == Rec(<< Field("a", P("int32")), Field("o", Opt(P("int32"))), Field("s", Opt(P("string"))),
               Field("u", Union(<<Case("int32", P("int32")), Case("string", P("string"))>>, TRUE)) >>)
REmpty == Rec(<< Field("only", P("bool")) >>)
\* a record with a union field whose cases share a JSON kind (spelled generically, the first case becomes a type parameter)
RGenU == Rec(<< Field("a", P("int32")), Field("u", Union(<<Case("float64", P("float64")), Case("int32", P("int32"))>>, FALSE)),
                Field("w", Union(<<Case("string", P("string")), Case("date", P("date"))>>, TRUE)) >>)
\* records made of fixed-size fields only ("plain old data"): candidates for memcpy / structured-dtype fast paths
RPod == Rec(<< Field("a", P("uint8")), Field("b", P("float64")) >>)
RPod2 == Rec(<< Field("c", P("complexfloat32")), Field("f", FVec(P("int8"), 3)), Field("g", P("float32")) >>)
PodContainers == UNION { { Vec(r), FVec(r, 2), FArr(r, <<2, 2>>), NdArr(r, 1), NdArr(r, 2), DynArr(r), Opt(r), Map(P("string"), r) } : r \in {RPod, RPod2} }
\* records whose fields are other named types (they stay named when the record is spelled as a generic instance)
RNamed == { Rec(<< Field("f", x), Field("g", P("int8")) >>) : x \in {E3, F3, Alias(P("int32")), Alias(Vec(P("float32"))), R2} }
          \cup { Vec(Rec(<< Field("f", E3), Field("g", F3) >>)), Opt(Rec(<< Field("h", Alias(P("string"))) >>)),
                 Alias(Rec(<< Field("f", E3), Field("g", P("int8")) >>)), Alias(Rec(<< Field("p", F3), Field("q", Alias(P("int32"))) >>)),
                 Alias(Vec(Rec(<< Field("f", EU8) >>))) }
RECURSIVE IsUnionishT(_)
IsUnionishT(t) == t.k \in {"opt", "union"} \/ (t.k = "alias" /\ IsUnionishT(t.t))
\* every shape behind a named alias, at the places where a generator may look at the written type instead of the type the alias
\* stands for: record field, vector item, map value, alias of the alias, array item, union case, optional
AliasedShapes == { Opt(P("int32")), Opt(P("string")), Union(<<Case("int32", P("int32")), Case("string", P("string"))>>, TRUE),
                   Union(<<Case("int32", P("int32")), Case("string", P("string"))>>, FALSE), Vec(P("int32")), FVec(P("float32"), 2),
                   NdArr(P("int32"), 2), DynArr(P("float32")), FArr(P("int32"), <<2, 2>>), Map(P("string"), P("int32")), E3, F3, R2, Opt(R2),
                   Vec(Opt(P("int32"))), P("date"), P("complexfloat32") }
AliasedAt == UNION { { Rec(<< Field("a", P("int32")), Field("f", Alias(s)), Field("z", P("int8")) >>),
                       Rec(<< Field("f", Alias(Alias(s))), Field("g", Alias(s)) >>),
                       Vec(Alias(s)), Map(P("string"), Alias(s)), Alias(Alias(s)), FVec(Alias(s), 2) } : s \in AliasedShapes }
             \cup UNION { { Opt(Alias(s)), Union(<<Case("al" \o (IF s.k = "prim" THEN s.p ELSE s.k), Alias(s)), Case("bool", P("bool"))>>, TRUE), NdArr(Alias(s), 1),
                            Rec(<< Field("o", Opt(Alias(s))), Field("v", Vec(Alias(s))) >>) } : s \in { x \in AliasedShapes : ~IsUnionishT(x) } }
\* optionals and unions directly inside every container (a generator that takes "the first case" of a container's item type for the
\* item type is right for every other item type)
Unionish == { Opt(P("int32")), Opt(P("string")), Opt(R2), Opt(P("float32")), Opt(P("uint8")), Opt(P("complexfloat64")),
              Rec(<< Field("value", P("float32")), Field("weight", Opt(P("float32"))) >>), Union(<<Case("int32", P("int32")), Case("string", P("string"))>>, TRUE),
              Union(<<Case("int32", P("int32")), Case("string", P("string"))>>, FALSE), Union(<<Case("float32", P("float32")), Case("rec", R2)>>, FALSE) }
ContainersOfUnionish == UNION { { Vec(u), FVec(u, 2), Map(P("string"), u), Map(P("int32"), u), DynArr(u), NdArr(u, 1), FArr(u, <<2>>),
                                  Rec(<< Field("m", Map(P("string"), u)), Field("v", Vec(u)) >>) } : u \in Unionish }
\* unions whose cases are containers of optionals / unions (a case that is a container of a union is not "a union inside a union")
UnionsOfContainers == { Union(<<Case("int32", P("int32")), Case("vo", Vec(Opt(P("int32"))))>>, FALSE),
                        Union(<<Case("mo", Map(P("string"), Opt(P("int32")))), Case("bool", P("bool"))>>, TRUE),
                        Union(<<Case("vu", Vec(Union(<<Case("int32", P("int32")), Case("string", P("string"))>>, FALSE))), Case("string", P("string"))>>, FALSE) }
\* unions one of whose cases is an alias of a union / optional ("unions may not *immediately* contain other unions"): the outer
\* union's tagging depends on the JSON kinds the inner one can take, which in turn depend on whether the inner one is tagged
UIS == Union(<<Case("int32", P("int32")), Case("string", P("string"))>>, FALSE)           \* written without tags
UISn == Union(<<Case("int32", P("int32")), Case("string", P("string"))>>, TRUE)
UFD == Union(<<Case("float32", P("float32")), Case("float64", P("float64"))>>, FALSE)      \* written with tags
UnionsOfAliasedUnions ==
  { Union(<<Case("float32", P("float32")), Case("innerIS", Alias(UIS))>>, FALSE),      \* number vs {number, string}: tagged
    Union(<<Case("bool", P("bool")), Case("innerIS", Alias(UIS))>>, TRUE),             \* boolean vs {number, string}: untagged
    Union(<<Case("bool", P("bool")), Case("innerISn", Alias(UISn))>>, FALSE),           \* inner may be null
    Union(<<Case("bool", P("bool")), Case("innerISn", Alias(UISn))>>, TRUE),            \* both may be null
    Union(<<Case("string", P("string")), Case("innerFD", Alias(UFD))>>, FALSE),        \* string vs object: untagged outside, tagged inside
    Union(<<Case("rec", R2), Case("innerFD", Alias(UFD))>>, FALSE),                    \* object vs object: tagged twice
    Union(<<Case("int32", P("int32")), Case("maybeS", Alias(Opt(P("string"))))>>, FALSE),
    Union(<<Case("string", P("string")), Case("maybeS", Alias(Opt(P("string"))))>>, TRUE),
    Vec(Union(<<Case("bool", P("bool")), Case("innerIS", Alias(UIS))>>, FALSE)),
    Rec(<< Field("a", P("int8")), Field("u", Union(<<Case("float32", P("float32")), Case("innerISn", Alias(UISn))>>, TRUE)) >>) }
NamedTypes == AliasedBases \cup UnionsOfAliasedUnions \cup RNamed \cup PodContainers \cup AliasedAt \cup ContainersOfUnionish \cup UnionsOfContainers \cup { RGenU, Vec(RGenU), RPod, RPod2, E3, EU8, EI64, F3, FU64, FM, Vec(FM), Rec(<< Field("m", FM), Field("k", P("int8")) >>), R2, ROpt, REmpty, Alias(P("int32")), Alias(P("string")), Alias(Vec(P("float32"))) }

KeyTypes == { P("string"), P("int32"), P("uint64"), P("int8"), Alias(P("string")) }

\* element types allowed inside arrays (numpy-representable leaves) are not restricted by yardl; keep all
Ctor1(e) ==
  { Opt(e), Vec(e), FVec(e, 2), FVec(e, 3), FArr(e, <<2, 3>>), FArr(e, <<1>>), NdArr(e, 1), NdArr(e, 2), NdArr(e, 3), DynArr(e),
    Alias(e), Rec(<< Field("f", e), Field("g", P("int8")) >>) }
  \cup { Map(kt, e) : kt \in KeyTypes }

\* union cases may not themselves be unions/optionals
RECURSIVE IsUnionish(_)
IsUnionish(t) == t.k \in {"opt", "union"} \/ (t.k = "alias" /\ IsUnionish(t.t))

PrimTag(t) == t.p
\* representatives of every JSON-kind class, as union cases with explicit tags (shorthand tags for primitives)
KindReps == << Case("bool", P("bool")), Case("int32", P("int32")), Case("float64", P("float64")), Case("string", P("string")),
               Case("date", P("date")), Case("time", P("time")), Case("datetime", P("datetime")),
               Case("complexfloat32", P("complexfloat32")), Case("uint64", P("uint64")), Case("float32", P("float32")),
               Case("anEnum", E3), Case("someFlags", F3), Case("vec", Vec(P("int32"))), Case("fvec", FVec(P("float64"), 2)),
               Case("farr", FArr(P("int32"), <<2, 2>>)), Case("ndarr", NdArr(P("int32"), 2)), Case("dynarr", DynArr(P("float32"))),
               Case("smap", Map(P("string"), P("int32"))), Case("imap", Map(P("int32"), P("string"))),
               Case("rec", R2), Case("alias", Alias(P("int32"))), Case("strvec", Vec(P("string"))) >>

Unions2 == IF Quick
           THEN UNION { { Union(<<KindReps[i], KindReps[j]>>, (i + j) % 2 = 0) : j \in (i + 1)..Len(KindReps) } : i \in 1..Len(KindReps) }
           ELSE { Union(<<KindReps[i], KindReps[j]>>, nl) : i \in 1..Len(KindReps), j \in 1..Len(KindReps), nl \in BOOLEAN }
ElemTypes == IF Quick THEN { P(p) : p \in {"int32", "uint64", "int8", "string", "float32", "complexfloat64", "bool", "date", "uint16"} }
             ELSE PrimTypes
Unions2Valid == { u \in Unions2 : u.cases[1] # u.cases[2] /\ Resolve(u.cases[1].t) # Resolve(u.cases[2].t) }
Unions3 == { Union(<<KindReps[2], KindReps[4], KindReps[i]>>, nl) : i \in {1, 3, 5, 11, 13, 20}, nl \in BOOLEAN }

Depth1 == UNION { Ctor1(e) : e \in ElemTypes } \cup NamedTypes \cup Unions2Valid \cup Unions3

\* depth 2: constructors applied to a sample of depth-1 types
Sampled(S) == LET q == SetToSeq(S) IN { q[i] : i \in { j \in 1..Len(q) : j % Mod = Rem } }
Depth2 == UNION { { c \in Ctor1(e) : ~(c.k = "opt" /\ IsUnionish(e)) } : e \in Sampled(Depth1) }

\* two container levels stacked directly over an optional / a union (depth 3): in the string syntax these are chains of postfix
\* operators (`int?**`, `string->int?*`, `int?*3*2`, `int?[]*`) whose parse must nest exactly like the expanded nodes
Wrap(x, e) == CASE x = "vec" -> Vec(e) [] x = "fvec" -> FVec(e, 2) [] x = "fvec3" -> FVec(e, 3) [] x = "map" -> Map(P("string"), e)
                [] x = "dynarr" -> DynArr(e) [] x = "ndarr" -> NdArr(e, 2) [] x = "farr" -> FArr(e, <<2>>) [] x = "opt" -> Opt(e)
Wrappers == {"vec", "fvec", "fvec3", "map", "dynarr", "ndarr", "farr"}
Stacked == { Wrap(x, Wrap(y, Opt(P("int32")))) : x \in Wrappers, y \in Wrappers }
           \cup { Wrap(x, Wrap(y, UISn)) : x \in {"vec", "map"}, y \in {"vec", "map", "fvec"} }
           \cup { Wrap(x, Wrap("opt", Wrap(y, Opt(P("string"))))) : x \in {"vec", "map"}, y \in {"vec", "map"} }
           \cup { Wrap("vec", Wrap("vec", Wrap("vec", Opt(P("int32"))))), Wrap("map", Wrap("map", Opt(P("int32")))) }

Universe == IF Depth = 0 THEN PrimTypes
            ELSE IF Depth = 1 THEN PrimTypes \cup Depth1
            ELSE IF Depth = 3 THEN Stacked
            ELSE Depth2

MaxVals == IF Depth >= 2 THEN 3 ELSE 10

CasesOf(t) == LET vs == Take(Vals(t), MaxVals) IN { [t |-> t, i |-> i, v |-> vs[i]] : i \in 1..Len(vs) }

Record(c) ==
  LET alts == Alts(c.t, c.v) IN
  [ t |-> c.t, i |-> c.i,
    enc |-> SetToSeq({ Enc(c.t, w) : w \in alts }),
    jsonable |-> Jsonable(c.t, c.v),
    json |-> IF Jsonable(c.t, c.v) THEN SetToSeq({ Json(c.t, w) : w \in alts }) ELSE <<>>,
    kinds |-> Kinds(c.t), plan |-> Plan(c.t) ]

AllCases == UNION { CasesOf(t) : t \in Universe }

-----------------------------------------------------------------------------
(* Sanity of the specification itself on this universe (vacuity / soundness of the membership oracle) *)

IsPrefix2(a, b) == Len(a) <= Len(b) /\ SubSeq(b, 1, Len(a)) = a

\* distinct values of a type never share an encoding, and no encoding is a proper prefix of another (self-delimiting)
UniquelyDecodable ==
  \A t \in Universe :
    LET vs == Take(Vals(t), MaxVals) IN
    \A i, j \in 1..Len(vs) :
      (i < j /\ vs[j] \notin Alts(t, vs[i])) =>
         \A a \in EncAlts(t, vs[i]), b \in EncAlts(t, vs[j]) : ~IsPrefix2(a, b) /\ ~IsPrefix2(b, a)

\* the tagged/untagged rule of ndjson.md really separates the cases: an untagged union value's JSON tree
\* determines the case
JKind(tree) == CASE tree.j \in {"int", "f"} -> "number" [] tree.j \in {"s", "lit", "date", "time", "datetime"} -> "string"
                 [] tree.j = "bool" -> "boolean" [] tree.j = "arr" -> "array" [] tree.j = "obj" -> "object" [] OTHER -> "null"
UntaggedIsDecodable ==
  \A t \in { u \in Universe : u.k = "union" /\ Untagged(u) } :
    \A i \in 1..Len(t.cases) : \A v \in { Vals(t.cases[i].t)[n] : n \in 1..Len(Vals(t.cases[i].t)) } :
      Jsonable(t.cases[i].t, v) => JKind(Json(t.cases[i].t, v)) \in Kinds(t.cases[i].t)

ASSUME PrintT(<<"universe", Cardinality(Universe), "cases", Cardinality(AllCases)>>)
ASSUME PlanMatchesEncOn(Universe)
ASSUME UniquelyDecodable
ASSUME UntaggedIsDecodable
ASSUME ndJsonSerialize(IOEnv.VERIF_OUT, SetToSeq({ Record(c) : c \in AllCases }))
=============================================================================
