---------------------------- MODULE StreamBlocks ----------------------------
(***************************************************************************)
(* One stream step on the wire and the ways it can be written and read     *)
(* (property C17; also used by C16/C07).                                   *)
(*                                                                         *)
(* Writer: items 1..N are written one at a time (a block of 1) or in       *)
(* batches (one block per non-empty batch); End writes the 0 terminator.   *)
(* So `wire` is a sequence of positive block lengths followed by 0.        *)
(*                                                                         *)
(* Reader (implementation-shaped, generated C++ binary reader):            *)
(*   ReadOne         = ReadBlock                                           *)
(*   ReadBatch(cap)  = ReadBlocksIntoVector + the generated wrapper with   *)
(*                     the "drained but not yet observed" state (2i+1)     *)
(* cbr is current_block_remaining_, idx the next unread block header.      *)
(*                                                                         *)
(* Abstract requirement: whatever the grouping on either side, the items   *)
(* delivered are exactly 1..N in order, the reader never reads beyond the  *)
(* terminator, and a batch read that reports "more" is followed by a read  *)
(* that delivers something or reports the end.                             *)
(***************************************************************************)
EXTENDS Naturals, Sequences, FiniteSets, TLC, Json

CONSTANTS N,        \* items written
          MaxCap    \* batch capacities 1..MaxCap

VARIABLES wire,       \* Seq(Nat): block lengths as written (terminated by 0 once ended)
          written,    \* items written so far
          ended,
          idx, cbr,   \* reader position
          delivered,  \* number of items delivered so far (they are delivered in order)
          rstate,     \* "ready" | "drained" | "done" | "error"
          hist        \* history of reader calls: <<kind, cap, count, more>>

vars == <<wire, written, ended, idx, cbr, delivered, rstate, hist>>

Min(a, b) == IF a < b THEN a ELSE b

Init == /\ wire = <<>> /\ written = 0 /\ ended = FALSE
        /\ idx = 1 /\ cbr = 0 /\ delivered = 0 /\ rstate = "ready" /\ hist = <<>>

(* ---- writer ---- *)
WriteOne == /\ ~ended /\ written < N
            /\ wire' = Append(wire, 1) /\ written' = written + 1
            /\ UNCHANGED <<ended, idx, cbr, delivered, rstate, hist>>

WriteBatch(k) == /\ ~ended /\ k >= 1 /\ written + k <= N
                 /\ wire' = Append(wire, k) /\ written' = written + k
                 /\ UNCHANGED <<ended, idx, cbr, delivered, rstate, hist>>

End == /\ ~ended /\ written = N
       /\ wire' = Append(wire, 0) /\ ended' = TRUE
       /\ UNCHANGED <<written, idx, cbr, delivered, rstate, hist>>

(* ---- reader: only once the writer has finished (a file) ---- *)
\* reading a block header beyond the terminator is the error the property forbids
Header(i) == IF i <= Len(wire) THEN wire[i] ELSE 0
PastEnd(i) == i > Len(wire)

ReadOne ==
  /\ ended /\ rstate \in {"ready", "drained"}
  /\ IF rstate = "drained"
     THEN /\ rstate' = "done" /\ hist' = Append(hist, <<"one", 0, 0, FALSE>>)
          /\ UNCHANGED <<idx, cbr, delivered>>
     ELSE IF cbr = 0
          THEN IF PastEnd(idx)
               THEN rstate' = "error" /\ UNCHANGED <<idx, cbr, delivered, hist>>
               ELSE IF Header(idx) = 0
                    THEN /\ idx' = idx + 1 /\ rstate' = "done" /\ hist' = Append(hist, <<"one", 0, 0, FALSE>>)
                         /\ UNCHANGED <<cbr, delivered>>
                    ELSE /\ idx' = idx + 1 /\ cbr' = Header(idx) - 1 /\ delivered' = delivered + 1
                         /\ hist' = Append(hist, <<"one", 0, 1, TRUE>>) /\ UNCHANGED rstate
          ELSE /\ cbr' = cbr - 1 /\ delivered' = delivered + 1
               /\ hist' = Append(hist, <<"one", 0, 1, TRUE>>) /\ UNCHANGED <<idx, rstate>>
  /\ UNCHANGED <<wire, written, ended>>

\* ReadBlocksIntoVector as a recursive function of (idx, cbr, remaining capacity, count so far);
\* result: [idx, cbr, count, past] where past = a header beyond the terminator was read
RECURSIVE Fill(_, _, _, _)
Fill(i, c, cap, n) ==
  IF c = 0 THEN [idx |-> i, cbr |-> 0, count |-> n, past |-> FALSE]
  ELSE LET k == Min(c, cap)
           c2 == c - k
           cap2 == cap - k
           n2 == n + k
           \* if (current_block_remaining == 0) ReadInteger(...)
           past == c2 = 0 /\ PastEnd(i)
           c3 == IF c2 = 0 THEN Header(i) ELSE c2
           i3 == IF c2 = 0 THEN i + 1 ELSE i
       IN IF past THEN [idx |-> i3, cbr |-> c3, count |-> n2, past |-> TRUE]
          ELSE IF cap2 = 0 THEN [idx |-> i3, cbr |-> c3, count |-> n2, past |-> FALSE]
          ELSE Fill(i3, c3, cap2, n2)

ReadBatch(cap) ==
  /\ ended /\ rstate \in {"ready", "drained"}
  /\ IF rstate = "drained"
     THEN /\ rstate' = "done" /\ hist' = Append(hist, <<"batch", cap, 0, FALSE>>)
          /\ UNCHANGED <<idx, cbr, delivered>>
     ELSE LET first == cbr = 0
              past0 == first /\ PastEnd(idx)
              c0 == IF first THEN Header(idx) ELSE cbr
              i0 == IF first THEN idx + 1 ELSE idx
              f == Fill(i0, c0, cap, 0)
          IN IF past0 \/ f.past
             THEN rstate' = "error" /\ UNCHANGED <<idx, cbr, delivered, hist>>
             ELSE /\ idx' = f.idx /\ cbr' = f.cbr /\ delivered' = delivered + f.count
                  /\ IF f.cbr # 0
                     THEN /\ hist' = Append(hist, <<"batch", cap, f.count, TRUE>>) /\ UNCHANGED rstate
                     ELSE \* wrapper: state_ = 2i+1; return values.size() > 0
                          /\ rstate' = IF f.count > 0 THEN "drained" ELSE "done"
                          /\ hist' = Append(hist, <<"batch", cap, f.count, f.count > 0>>)
  /\ UNCHANGED <<wire, written, ended>>

Next == WriteOne \/ (\E k \in 2..N : WriteBatch(k)) \/ End \/ ReadOne \/ (\E cap \in 1..MaxCap : ReadBatch(cap))

Spec == Init /\ [][Next]_vars

-----------------------------------------------------------------------------
TypeOK == /\ delivered \in 0..N /\ cbr \in 0..N /\ rstate \in {"ready", "drained", "done", "error"}

NoReadPastTerminator == rstate # "error"
DeliveredIsPrefix    == delivered <= written
DoneMeansAll         == rstate = "done" => delivered = N
\* a call that reports "more" has delivered at least one item
MoreMeansProgress    == \A i \in 1..Len(hist) : hist[i][4] => hist[i][3] > 0

(* ---- writer side: the calls a caller can make to write N items, and the blocks they must put on the wire.                 *)
(* A call is the number of items it passes: One (= 100) for the single-item overload, k >= 0 for the batch overload.  An empty batch *)
(* is a legal call; it adds no items, so it must add nothing to the wire - in particular not a block of length 0, which is   *)
(* the end-of-stream marker.  (WriteBatch above starts at k = 1 for the same reason.)                                       *)
One == 100
RECURSIVE WriterScripts(_, _)
WriterScripts(n, e) ==            \* n items still to write, at most e empty batches
  (IF n = 0 THEN {<<>>} ELSE {})
  \cup (IF n > 0 THEN { <<One>> \o t : t \in WriterScripts(n - 1, e) } ELSE {})
  \cup UNION { { <<k>> \o t : t \in WriterScripts(n - k, e) } : k \in 1..n }
  \cup (IF e > 0 THEN { <<0>> \o t : t \in WriterScripts(n, e - 1) } ELSE {})
BlocksOf(script) == [i \in 1..Len(SelectSeq(script, LAMBDA k : k # 0)) |->
                       LET k == SelectSeq(script, LAMBDA x : x # 0)[i] IN IF k = One THEN 1 ELSE k] \o <<0>>
WriterCases == { [script |-> sc, wire |-> BlocksOf(sc)] : sc \in { x \in WriterScripts(N, 2) : \E i \in 1..Len(x) : x[i] = 0 } }
ASSUME \A w \in WriterCases : /\ w.wire[Len(w.wire)] = 0 /\ \A i \in 1..(Len(w.wire) - 1) : w.wire[i] > 0
ASSUME \A w \in WriterCases : PrintT(<<"CASE", ToJson([writer_script |-> w.script, wire |-> w.wire])>>)

\* export of completed behaviours: the partition written and the reader calls made
Export == rstate = "done" => PrintT(<<"CASE", ToJson([wire |-> wire, calls |-> hist])>>)
=============================================================================
