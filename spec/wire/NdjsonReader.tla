---------------------------- MODULE NdjsonReader ----------------------------
(***************************************************************************)
(* NDJSON has no end-of-stream marker: after the header, every value is    *)
(* one line {"<step>": value}; the items of a stream step are consecutive  *)
(* lines with that step's name and the stream ends where a line with       *)
(* another name (or the end of the file) follows.  Readers therefore look  *)
(* one line ahead and keep the line that does not belong to the current    *)
(* stream for the next step (unused_step_ in the C++ runtime,              *)
(* _unused_value in the Python runtime).                                   *)
(*                                                                         *)
(* Configuration: a protocol shape (TRUE = stream) and the number of items *)
(* of every stream step.  The writer produces `lines` (step indices); the  *)
(* implementation-shaped reader consumes them step by step.  Requirement:  *)
(* every step receives exactly the items written for it - in particular    *)
(* for adjacent and empty streams.                                         *)
(***************************************************************************)
EXTENDS Naturals, Sequences, FiniteSets, TLC, Json

CONSTANTS MaxLen, MaxItems

VARIABLES shape, lens,       \* configuration
          ptr, stash,        \* reader: next unread line, look-ahead line (0 = none)
          step,              \* step being read (1-based), N+1 = done
          got,               \* items delivered per step
          failed

vars == <<shape, lens, ptr, stash, step, got, failed>>
N == Len(shape)

RECURSIVE Shapes(_)
Shapes(n) == IF n = 0 THEN {<<>>} ELSE { Append(s, b) : s \in Shapes(n - 1), b \in BOOLEAN }

\* the file: for every step in order, one line per item (non-stream steps have exactly one)
Count(i) == IF shape[i] THEN lens[i] ELSE 1
RECURSIVE LinesFrom(_)
LinesFrom(i) == IF i > N THEN <<>> ELSE [k \in 1..Count(i) |-> i] \o LinesFrom(i + 1)
Lines == LinesFrom(1)

Init == /\ shape \in UNION { Shapes(n) : n \in 1..MaxLen }
        /\ lens \in [1..MaxLen -> 0..MaxItems]
        /\ \A i \in 1..MaxLen : (i > Len(shape) \/ ~shape[i]) => lens[i] = 0      \* canonical: only streams have a length
        /\ ptr = 1 /\ stash = 0 /\ step = 1 /\ got = [i \in 1..MaxLen |-> 0] /\ failed = FALSE

\* next line: the stashed one first
HasLine == stash # 0 \/ ptr <= Len(Lines)
Peek == IF stash # 0 THEN stash ELSE Lines[ptr]

ReadValue ==      \* a non-stream step: the next line must carry this step's name
  /\ step <= N /\ ~shape[step] /\ ~failed
  /\ IF HasLine /\ Peek = step
     THEN /\ got' = [got EXCEPT ![step] = @ + 1] /\ step' = step + 1
          /\ IF stash # 0 THEN stash' = 0 /\ UNCHANGED ptr ELSE ptr' = ptr + 1 /\ UNCHANGED stash
          /\ UNCHANGED failed
     ELSE failed' = TRUE /\ UNCHANGED <<ptr, stash, step, got>>
  /\ UNCHANGED <<shape, lens>>

ReadItem ==       \* one iteration of a stream read: deliver the line if it is ours, otherwise keep it and end the stream
  /\ step <= N /\ shape[step] /\ ~failed
  /\ IF HasLine /\ Peek = step
     THEN /\ got' = [got EXCEPT ![step] = @ + 1]
          /\ IF stash # 0 THEN stash' = 0 /\ UNCHANGED ptr ELSE ptr' = ptr + 1 /\ UNCHANGED stash
          /\ UNCHANGED step
     ELSE /\ step' = step + 1
          /\ IF HasLine /\ stash = 0 THEN stash' = Lines[ptr] /\ ptr' = ptr + 1 ELSE UNCHANGED <<stash, ptr>>
          /\ UNCHANGED got
  /\ UNCHANGED <<shape, lens, failed>>

Next == ReadValue \/ ReadItem
Spec == Init /\ [][Next]_vars

Done == step = N + 1
NeverFails == ~failed
DeliversWhatWasWritten == Done => /\ \A i \in 1..N : got[i] = Count(i)
                                  /\ stash = 0 /\ ptr = Len(Lines) + 1
Export == Done => PrintT(<<"CASE", ToJson([shape |-> shape, lens |-> lens])>>)
=============================================================================
