CONSTANTS MaxLen = 3  MaxItems = 2
INIT Init
NEXT Next
INVARIANTS NeverFails DeliversWhatWasWritten Export
CHECK_DEADLOCK FALSE
