------------------------------- MODULE WireBig -------------------------------
(***************************************************************************)
(* Large payloads for the wire properties: values whose encodings are      *)
(* longer than the 64 KiB buffers of the runtimes, preceded by a padding   *)
(* string of IOEnv.VERIF_PAD bytes so that successive runs move every      *)
(* later element across the buffer boundaries at every residue.            *)
(* Exported like WireCases (one record per (type, value)).                 *)
(***************************************************************************)
EXTENDS Wire, Ndjson, TLC, Json, IOUtils

S2N(s) == CHOOSE n \in 0..200000 : ToString(n) = s
Pad == S2N(IOEnv.VERIF_PAD)
Scale == S2N(IOEnv.VERIF_SCALE)          \* 1 = full size (quick uses 1 too; thorough may use more runs, not more size)

P(p) == Prim(p)
Rep(n, f(_)) == [i \in 1..n |-> f(i)]

I64 == IntVals("int64")
U64 == IntVals("uint64")
I32 == IntVals("int32")
F64 == F64Vals
NthJ(s, i) == s[((i - 1) % 6) + 1]        \* only the JSON-representable float tokens (first six)

\* a string leaf of n bytes: token name "s_x<n>", bytes computed here, text known to the harness by the same rule
XStr(n) == [tok |-> "s_x" \o ToString(n)]
XStrBytes(n) == VarSmall(n) \o [i \in 1..n |-> 120]

\* 64-bit varint vectors come first and are long enough to lie across the first two 64 KiB boundaries
BigCases ==
  << [name |-> "pad",      t |-> P("string"),            v |-> XStr(Pad),      enc |-> XStrBytes(Pad)],
     [name |-> "vecI64",   t |-> Vec(P("int64")),        v |-> Rep(20000 * Scale, LAMBDA i : Nth(I64, i + (i \div 7))), enc |-> <<>>],
     [name |-> "vecU64",   t |-> Vec(P("uint64")),       v |-> Rep(22000 * Scale, LAMBDA i : Nth(U64, i + (i \div 5))), enc |-> <<>>],
     [name |-> "bigstr",   t |-> P("string"),            v |-> XStr(70000),    enc |-> XStrBytes(70000)],
     [name |-> "vecF64",   t |-> Vec(P("float64")),      v |-> Rep(9000 * Scale, LAMBDA i : NthJ(F64, i)), enc |-> <<>>],
     [name |-> "arrF64",   t |-> NdArr(P("float64"), 2), v |-> [shape |-> <<90, 100>>, data |-> Rep(9000, LAMBDA i : NthJ(F64, i + 1))], enc |-> <<>>],
     [name |-> "vecI32",   t |-> Vec(P("int32")),        v |-> Rep(30000 * Scale, LAMBDA i : Nth(I32, i + (i \div 8))), enc |-> <<>>],
     [name |-> "vecStr",   t |-> Vec(P("string")),       v |-> Rep(9000 * Scale, LAMBDA i : Nth(PrimVals("string"), i)), enc |-> <<>>],
     [name |-> "vecDt",    t |-> Vec(P("datetime")),     v |-> Rep(9000 * Scale, LAMBDA i : Nth(PrimVals("datetime"), i)), enc |-> <<>>],
     [name |-> "mapBig",   t |-> Map(P("int32"), P("float64")), v |-> Rep(1, LAMBDA i : <<SmallInt(i), NthJ(F64, i)>>), enc |-> <<>>],
     [name |-> "tail",     t |-> P("int32"),             v |-> NegSmall(65), enc |-> <<>>] >>

\* a stream of arrays, each a few KiB, far more than one buffer in total
StreamItemType == NdArr(P("float64"), 1)
StreamItems == Rep(40, LAMBDA k : [shape |-> <<500>>, data |-> Rep(500, LAMBDA i : NthJ(F64, i + k))])

EncOf(c) == IF c.enc # <<>> THEN c.enc ELSE Enc(c.t, c.v)
JsonOf(c) == IF c.enc # <<>> THEN JS(c.v.tok) ELSE Json(c.t, c.v)

ASSUME ndJsonSerialize(IOEnv.VERIF_OUT,
         [i \in 1..Len(BigCases) |-> [name |-> BigCases[i].name, t |-> BigCases[i].t, stream |-> FALSE,
                                      enc |-> <<EncOf(BigCases[i])>>, json |-> <<JsonOf(BigCases[i])>>]]
         \o << [name |-> "arrays", t |-> StreamItemType, stream |-> TRUE,
                enc |-> [k \in 1..Len(StreamItems) |-> Enc(StreamItemType, StreamItems[k])],
                json |-> [k \in 1..Len(StreamItems) |-> Json(StreamItemType, StreamItems[k])]] >>)
=============================================================================
