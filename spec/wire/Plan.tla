-------------------------------- MODULE Plan --------------------------------
(***************************************************************************)
(* The serialization plan of a type (property C14): the composition of     *)
(* element encodings that every backend has to use.  A plan node is        *)
(*   [n |-> kind, a |-> sub-plans, k |-> integer parameters]               *)
(* with kinds  Bool Int8 .. Uint64 Size Float32 Float64 ComplexFloat32     *)
(* ComplexFloat64 String Date Time DateTime | Optional(p) | Union(ps) with *)
(* k = <<1>> if the first case is null | Vector(p) | FixedVector(p) k=<<n>>*)
(* | FixedNDArray(p) k=dims | NDArray(p) k=<<rank>> | DynamicNDArray(p) |   *)
(* Map(pk, pv) | Enum(pbase) | Record(pfields) | Stream(p).                *)
(* EncP interprets a plan on a value; PlanMatchesEnc says that this is the *)
(* encoding of Wire.tla, i.e. the plan carries everything that determines  *)
(* the bytes.  Backends are compared with Plan(t) by extracting their      *)
(* serializer construction expressions from the generated code.            *)
(***************************************************************************)
EXTENDS Wire, TLC, Json, IOUtils

Node(n, a, k) == [n |-> n, a |-> a, k |-> k]
PrimNode(p) == Node(CASE p = "bool" -> "Bool" [] p = "int8" -> "Int8" [] p = "int16" -> "Int16" [] p = "int32" -> "Int32"
                      [] p = "int64" -> "Int64" [] p = "uint8" -> "Uint8" [] p = "uint16" -> "Uint16" [] p = "uint32" -> "Uint32"
                      [] p = "uint64" -> "Uint64" [] p = "size" -> "Size" [] p = "float32" -> "Float32" [] p = "float64" -> "Float64"
                      [] p = "complexfloat32" -> "ComplexFloat32" [] p = "complexfloat64" -> "ComplexFloat64"
                      [] p = "string" -> "String" [] p = "date" -> "Date" [] p = "time" -> "Time" [] p = "datetime" -> "DateTime",
                    <<>>, <<>>)

RECURSIVE Plan(_)
Plan(t) ==
  CASE t.k = "prim" -> PrimNode(t.p)
    [] t.k = "alias" -> Plan(t.t)
    [] t.k = "opt" -> Node("Optional", <<Plan(t.t)>>, <<>>)
    [] t.k = "vec" -> Node("Vector", <<Plan(t.t)>>, <<>>)
    [] t.k = "fvec" -> Node("FixedVector", <<Plan(t.t)>>, <<t.n>>)
    [] t.k = "farr" -> Node("FixedNDArray", <<Plan(t.t)>>, t.dims)
    [] t.k = "ndarr" -> Node("NDArray", <<Plan(t.t)>>, <<t.r>>)
    [] t.k = "dynarr" -> Node("DynamicNDArray", <<Plan(t.t)>>, <<>>)
    [] t.k = "map" -> Node("Map", <<Plan(t.kt), Plan(t.vt)>>, <<>>)
    [] t.k = "union" -> Node("Union", [i \in 1..Len(t.cases) |-> Plan(t.cases[i].t)], IF t.nullable THEN <<1>> ELSE <<0>>)
    [] t.k \in {"enum", "flags"} -> Node("Enum", <<PrimNode(t.base)>>, <<>>)
    [] t.k = "rec" -> Node("Record", [i \in 1..Len(t.fields) |-> Plan(t.fields[i].t)], <<>>)

PrimOf(n) == CASE n = "Bool" -> "bool" [] n = "Int8" -> "int8" [] n = "Int16" -> "int16" [] n = "Int32" -> "int32" [] n = "Int64" -> "int64"
               [] n = "Uint8" -> "uint8" [] n = "Uint16" -> "uint16" [] n = "Uint32" -> "uint32" [] n = "Uint64" -> "uint64" [] n = "Size" -> "size"
               [] n = "Float32" -> "float32" [] n = "Float64" -> "float64" [] n = "ComplexFloat32" -> "complexfloat32"
               [] n = "ComplexFloat64" -> "complexfloat64" [] n = "String" -> "string" [] n = "Date" -> "date" [] n = "Time" -> "time"
               [] n = "DateTime" -> "datetime"
Composite == {"Optional", "Vector", "FixedVector", "FixedNDArray", "NDArray", "DynamicNDArray", "Map", "Union", "Enum", "Record"}

RECURSIVE EncP(_, _)
EncP(pl, v) ==
  CASE pl.n \notin Composite -> EncPrim(PrimOf(pl.n), v)
    [] pl.n = "Optional" -> IF v = <<>> THEN <<0>> ELSE <<1>> \o EncP(pl.a[1], v[1])
    [] pl.n = "Vector" -> VarSmall(Len(v)) \o Concat([i \in 1..Len(v) |-> EncP(pl.a[1], v[i])])
    [] pl.n = "FixedVector" -> Concat([i \in 1..pl.k[1] |-> EncP(pl.a[1], v[i])])
    [] pl.n = "FixedNDArray" -> Concat([i \in 1..Product(pl.k) |-> EncP(pl.a[1], v.data[i])])
    [] pl.n = "NDArray" -> Concat([i \in 1..pl.k[1] |-> VarSmall(v.shape[i])]) \o Concat([i \in 1..Len(v.data) |-> EncP(pl.a[1], v.data[i])])
    [] pl.n = "DynamicNDArray" -> VarSmall(Len(v.shape)) \o Concat([i \in 1..Len(v.shape) |-> VarSmall(v.shape[i])])
                                  \o Concat([i \in 1..Len(v.data) |-> EncP(pl.a[1], v.data[i])])
    [] pl.n = "Map" -> VarSmall(Len(v)) \o Concat([i \in 1..Len(v) |-> EncP(pl.a[1], v[i][1]) \o EncP(pl.a[2], v[i][2])])
    [] pl.n = "Union" -> IF v.c = 0 THEN <<0>> ELSE VarSmall(v.c - 1 + pl.k[1]) \o EncP(pl.a[v.c], v.v)
    [] pl.n = "Enum" -> EncInt(PrimOf(pl.a[1].n), v)
    [] pl.n = "Record" -> Concat([i \in 1..Len(pl.a) |-> EncP(pl.a[i], v[i])])

PlanMatchesEncOn(U) == \A t \in U : \A i \in 1..Len(Vals(t)) : EncP(Plan(t), Vals(t)[i]) = Enc(t, Vals(t)[i])
=============================================================================
