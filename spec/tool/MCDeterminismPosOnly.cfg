\* design-only: sorting by position alone is refuted
CONSTANTS SortKey = "pos"
CONSTANT Diags <- DiagsVal
INIT Init
NEXT Next
INVARIANT OutputIndependentOfCollectionOrder
CHECK_DEADLOCK FALSE
