------------------------------- MODULE Imports -------------------------------
(***************************************************************************)
(* Package loading in yardl (property C18).                                *)
(*                                                                         *)
(* A configuration is a set of package directories 1..N (1 is the root in  *)
(* which the tool is run), for every directory its ordered import list     *)
(* and the namespace its manifest declares.  The configuration is chosen   *)
(* in Init and never changes; the rest of a behaviour is the execution of  *)
(* the loader on it.                                                       *)
(*                                                                         *)
(* Two layers (DESIGN.md 2.2):                                             *)
(*  - abstract: what the property demands, as functions of the             *)
(*    configuration seen as a *graph* (no order): MustFail / MustLoad;     *)
(*  - implementation-shaped: the recursive collectPackages of              *)
(*    pkg/packaging/packageinfo.go with its explicit recursion stack,      *)
(*    the alreadyCollected memo (keyed by namespace), importChain (the     *)
(*    namespaces of the frames on the stack) and depthRemaining.           *)
(* One action = one call of collectPackages or one return from it.         *)
(***************************************************************************)
EXTENDS Naturals, Sequences, FiniteSets, TLC, Json

CONSTANTS N,        \* number of package directories
          Limit,    \* MaxImportRecursionDepth in the code
          Family    \* "all" | "allnodup" | "allself" | "chain" : which configurations Init enumerates

Dirs == 1..N
Root == 1

VARIABLES imports,    \* [Dirs -> Seq(Dirs)]   configuration
          nsOf,       \* [Dirs -> 1..N]        configuration: namespace declared by each directory
          stack,      \* Seq([dir, next])      recursion of collectPackages
          collected,  \* [namespace -> dir]    alreadyCollected (as a function on a subset of 1..N)
          result,     \* "running" | "ok" | "cycle" | "conflict" | "depth"
          log,        \* history: the hook events the real tool emits (CollectEnter / CollectNew)
          steps

vars == <<imports, nsOf, stack, collected, result, log, steps>>
cfgvars == <<imports, nsOf>>

-----------------------------------------------------------------------------
(* Configuration universe *)

RECURSIVE SeqsNoDup(_)
SeqsNoDup(S) == IF S = {} THEN {<<>>}
                ELSE {<<>>} \cup UNION { { <<x>> \o s : s \in SeqsNoDup(S \ {x}) } : x \in S }

ImportLists(d) == IF Family = "allself" THEN SeqsNoDup(Dirs) ELSE SeqsNoDup(Dirs \ {d})

ILTable == IF Family = "chain" THEN <<>> ELSE [d \in Dirs |-> ImportLists(d)]                       \* constant: evaluated once by TLC
RECURSIVE Prod(_)                                                  \* dependent product: all [d \in 1..k |-> a list in ILTable[d]]
Prod(k) == IF k = 0 THEN {<<>>} ELSE { Append(f, l) : f \in Prod(k - 1), l \in ILTable[k] }
AllImportFunctions == IF Family = "chain" THEN {} ELSE Prod(N)

\* namespace labellings: all distinct, or exactly one directory re-uses the namespace of a smaller one
Labellings == { [d \in Dirs |-> d] } \cup
              { [d \in Dirs |-> IF d = b THEN a ELSE d] : a \in Dirs, b \in Dirs } 

\* chain family: 1 -> 2 -> ... -> L, plus one shortcut edge 1 -> k listed before or after the chain edge
ChainConfigs ==
  { [d \in Dirs |-> IF d = 1 THEN (IF k = 0 THEN <<2>> ELSE IF first THEN <<k, 2>> ELSE <<2, k>>)
                    ELSE IF d < L THEN <<d + 1>> ELSE <<>>]
      : L \in 2..N, k \in {0} \cup 3..N, first \in BOOLEAN }

ConfigInit ==
  IF Family = "chain"
  THEN /\ imports \in { c \in ChainConfigs : \A i \in 1..Len(c[1]) : c[1][i] <= N }
       /\ nsOf = [d \in Dirs |-> d]
  ELSE /\ imports \in AllImportFunctions
       /\ nsOf \in IF Family = "allnodup" THEN { [d \in Dirs |-> d] }
                                         ELSE { l \in Labellings : \A d \in Dirs : l[d] <= d }

-----------------------------------------------------------------------------
(* Abstract layer: the graph and what the property requires of it *)

Edge(a, b) == \E i \in 1..Len(imports[a]) : imports[a][i] = b

RECURSIVE ReachFrom(_, _)
ReachFrom(S, k) == IF k = 0 THEN S
                   ELSE ReachFrom(S \cup { b \in Dirs : \E a \in S : Edge(a, b) }, k - 1)
Reach == ReachFrom({Root}, N)
ReachPlus(a) == ReachFrom({ b \in Dirs : Edge(a, b) }, N)      \* reachable by >= 1 edge

CycleReachable    == \E d \in Reach : d \in ReachPlus(d)
ConflictReachable == \E a \in Reach, b \in Reach : a # b /\ nsOf[a] = nsOf[b]

\* longest path (in edges) from the root, only used when no cycle is reachable: WalkEnds(k) is the set of
\* directories at which some walk of exactly k edges from the root ends (acyclic: walks are paths, k < N).
RECURSIVE WalkEnds(_)
WalkEnds(k) == IF k = 0 THEN {Root} ELSE LET P == WalkEnds(k - 1) IN { b \in Dirs : \E a \in P : Edge(a, b) }
Longest == CHOOSE k \in 0..N : WalkEnds(k) # {} /\ (k = N \/ WalkEnds(k + 1) = {})
\* longest path below an already collected directory (its subtree is acyclic when this is used)
RECURSIVE WalkEndsFrom(_, _)
WalkEndsFrom(d, k) == IF k = 0 THEN {d} ELSE LET P == WalkEndsFrom(d, k - 1) IN { b \in Dirs : \E a \in P : Edge(a, b) }
LongestFrom(d) == CHOOSE k \in 0..N : WalkEndsFrom(d, k) # {} /\ (k = N \/ WalkEndsFrom(d, k + 1) = {})
Depth == IF CycleReachable THEN 0 ELSE Longest

\* "deeper than the limit": the tool defines the exact boundary, so a longest chain of exactly
\* Limit edges is left open; more must fail, fewer must not fail for depth reasons.
MustFail == CycleReachable \/ ConflictReachable \/ Depth > Limit
MustLoad == ~CycleReachable /\ ~ConflictReachable /\ Depth < Limit
Expected == IF MustFail THEN "error" ELSE IF MustLoad THEN "ok" ELSE "either"

-----------------------------------------------------------------------------
(* Implementation-shaped layer *)

Chain == { nsOf[stack[i].dir] : i \in 1..Len(stack) }          \* importChain: every frame on the stack is descending

Ev(kind, d, depth) == [event |-> kind, dir |-> d, depth |-> depth]

\* collectPackages(d, ..., depth) up to the point where it either fails, returns the memoised
\* package, or starts iterating over its imports (push a frame).
Enter(d, depth, retStack) ==
  LET ns == nsOf[d] IN
  IF ns \in Chain
  THEN /\ result' = "cycle" /\ log' = Append(log, Ev("CollectEnter", d, depth))
       /\ UNCHANGED <<stack, collected>>
  ELSE IF ns \in DOMAIN collected
  THEN IF collected[ns] # d
       THEN /\ result' = "conflict" /\ log' = Append(log, Ev("CollectEnter", d, depth))
            /\ UNCHANGED <<stack, collected>>
       ELSE \* memo hit: d and everything below it is already collected (it is not on the stack, else "cycle").
            \* checkImportDepth: the chain that leads here now must respect the limit as well.
            /\ log' = Append(log, Ev("CollectEnter", d, depth))
            /\ IF depth - LongestFrom(d) <= 0
               THEN result' = "depth" /\ UNCHANGED <<stack, collected>>
               ELSE stack' = retStack /\ UNCHANGED <<result, collected>>
  ELSE /\ collected' = [x \in DOMAIN collected \cup {ns} |-> IF x = ns THEN d ELSE collected[x]]
       /\ log' = log \o <<Ev("CollectEnter", d, depth), Ev("CollectNew", d, depth)>>
       /\ IF depth <= 0
          THEN result' = "depth" /\ UNCHANGED stack
          ELSE stack' = Append(stack, [dir |-> d, next |-> 1]) /\ UNCHANGED result

Bump(s) == [s EXCEPT ![Len(s)].next = @ + 1]                     \* the caller moves on to its next import

Start == /\ result = "running" /\ stack = <<>> /\ collected = << >> /\ log = <<>>
         /\ Enter(Root, Limit, <<>>)
         /\ steps' = steps + 1 /\ UNCHANGED cfgvars

Descend == /\ result = "running" /\ stack # <<>>
           /\ LET f == stack[Len(stack)] IN
              /\ f.next <= Len(imports[f.dir])
              /\ Enter(imports[f.dir][f.next], Limit - Len(stack), Bump(stack))
           /\ steps' = steps + 1 /\ UNCHANGED cfgvars

Return == /\ result = "running" /\ stack # <<>>
          /\ LET f == stack[Len(stack)] IN
             /\ f.next > Len(imports[f.dir])
             /\ IF Len(stack) = 1
                THEN stack' = <<>> /\ result' = "ok"
                ELSE stack' = Bump(SubSeq(stack, 1, Len(stack) - 1)) /\ UNCHANGED result
          /\ steps' = steps + 1 /\ UNCHANGED <<cfgvars, collected, log>>

Init == /\ ConfigInit
        /\ stack = <<>> /\ collected = << >> /\ result = "running" /\ log = <<>> /\ steps = 0

Next == Start \/ Descend \/ Return

Spec == Init /\ [][Next]_vars /\ WF_vars(Next)

-----------------------------------------------------------------------------
(* Properties *)

TypeOK == /\ result \in {"running", "ok", "cycle", "conflict", "depth"}
          /\ Len(stack) <= Limit + 1
          /\ \A i \in 1..Len(stack) : stack[i].dir \in Dirs

\* Loading terminates: the number of collectPackages calls and returns is bounded by the size of the graph.
Terminates == steps <= 2 * (N * N + N) + 2

Done == result # "running"

\* The implementation-shaped loader agrees with what the property requires.
OutcomeMatches == Done => CASE Expected = "error" -> result # "ok"
                            [] Expected = "ok"    -> result = "ok"
                            [] OTHER              -> TRUE

\* On success every reachable package has been collected exactly once (the memo is keyed by namespace,
\* namespaces are unique on success), and nothing unreachable was touched.
LoadedExactlyReach == result = "ok" => { collected[x] : x \in DOMAIN collected } = Reach
                                       /\ Cardinality(DOMAIN collected) = Cardinality(Reach)

Termination == <>Done

\* Export of every terminal state: the harness concretises the configuration and runs the real tool.
Export == Done => PrintT(<<"CASE", ToJson([imports |-> imports, ns |-> nsOf, expected |-> Expected,
                                              model |-> result, reach |-> Reach, depth |-> Depth,
                                              cycle |-> CycleReachable, conflict |-> ConflictReachable,
                                              log |-> log])>>)
=============================================================================
