\* four diagnostics, two of them at the same position: the code's sort key
CONSTANTS SortKey = "pos+msg"
CONSTANT Diags <- DiagsVal
INIT Init
NEXT Next
INVARIANT OutputIndependentOfCollectionOrder
CHECK_DEADLOCK FALSE
