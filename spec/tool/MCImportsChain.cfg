\* chain 1->2->...->L (L<=13) plus one shortcut edge from the root, real Limit: the depth logic is reached.
CONSTANTS N = 13  Limit = 10  Family = "chain"
INIT Init
NEXT Next
INVARIANTS TypeOK Terminates OutcomeMatches LoadedExactlyReach Export
CHECK_DEADLOCK FALSE
