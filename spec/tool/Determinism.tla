---------------------------- MODULE Determinism ----------------------------
(***************************************************************************)
(* Diagnostics are collected while the tool iterates over Go maps, i.e. in *)
(* an order that changes from run to run, and are sorted before they are   *)
(* printed (internal/validation/errorsink.go, warningsink.go).  Output     *)
(* (C12) must not depend on the collection order.                          *)
(*                                                                         *)
(* A diagnostic is [pos, msg] (pos stands for file:line:column).  Add      *)
(* appends the pending diagnostics in any order; Sort orders them with an  *)
(* insertion sort that compares by the key named by SortKey:               *)
(*   "pos+msg"  position, then message text (the code as it is)            *)
(*   "pos"      position only, stable (a plausible simplification)         *)
(* Requirement: the printed sequence is the same for every collection      *)
(* order.  TLC shows that it holds for "pos+msg" and fails for "pos" as    *)
(* soon as two diagnostics share a position - which tells the harness      *)
(* which packages are worth running repeatedly: those that produce         *)
(* several diagnostics at one position from a map iteration.               *)
(***************************************************************************)
EXTENDS Naturals, Sequences, FiniteSets, TLC

CONSTANTS Diags,      \* set of [pos, msg] with pos, msg naturals
          SortKey

DiagsVal == { [pos |-> 1, msg |-> 2], [pos |-> 1, msg |-> 1], [pos |-> 1, msg |-> 3], [pos |-> 2, msg |-> 1], [pos |-> 0, msg |-> 5] }

VARIABLES pending, sink, printed
vars == <<pending, sink, printed>>

Init == pending = Diags /\ sink = <<>> /\ printed = <<>>

Add == /\ pending # {} /\ printed = <<>>
       /\ \E d \in pending : sink' = Append(sink, d) /\ pending' = pending \ {d}
       /\ UNCHANGED printed

Less(a, b) == IF SortKey = "pos" THEN a.pos < b.pos
              ELSE a.pos < b.pos \/ (a.pos = b.pos /\ a.msg < b.msg)

\* stable insertion of x into the sorted sequence s
RECURSIVE Insert(_, _)
Insert(s, x) == IF s = <<>> THEN <<x>>
                ELSE IF Less(x, s[1]) THEN <<x>> \o s ELSE <<s[1]>> \o Insert(Tail(s), x)
RECURSIVE InsSort(_)
InsSort(s) == IF s = <<>> THEN <<>> ELSE Insert(InsSort(SubSeq(s, 1, Len(s) - 1)), s[Len(s)])

PrintOut == /\ pending = {} /\ printed = <<>> /\ sink # <<>>
         /\ printed' = InsSort(sink)
         /\ UNCHANGED <<pending, sink>>

Next == Add \/ PrintOut
Spec == Init /\ [][Next]_vars

\* the canonical output: what any run must print
Canonical == CHOOSE s \in [1..Cardinality(Diags) -> Diags] :
               /\ \A i, j \in 1..Cardinality(Diags) : i < j => (s[i].pos < s[j].pos \/ (s[i].pos = s[j].pos /\ s[i].msg < s[j].msg))
OutputIndependentOfCollectionOrder == printed # <<>> => printed = Canonical
=============================================================================
