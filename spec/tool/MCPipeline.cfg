INIT Init
NEXT Next
INVARIANTS NoWriteBeforeAllValidated ErrorImpliesUntouched ErrorAnywhereImpliesExitNonZero ValidExitsZero Export
CHECK_DEADLOCK FALSE
