\* every configuration on 3 directories, self-imports included, <=1 duplicated namespace; Limit as in the code
CONSTANTS N = 3  Limit = 10  Family = "allself"
INIT Init
NEXT Next
INVARIANTS TypeOK Terminates OutcomeMatches LoadedExactlyReach Export
CHECK_DEADLOCK FALSE
