\* every loop-free-or-not configuration on 4 directories without self-imports, <=1 duplicated namespace
CONSTANTS N = 4  Limit = 10  Family = "all"
INIT Init
NEXT Next
INVARIANTS TypeOK Terminates OutcomeMatches LoadedExactlyReach Export
CHECK_DEADLOCK FALSE
