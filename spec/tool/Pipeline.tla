------------------------------ MODULE Pipeline ------------------------------
(***************************************************************************)
(* The `yardl generate` / `yardl validate` command as a sequence of        *)
(* phases (properties C11, C12).                                           *)
(*                                                                         *)
(* A configuration says where (if anywhere) the package is broken, which   *)
(* (cfg.uses: whether imports are referenced by their importers)           *)
(* targets are enabled and in what state the output directories are.       *)
(* The closure of a package: itself, its imports (two levels here), its    *)
(* previous versions and their imports.                                    *)
(*                                                                         *)
(* Actions (one per phase of generateImpl / validatePackage):              *)
(*   Load        read manifests of the closure (LoadPackage)               *)
(*   Override    apply -c key=value overrides                              *)
(*   Parse(p)    parse the model files of package p                        *)
(*   ValidateNs  validate the current version (with its imports)           *)
(*   ValidateVersion(v), Evolution                                         *)
(*   Generate(t), Write(t)   per enabled target, in the fixed order        *)
(*   Exit(code)                                                            *)
(* An error at a location is discovered by the action that looks at that   *)
(* location; the command must then exit non-zero without having written.   *)
(***************************************************************************)
EXTENDS Naturals, Sequences, FiniteSets, TLC, Json

\* manifest: unknown key; outdir_missing: the last enabled target's output directory is empty; import_manifest: a target
\* section without output directory in the manifest of an imported package
Locations == {"none", "manifest", "outdir_missing", "import_manifest", "main", "import1", "import2", "version", "version_import",
              "evolution", "duplicate_label", "bad_override"}
ErrKinds  == {"semantic", "syntax"}                 \* an ill-typed model vs. a file that does not parse (only for model files)
Targets   == {"cpp", "python", "json", "matlab"}
TargetOrder == <<"cpp", "python", "json", "matlab">>
OutStates == {"absent", "populated", "inside_pkg"}
Commands  == {"generate", "validate"}

VARIABLES cfg,           \* [loc, kind, targets, out, cmd]
          phase, parsed, validatedVersions, evolved, errors, written, generated, exit
vars == <<cfg, phase, parsed, validatedVersions, evolved, errors, written, generated, exit>>

HasVersions == TRUE                                  \* the base package always lists one previous version (with its own import)
Closure == {"main", "import1", "import2"}
VersionClosure == {"version", "version_import"}

\* uses: whether importing packages actually reference types of the packages they import (an unused import that is broken
\* must be reported all the same)
Configs == { c \in [loc : Locations, kind : ErrKinds, targets : (SUBSET Targets) \ {{}}, out : OutStates, cmd : Commands, uses : BOOLEAN] :
               /\ (c.loc \in {"none", "manifest", "outdir_missing", "import_manifest", "evolution", "duplicate_label", "bad_override"}
                     => c.kind = "semantic")
               /\ (c.cmd = "validate" => c.out = "absent" /\ c.targets = {"json"})
               /\ (~c.uses => c.loc \in {"none", "import1", "import2", "version_import"} /\ c.out = "absent") }

Init == /\ cfg \in Configs
        /\ phase = "start" /\ parsed = {} /\ validatedVersions = {} /\ evolved = FALSE /\ errors = {} /\ written = {}
        /\ generated = {} /\ exit = "running"

ErrAt(l) == cfg.loc = l
Fail(l) == errors' = errors \cup {l}

Load == /\ phase = "start" /\ exit = "running"
        /\ IF ErrAt("manifest") \/ ErrAt("outdir_missing") \/ ErrAt("import_manifest") THEN Fail(cfg.loc) /\ phase' = "failed"
           ELSE phase' = "loaded" /\ UNCHANGED errors
        /\ UNCHANGED <<cfg, parsed, validatedVersions, evolved, written, generated, exit>>

Override == /\ phase = "loaded"
            /\ IF ErrAt("bad_override") THEN Fail("bad_override") /\ phase' = "failed" ELSE phase' = "overridden" /\ UNCHANGED errors
            /\ UNCHANGED <<cfg, parsed, validatedVersions, evolved, written, generated, exit>>

\* parse the current version's closure, then validate it
ParseMain == /\ phase = "overridden"
             /\ parsed' = parsed \cup Closure
             /\ IF \E l \in Closure : ErrAt(l) /\ cfg.kind = "syntax" THEN Fail(cfg.loc) /\ phase' = "failed"
                ELSE phase' = "parsed" /\ UNCHANGED errors
             /\ UNCHANGED <<cfg, validatedVersions, evolved, written, generated, exit>>

ValidateNs == /\ phase = "parsed"
              /\ IF \E l \in Closure : ErrAt(l) THEN Fail(cfg.loc) /\ phase' = "failed"
                 ELSE phase' = "validatedNs" /\ UNCHANGED errors
              /\ UNCHANGED <<cfg, parsed, validatedVersions, evolved, written, generated, exit>>

ValidateVersion == /\ phase = "validatedNs"
                   /\ IF ErrAt("duplicate_label") THEN Fail("duplicate_label") /\ phase' = "failed" /\ UNCHANGED <<parsed, validatedVersions>>
                      ELSE /\ parsed' = parsed \cup VersionClosure
                           /\ IF \E l \in VersionClosure : ErrAt(l) THEN Fail(cfg.loc) /\ phase' = "failed" /\ UNCHANGED validatedVersions
                              ELSE validatedVersions' = {"v0"} /\ phase' = "versionsValidated" /\ UNCHANGED errors
                   /\ UNCHANGED <<cfg, evolved, written, generated, exit>>

Evolution == /\ phase = "versionsValidated"
             /\ evolved' = TRUE
             /\ IF ErrAt("evolution") THEN Fail("evolution") /\ phase' = "failed" ELSE phase' = "validated" /\ UNCHANGED errors
             /\ UNCHANGED <<cfg, parsed, validatedVersions, written, generated, exit>>

NextTarget == LET rest == SelectSeq(TargetOrder, LAMBDA t : t \in cfg.targets /\ t \notin generated) IN
              IF rest = <<>> THEN "none" ELSE rest[1]

Generate == /\ phase = "validated" /\ cfg.cmd = "generate" /\ NextTarget # "none"
            /\ generated' = generated \cup {NextTarget} /\ written' = written \cup {NextTarget}
            /\ UNCHANGED <<cfg, phase, parsed, validatedVersions, evolved, errors, exit>>

ExitOk == /\ phase = "validated" /\ (cfg.cmd = "validate" \/ NextTarget = "none") /\ exit = "running"
          /\ exit' = "0" /\ phase' = "done"
          /\ UNCHANGED <<cfg, parsed, validatedVersions, evolved, errors, written, generated>>

ExitErr == /\ phase = "failed" /\ exit = "running"
           /\ exit' = "1" /\ phase' = "done"
           /\ UNCHANGED <<cfg, parsed, validatedVersions, evolved, errors, written, generated>>

Next == Load \/ Override \/ ParseMain \/ ValidateNs \/ ValidateVersion \/ Evolution \/ Generate \/ ExitOk \/ ExitErr
Spec == Init /\ [][Next]_vars

-----------------------------------------------------------------------------
NoWriteBeforeAllValidated == written # {} => /\ errors = {} /\ validatedVersions = {"v0"} /\ evolved
                                             /\ parsed = Closure \cup VersionClosure
ErrorImpliesUntouched           == exit = "1" => written = {}
ErrorAnywhereImpliesExitNonZero == (exit # "running" /\ cfg.loc # "none") => exit = "1"
ValidExitsZero                  == (exit # "running" /\ cfg.loc = "none") => exit = "0" /\ (cfg.cmd = "generate" => written = cfg.targets)
Export == exit # "running" => PrintT(<<"CASE", ToJson([cfg |-> cfg, exit |-> exit, written |-> written])>>)
=============================================================================
