------------------------------ MODULE Pipeline ------------------------------
(***************************************************************************)
(* The `yardl generate` / `yardl validate` command as a sequence of        *)
(* phases (properties C11, C12).                                           *)
(*                                                                         *)
(* A configuration says where (if anywhere) the package is broken, which   *)
(* (cfg.uses: whether imports are referenced by their importers)           *)
(* targets are enabled and in what state the output directories are.       *)
(* The closure of a package: itself, its imports (two levels here), its    *)
(* previous versions and their imports.                                    *)
(*                                                                         *)
(* Actions (one per phase of generateImpl / validatePackage):              *)
(*   Load        read manifests of the closure (LoadPackage)               *)
(*   Override    apply -c key=value overrides                              *)
(*   Parse(p)    parse the model files of package p                        *)
(*   ValidateNs  validate the current version (with its imports)           *)
(*   ValidateVersion(v), Evolution                                         *)
(*   Generate(t), Write(t)   per enabled target, in the fixed order        *)
(*   Exit(code)                                                            *)
(* An error at a location is discovered by the action that looks at that   *)
(* location; the command must then exit non-zero without having written.   *)
(***************************************************************************)
EXTENDS Naturals, Sequences, FiniteSets, TLC, Json

\* manifest: unknown key; outdir_missing: the last enabled target's output directory is empty; import_manifest: a target
\* section without output directory in the manifest of an imported package
\* with two listed versions (cfg.nver = 2): version2 / version2_import: the second listed version or its import is broken;
\* evolution_first / evolution_last: the current model is incompatible with the first / the last listed version only
\* reserved_namespace / import_reserved_namespace: the namespace of the package / of its deepest import is a name that the generated
\* code of an enabled target uses itself (`Yardl`); found by generate's own check between validation and the first write
Locations == {"none", "manifest", "outdir_missing", "import_manifest", "main", "import1", "import2", "version", "version_import",
              "reserved_namespace", "import_reserved_namespace",
              "evolution", "duplicate_label", "bad_override", "version2", "version2_import", "evolution_first", "evolution_last"}
\* an ill-typed model vs. a file that does not parse (only for model files).  "semantic" is an unknown type (found by resolveTypes);
\* PassKinds has one more kind of semantic error per validation pass of dsl.Validate, because each pass walks the closure on its
\* own: a pass that looks at the top-level namespace only lets its kind of error through exactly when it sits in an import
PassKinds == {"type_name", "generic_def", "field_name", "step_name", "dimensions", "stream", "symbol", "union_tag", "cycle",
              "generic_arity", "map_key", "union_cases", "enum", "computed", "unused_param"}
ErrKinds  == {"semantic", "syntax"} \cup PassKinds
ModelLocs == {"main", "import1", "import2", "version", "version_import"}
Targets   == {"cpp", "python", "json", "matlab"}
TargetOrder == <<"cpp", "python", "json", "matlab">>
OutStates == {"absent", "populated", "inside_pkg"}
Commands  == {"generate", "validate"}

VARIABLES cfg,           \* [loc, kind, targets, out, cmd, uses, nver]
          phase, parsed, validatedVersions, evolved, errors, written, generated, exit
vars == <<cfg, phase, parsed, validatedVersions, evolved, errors, written, generated, exit>>

Closure == {"main", "import1", "import2"}
\* the base package lists one or two previous versions (each with its own import); they are validated, and then compared with
\* the current model, one after the other in the order of the manifest
Labels == IF cfg.nver = 2 THEN <<"v0", "v1">> ELSE <<"v0">>
LabelSet == { Labels[i] : i \in 1..Len(Labels) }
VersionLocs(lbl) == IF lbl = "v0" THEN {"version", "version_import"} ELSE {"version2", "version2_import"}
EvoLocs(lbl) == IF cfg.nver = 1 THEN {"evolution"} ELSE IF lbl = "v0" THEN {"evolution_first"} ELSE {"evolution_last"}
VersionClosure == UNION { VersionLocs(lbl) : lbl \in LabelSet }
NextLabel(done) == LET rest == SelectSeq(Labels, LAMBDA x : x \notin done) IN IF rest = <<>> THEN "none" ELSE rest[1]

\* uses: whether importing packages actually reference types of the packages they import (an unused import that is broken
\* must be reported all the same)
Configs == { c \in [loc : Locations, kind : ErrKinds, targets : (SUBSET Targets) \ {{}}, out : OutStates, cmd : Commands, uses : BOOLEAN, nver : {1, 2}] :
               /\ (c.loc \in {"reserved_namespace", "import_reserved_namespace"} =>
                      c.kind = "semantic" /\ c.cmd = "generate" /\ c.targets \cap {"cpp", "python"} # {} /\ c.nver = 1 /\ c.uses)
               /\ (c.loc \in {"none", "manifest", "outdir_missing", "import_manifest", "evolution", "duplicate_label", "bad_override",
                              "evolution_first", "evolution_last"} => c.kind = "semantic")
               /\ (c.kind \in PassKinds => c.loc \in ModelLocs /\ c.uses /\ c.nver = 1 /\ c.out \in {"absent", "populated"})
               /\ (c.loc \in {"version2", "version2_import", "evolution_first", "evolution_last"} => c.nver = 2)
               /\ (c.loc = "evolution" => c.nver = 1)
               /\ (c.nver = 2 => c.loc \in {"none", "version", "version_import", "version2", "version2_import", "evolution_first", "evolution_last"}
                                  /\ c.out # "inside_pkg" /\ c.uses)
               /\ (c.cmd = "validate" => c.out = "absent" /\ c.targets = {"json"})
               /\ (~c.uses => c.loc \in {"none", "import1", "import2", "version_import"} /\ c.out = "absent") }

Init == /\ cfg \in Configs
        /\ phase = "start" /\ parsed = {} /\ validatedVersions = {} /\ evolved = {} /\ errors = {} /\ written = {}
        /\ generated = {} /\ exit = "running"

ErrAt(l) == cfg.loc = l
Fail(l) == errors' = errors \cup {l}

Load == /\ phase = "start" /\ exit = "running"
        /\ IF ErrAt("manifest") \/ ErrAt("outdir_missing") \/ ErrAt("import_manifest") \/ ErrAt("reserved_namespace") \/ ErrAt("import_reserved_namespace")
           THEN Fail(cfg.loc) /\ phase' = "failed"
           ELSE phase' = "loaded" /\ UNCHANGED errors
        /\ UNCHANGED <<cfg, parsed, validatedVersions, evolved, written, generated, exit>>

Override == /\ phase = "loaded"
            /\ IF ErrAt("bad_override") THEN Fail("bad_override") /\ phase' = "failed" ELSE phase' = "overridden" /\ UNCHANGED errors
            /\ UNCHANGED <<cfg, parsed, validatedVersions, evolved, written, generated, exit>>

\* parse the current version's closure, then validate it
ParseMain == /\ phase = "overridden"
             /\ parsed' = parsed \cup Closure
             /\ IF \E l \in Closure : ErrAt(l) /\ cfg.kind = "syntax" THEN Fail(cfg.loc) /\ phase' = "failed"
                ELSE phase' = "parsed" /\ UNCHANGED errors
             /\ UNCHANGED <<cfg, validatedVersions, evolved, written, generated, exit>>

ValidateNs == /\ phase = "parsed"
              /\ IF \E l \in Closure : ErrAt(l) THEN Fail(cfg.loc) /\ phase' = "failed"
                 ELSE phase' = "validatedNs" /\ UNCHANGED errors
              /\ UNCHANGED <<cfg, parsed, validatedVersions, evolved, written, generated, exit>>

\* one listed version at a time (validatePackage's loop over packageInfo.Versions)
ValidateVersion == /\ phase = "validatedNs" /\ NextLabel(validatedVersions) # "none"
                   /\ LET lbl == NextLabel(validatedVersions) IN
                      IF ErrAt("duplicate_label") THEN Fail("duplicate_label") /\ phase' = "failed" /\ UNCHANGED <<parsed, validatedVersions>>
                      ELSE /\ parsed' = parsed \cup VersionLocs(lbl)
                           /\ IF \E l \in VersionLocs(lbl) : ErrAt(l) THEN Fail(cfg.loc) /\ phase' = "failed" /\ UNCHANGED validatedVersions
                              ELSE /\ validatedVersions' = validatedVersions \cup {lbl} /\ UNCHANGED errors
                                   /\ phase' = IF validatedVersions' = LabelSet THEN "versionsValidated" ELSE "validatedNs"
                   /\ UNCHANGED <<cfg, evolved, written, generated, exit>>

\* the current model against each listed version in turn (ValidateEvolution's loop); the first incompatibility ends it
Evolution == /\ phase = "versionsValidated" /\ NextLabel(evolved) # "none"
             /\ LET lbl == NextLabel(evolved) IN
                /\ evolved' = evolved \cup {lbl}
                /\ IF \E l \in EvoLocs(lbl) : ErrAt(l) THEN Fail(cfg.loc) /\ phase' = "failed"
                   ELSE /\ UNCHANGED errors /\ phase' = IF evolved' = LabelSet THEN "validated" ELSE "versionsValidated"
             /\ UNCHANGED <<cfg, parsed, validatedVersions, written, generated, exit>>

NextTarget == LET rest == SelectSeq(TargetOrder, LAMBDA t : t \in cfg.targets /\ t \notin generated) IN
              IF rest = <<>> THEN "none" ELSE rest[1]

Generate == /\ phase = "validated" /\ cfg.cmd = "generate" /\ NextTarget # "none"
            /\ generated' = generated \cup {NextTarget} /\ written' = written \cup {NextTarget}
            /\ UNCHANGED <<cfg, phase, parsed, validatedVersions, evolved, errors, exit>>

ExitOk == /\ phase = "validated" /\ (cfg.cmd = "validate" \/ NextTarget = "none") /\ exit = "running"
          /\ exit' = "0" /\ phase' = "done"
          /\ UNCHANGED <<cfg, parsed, validatedVersions, evolved, errors, written, generated>>

ExitErr == /\ phase = "failed" /\ exit = "running"
           /\ exit' = "1" /\ phase' = "done"
           /\ UNCHANGED <<cfg, parsed, validatedVersions, evolved, errors, written, generated>>

Next == Load \/ Override \/ ParseMain \/ ValidateNs \/ ValidateVersion \/ Evolution \/ Generate \/ ExitOk \/ ExitErr
Spec == Init /\ [][Next]_vars

-----------------------------------------------------------------------------
NoWriteBeforeAllValidated == written # {} => /\ errors = {} /\ validatedVersions = LabelSet /\ evolved = LabelSet
                                             /\ parsed = Closure \cup VersionClosure
ErrorImpliesUntouched           == exit = "1" => written = {}
ErrorAnywhereImpliesExitNonZero == (exit # "running" /\ cfg.loc # "none") => exit = "1"
ValidExitsZero                  == (exit # "running" /\ cfg.loc = "none") => exit = "0" /\ (cfg.cmd = "generate" => written = cfg.targets)
Export == exit # "running" => PrintT(<<"CASE", ToJson([cfg |-> cfg, exit |-> exit, written |-> written])>>)
=============================================================================
