\* design-only: a small Limit makes the depth logic reachable on 4 directories (not replayable: the code says 10)
CONSTANTS N = 4  Limit = 2  Family = "all"
INIT Init
NEXT Next
INVARIANTS TypeOK Terminates OutcomeMatches Export
CHECK_DEADLOCK FALSE
