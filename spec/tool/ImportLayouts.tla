--------------------------- MODULE ImportLayouts ---------------------------
(***************************************************************************)
(* Import resolution in directory trees that are not flat (property C18).  *)
(*                                                                         *)
(* An import is written as a path relative to the directory of the package *)
(* that imports.  Imports.tla works on sibling directories, where the      *)
(* string "../x" means the same directory for every importer.  Here the    *)
(* packages sit at two depths, so the same string can mean different       *)
(* directories for different importers ("../common" is common/ for app/    *)
(* but vendor/common/ for vendor/geom/): every import has to be resolved   *)
(* against the directory of its own importer, wherever and however often   *)
(* the string has been seen before.                                        *)
(*                                                                         *)
(* A layout is a set of import edges over six candidate directories (edges *)
(* only from an earlier to a later directory of Order, so there are no     *)
(* cycles).  Loaded(E) is the set of directories reachable from app/: the  *)
(* required outcome is acceptance with exactly those packages loaded, each *)
(* once.  The harness writes each layout to disk (every package uses a     *)
(* type of every package it imports) and runs the real tool.               *)
(***************************************************************************)
EXTENDS Naturals, Sequences, FiniteSets, TLC, Json, IOUtils, SequencesExt

D(top, sub, ns) == [top |-> top, sub |-> sub, ns |-> ns]
Order == << D("app", "", "App"), D("vendor", "geom", "Geom"), D("vendor", "lib", "VLib"), D("lib", "", "Lib"),
            D("common", "", "Common"), D("vendor", "common", "VCommon") >>
N == Len(Order)
PathOf(d) == IF d.sub = "" THEN d.top ELSE d.top \o "/" \o d.sub
\* the import string that names directory t from directory f
Rel(f, t) == IF f.sub = "" THEN "../" \o PathOf(t)
             ELSE IF t.sub # "" /\ t.top = f.top THEN "../" \o t.sub
             ELSE "../../" \o PathOf(t)

AllEdges == { <<i, j>> : i \in 1..N, j \in 1..N } \cap { e \in (1..N) \X (1..N) : e[1] < e[2] }
MaxEdges == 4
EdgeSets == { E \in SUBSET AllEdges : Cardinality(E) >= 1 /\ Cardinality(E) <= MaxEdges }

RECURSIVE Reach(_, _)
Reach(E, S) == LET T == S \cup { e[2] : e \in { x \in E : x[1] \in S } } IN IF T = S THEN S ELSE Reach(E, T)
Loaded(E) == Reach(E, {1})
Connected(E) == \A e \in E : e[1] \in Loaded(E)
\* two imports written with the same string that mean different directories
Ambiguous(E) == \E a, b \in E : a # b /\ Rel(Order[a[1]], Order[a[2]]) = Rel(Order[b[1]], Order[b[2]]) /\ a[2] # b[2]

Layouts == { E \in EdgeSets : Connected(E) /\ (Ambiguous(E) \/ Cardinality(E) <= 2) }

Case(E) == [ edges |-> { [from |-> PathOf(Order[e[1]]), to |-> PathOf(Order[e[2]]), str |-> Rel(Order[e[1]], Order[e[2]]),
                          to_ns |-> Order[e[2]].ns] : e \in E },
             dirs |-> { [path |-> PathOf(Order[i]), ns |-> Order[i].ns] : i \in Loaded(E) },
             ambiguous |-> Ambiguous(E), loaded |-> { Order[i].ns : i \in Loaded(E) } ]

ASSUME \A E \in Layouts : 1 \in Loaded(E)
ASSUME PrintT(<<"layouts", Cardinality(Layouts), "ambiguous", Cardinality({ E \in Layouts : Ambiguous(E) })>>)
ASSUME ndJsonSerialize(IOEnv.VERIF_OUT, SetToSeq({ Case(E) : E \in Layouts }))
=============================================================================
