CONSTANTS N = 2  Limit = 10  Family = "allself"
INVARIANTS TypeOK Terminates OutcomeMatches LoadedExactlyReach Export
PROPERTIES Termination
SPECIFICATION Spec
CHECK_DEADLOCK FALSE
