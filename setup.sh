#!/bin/sh
# Run once after a fresh restore, offline.  Verifies the toolchain and pre-parses every specification.
cd "$(dirname "$0")" || exit 1
fail=0
for t in go python3-vt tlc tla-sany g++ java; do command -v $t >/dev/null 2>&1 || { echo "missing tool: $t"; fail=1; }; done
tmp=$(mktemp -d /tmp/verif-setup-XXXXXX)
cp $(find spec -name '*.tla') "$tmp"/ 2>/dev/null
for f in "$tmp"/*.tla; do
  [ -e "$f" ] || continue
  (cd "$tmp" && JAVA_TOOL_OPTIONS="-Djava.io.tmpdir=$tmp" tla-sany "$(basename "$f")" >"$f.log" 2>&1) || { echo "SANY failed: $(basename "$f")"; tail -20 "$f.log"; fail=1; }
done
rm -rf "$tmp"
# warm the Go build cache so that the first check does not pay for it
(cd /repo/tooling && GOFLAGS=-mod=mod GOPROXY=off go build -tags verif -o /dev/null ./cmd/yardl) || { echo "yardl does not build"; fail=1; }
mkdir -p evidence
[ $fail -eq 0 ] && echo "setup ok"
exit $fail
