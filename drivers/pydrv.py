#!/usr/bin/env python3
"""Generic driver for a generated yardl Python package (run under python3-vt).

usage: pydrv.py <pkg_parent_dir> <module> <Protocol> copy <binary|ndjson> <binary|ndjson> <infile> <outfile> [mode]
  mode: "copy" (default, reader.copy_to(writer)), "items" (stream steps are consumed item by item and written one
        call per item), "list" (stream steps are materialised into a list first)
Exit status: 0 success, 1 the generated code raised (message on stderr, "EXC:<type>:"), 3 usage/driver error.
Every value is handed from the generated reader to the generated writer untouched: the driver knows nothing about types.
"""
import sys, os, importlib, inspect, traceback


def cuts(R, W, infmt, infile, cutsfile):
    """Feed every listed prefix of the input (in memory) to the reader, copying to an NDJSON writer; one result line per cut."""
    import io
    data = open(infile, "rb").read()
    cs = [len(data)] + [int(x) for x in open(cutsfile).read().split()]
    full = None
    for k, c in enumerate(cs):
        src = io.BytesIO(data[:c]) if infmt == "binary" else io.StringIO(data[:c].decode("utf-8", "ignore"))
        out = io.StringIO()
        status, what = "OK", ""
        try:
            w = W(out)
            try:
                r = R(src)
                r.copy_to(w)
                r.close()
                w.close()
            except BaseException:
                try:
                    w._stream.flush()
                except Exception:
                    pass
                raise
        except Exception as e:
            status, what = "EXC", ("%s: %s" % (type(e).__name__, e)).replace("\n", " ")[:200]
        text = out.getvalue()
        if k == 0:
            full = text
            print("FULL %s %d %s" % (status, len(text), what), flush=True)
            continue
        last = text.rfind("\n")
        complete = "" if last < 0 else text[:last + 1]
        print("CUT %d %s %d %d %s" % (c, status, complete.count("\n"), 1 if full.startswith(complete) else 0, what), flush=True)
    return 0


def as_ndarray(mod, items):
    import numpy as np
    if not items:
        return items
    try:
        first = items[0]
        if isinstance(first, (np.integer, np.floating, np.complexfloating)) and all(type(x) is type(first) for x in items):
            return np.array(items, dtype=type(first))
        dt = mod.get_dtype(type(first))
        if dt.fields is None:
            return items
        for name in dt.names:
            if dt.fields[name][0].kind not in "iufcb" or dt.fields[name][0].shape != ():
                return items
        arr = np.zeros(len(items), dtype=dt)
        for i, it in enumerate(items):
            for name in dt.names:
                arr[i][name] = getattr(it, name)
        return arr
    except Exception:
        return items


def main():
    if len(sys.argv) < 9:
        print("usage error", file=sys.stderr)
        return 3
    parent, module, proto, cmd, infmt, outfmt, infile, outfile = sys.argv[1:9]
    mode = sys.argv[9] if len(sys.argv) > 9 else "copy"
    sys.path.insert(0, parent)
    try:
        m = importlib.import_module(module)
    except Exception:
        traceback.print_exc()
        print("EXC:IMPORT", file=sys.stderr)
        return 4
    names = {"binary": "Binary%s", "ndjson": "NDJson%s"}
    R = getattr(m, names[infmt] % proto + "Reader")
    W = getattr(m, names[outfmt] % proto + "Writer")
    if cmd == "cuts":
        return cuts(R, W, infmt, infile, outfile)
    rc = 0
    src = infile
    if mode.startswith("short"):
        # a stream that hands out at most k bytes per read (a pipe / socket): exercises the reader's buffer compaction
        import io
        k = int(mode.split(":")[1])

        class Short(io.BufferedIOBase):
            def __init__(self, path):
                self._f = open(path, "rb")

            def readable(self):
                return True

            def readinto(self, b):
                data = self._f.read(min(k, len(b)))
                b[:len(data)] = data
                return len(data)

            def read(self, n=-1):
                return self._f.read(min(k, n) if n and n > 0 else k)

            def readline(self, n=-1):
                return self._f.readline()

            def close(self):
                self._f.close()
        src = Short(infile) if infmt == "binary" else infile
        mode = "copy"
    try:
        with W(outfile) as w:
            with R(src) as r:
                if mode == "copy":
                    r.copy_to(w)
                else:
                    base = [c for c in R.__mro__ if c.__name__ == proto + "ReaderBase"][0]
                    steps = [n[5:] for n, f in base.__dict__.items() if n.startswith("read_")]
                    for s in steps:
                        v = getattr(r, "read_" + s)()
                        is_stream = inspect.isgenerator(v)
                        if is_stream and mode == "items":
                            for item in v:
                                getattr(w, "write_" + s)([item])
                            getattr(w, "write_" + s)([])
                        elif is_stream and mode == "list":
                            getattr(w, "write_" + s)(list(v))
                        elif is_stream and mode == "ndarray":
                            # the items handed over as one NumPy array where that is possible (numeric scalars; flat records of numeric
                            # fields as a structured array of get_dtype(Record), the aligned layout NumPy users build), else as a list
                            items = list(v)
                            getattr(w, "write_" + s)(as_ndarray(m, items))
                        else:
                            getattr(w, "write_" + s)(v)
    except Exception as e:
        traceback.print_exc()
        print("EXC:%s:%s" % (type(e).__name__, e), file=sys.stderr)
        rc = 1
    return rc


sys.exit(main())
