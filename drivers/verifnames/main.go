// Tabulates yardl's real identifier-derivation functions.  The check copies this file into a scratch copy of
// /repo/tooling (cmd/verifnames) because the functions live in internal packages.
// stdin: {"member": [...], "type": [...], "namespace": [...]}   stdout: table JSON (see checks/c08.py)
package main

import (
	"encoding/json"
	"os"

	cppc "github.com/microsoft/yardl/tooling/internal/cpp/common"
	"github.com/microsoft/yardl/tooling/internal/formatting"
	matc "github.com/microsoft/yardl/tooling/internal/matlab/common"
	pyc "github.com/microsoft/yardl/tooling/internal/python/common"
)

type input struct {
	Member    []string `json:"member"`
	Type      []string `json:"type"`
	Namespace []string `json:"namespace"`
}

func tab(names []string, f func(string) string) map[string]string {
	m := map[string]string{}
	for _, n := range names {
		m[n] = f(n)
	}
	return m
}

func main() {
	var in input
	if err := json.NewDecoder(os.Stdin).Decode(&in); err != nil {
		panic(err)
	}
	out := map[string]map[string]map[string]string{
		"cpp": {
			"field":     tab(in.Member, cppc.FieldIdentifierName),
			"computed":  tab(in.Member, cppc.ComputedFieldIdentifierName),
			"enumvalue": tab(in.Member, cppc.EnumValueIdentifierName),
			"type":      tab(in.Type, cppc.TypeIdentifierName),
			"namespace": tab(in.Namespace, cppc.NamespaceIdentifierName),
			"step":      tab(in.Member, formatting.ToPascalCase),
		},
		"python": {
			"field":     tab(in.Member, pyc.FieldIdentifierName),
			"computed":  tab(in.Member, pyc.ComputedFieldIdentifierName),
			"enumvalue": tab(in.Member, pyc.EnumValueIdentifierName),
			"type":      tab(in.Type, pyc.TypeIdentifierName),
			"namespace": tab(in.Namespace, pyc.NamespaceIdentifierName),
			"step":      tab(in.Member, formatting.ToSnakeCase),
		},
		"matlab": {
			"field":     tab(in.Member, matc.FieldIdentifierName),
			"computed":  tab(in.Member, matc.ComputedFieldIdentifierName),
			"enumvalue": tab(in.Member, matc.EnumValueIdentifierName),
			"type":      tab(in.Type, matc.TypeIdentifierName),
			"namespace": tab(in.Namespace, matc.NamespaceIdentifierName),
			"step":      tab(in.Member, formatting.ToSnakeCase),
		},
	}
	enc := json.NewEncoder(os.Stdout)
	if err := enc.Encode(out); err != nil {
		panic(err)
	}
}
