#!/usr/bin/env python3
"""Call-sequence driver for a generated yardl Python package (python3-vt).

usage: pycalls.py <pkg_parent> <module> <Protocol> rcalls|wcalls binary|ndjson <file>   (script on stdin)
reader script:  read <i>            call read_<step i>() (for a stream step: obtain the iterable, consume nothing)
                take <i> <n>        consume up to n items from the iterable obtained for stream step i (n = -1: all)
                close
writer script:  write <i> <mode> <k>  non-stream: write a default value; stream: write k default items as mode list|gen
                close
Every call prints one line: "OK ..." or "EXC <type>: <msg>" (and stops).  Delivered values are printed as "VAL <step> <json>"
using the generated NDJSON converters' own to_json when available (otherwise repr)."""
import sys, importlib, json, traceback


def main():
    parent, module, proto, cmd, fmt, file = sys.argv[1:7]
    sys.path.insert(0, parent)
    m = importlib.import_module(module)
    base_r = getattr(m, proto + "ReaderBase")
    steps = [n[5:] for n in base_r.__dict__ if n.startswith("read_")]
    if cmd == "multiopen":
        # several readers, possibly of different protocols, opened one after the other in this one process:
        #   open <Protocol> <binary|ndjson> <file>     -> "OPENED <Protocol> first=<repr of first step value>" | "REFUSED <Protocol> <error>"
        for line in sys.stdin:
            a = line.split()
            if len(a) != 4 or a[0] != "open":
                continue
            pr, f2, path = a[1], a[2], a[3]
            R = getattr(m, ("Binary" if f2 == "binary" else "NDJson") + pr + "Reader")
            try:
                r = R(path)
                st = [n[5:] for n in getattr(m, pr + "ReaderBase").__dict__ if n.startswith("read_")]
                v = getattr(r, "read_" + st[0])()
                print("OPENED %s first=%r" % (pr, v), flush=True)
            except Exception as e:
                print("REFUSED %s %s: %s" % (pr, type(e).__name__, str(e).replace("\n", " ")[:120]), flush=True)
        return 0
    if cmd == "rcalls":
        R = getattr(m, ("Binary" if fmt == "binary" else "NDJson") + proto + "Reader")
        try:
            r = R(file)
        except Exception as e:
            print("EXC-OPEN %s: %s" % (type(e).__name__, e)); return 1
        print("OPEN", flush=True)
        its = {}
        keep, rc = False, 0
        for line in sys.stdin:
            a = line.split()
            if not a:
                continue
            if a[0] == "keepgoing":          # an error does not end the script: later calls are still performed
                keep = True
                continue
            try:
                if a[0] == "close":
                    r.close(); print("OK close", flush=True)
                elif a[0] == "read":
                    i = int(a[1])
                    v = getattr(r, "read_" + steps[i])()
                    if hasattr(v, "__next__"):
                        its[i] = v
                        print("OK iter", flush=True)
                    else:
                        print("OK value", flush=True)
                elif a[0] == "drop":
                    # the consumer walks away from the iterable (e.g. `break` in a for loop): the generator is finalised
                    it = its.pop(int(a[1]))
                    if hasattr(it, "close"):
                        it.close()
                    del it
                    print("OK dropped", flush=True)
                elif a[0] == "take":
                    i, n = int(a[1]), int(a[2])
                    k = 0
                    it = its[i]
                    exhausted = False
                    while n < 0 or k < n:
                        try:
                            next(it)
                        except StopIteration:
                            exhausted = True
                            break
                        k += 1
                    print("OK took %d %s" % (k, "end" if exhausted else "more"), flush=True)
            except Exception as e:
                print("EXC %s: %s" % (type(e).__name__, str(e).replace("\n", " ")[:200]), flush=True)
                if not keep:
                    return 1
                rc = 1
        return rc
    else:
        W = getattr(m, ("Binary" if fmt == "binary" else "NDJson") + proto + "Writer")
        # default values: read them from a template stream is not possible here; use the model's defaults through get_dtype-less
        # construction: every step in the C07 packages is `int` or a stream of `int`.
        try:
            w = W(file)
        except Exception as e:
            print("EXC-OPEN %s: %s" % (type(e).__name__, e)); return 1
        print("OPEN", flush=True)
        keep, rc = False, 0
        for line in sys.stdin:
            a = line.split()
            if not a:
                continue
            if a[0] == "keepgoing":
                keep = True
                continue
            try:
                if a[0] == "close":
                    w.close(); print("OK close", flush=True)
                elif a[0] == "write":
                    i = int(a[1]); mode = a[2]; k = int(a[3])
                    if mode == "value":
                        getattr(w, "write_" + steps[i])(7)
                    elif mode == "list":
                        getattr(w, "write_" + steps[i])([7] * k)
                    else:
                        getattr(w, "write_" + steps[i])((7 for _ in range(k)))
                    print("OK", flush=True)
            except Exception as e:
                print("EXC %s: %s" % (type(e).__name__, str(e).replace("\n", " ")[:200]), flush=True)
                if not keep:
                    return 1
                rc = 1
        return rc


sys.exit(main())
