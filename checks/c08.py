#!/usr/bin/env python3
"""C08 - every accepted package yields well-formed code for every target and option set.  See DESIGN.md section 3 (C08)."""
import os, sys, json, re, shutil, itertools, ast
sys.path.insert(0, os.path.join(os.path.dirname(os.path.abspath(__file__)), "..", "lib"))
from common import *
import drivers
import wireengine as we

# ---- this check's own keyword lists (language standards, not yardl's tables)
CPP_KEYWORDS = """alignas alignof and and_eq asm auto bitand bitor bool break case catch char char16_t char32_t class compl const constexpr
const_cast continue decltype default delete do double dynamic_cast else enum explicit export extern false float for friend goto if inline int long
mutable namespace new noexcept not not_eq nullptr operator or or_eq private protected public register reinterpret_cast return short signed sizeof
static static_assert static_cast struct switch template this thread_local throw true try typedef typeid typename union unsigned using virtual void
volatile wchar_t while xor xor_eq""".split()
PY_KEYWORDS = """False None True and as assert async await break class continue def del elif else except finally for from global if import in is lambda
nonlocal not or pass raise return try while with yield""".split()
MATLAB_KEYWORDS = """break case catch classdef continue else elseif end for function global if otherwise parfor persistent return spmd switch try
while""".split()

# ---- curated model names: words that are reserved, predefined or used by the generated code / runtime in some target
MEMBER_WORDS = CPP_KEYWORDS + [w for w in PY_KEYWORDS if w[0].islower()] + MATLAB_KEYWORDS + """
int32T uint8T sizeT std yardl np numpy self cls dtype typing datetime str int float list dict type id len isinstance property object value index tag
other kind schema close stream read write flush version state endStream this data size shape items keys values get set has hasValue reset emplace
swap begin at front back empty clear insert erase find count first second real imag min max abs pow exp log sin cos round floor ceil mod rem
zeros ones numel length ndims isempty disp plus minus times eq ne lt gt isequal double single string cell struct char logical methods properties
events enumeration result res obj varargin nargin true1 null nan inf pi eps i j ans json binary ndjson hdf5 protocols types date time none
optional union variant vector array map tuple pair printf errno assert1 main signal stdin stdout stderr unix linux
""".split()
# camelCase spellings whose snake_case form is a multi-word keyword or a <cstdint>-style type name
MEMBER_WORDS += [w.split("_")[0] + "".join(x.capitalize() for x in w.split("_")[1:]) for w in CPP_KEYWORDS if "_" in w]
MEMBER_WORDS += ["int8T", "int16T", "int64T", "uint16T", "uint32T", "uint64T", "ptrdiffT", "coAwait", "coReturn", "coYield", "isNot", "notIn"]
TYPE_WORDS = """None True False Optional Union List Dict Any Generic Enum IntFlag Types Protocols Binary Ndjson Yardl Std Date Time DateTime String Size
Int32 T Self Version Record Map Array Vector ProtocolError Writer Reader NULL EOF BUFSIZ Object Type Callable Int Float Bool Complex Str Bytes Tuple
Set Exception Error ValueError Iterable Iterator Protocol OutOfRangeEnum UnionCase DynamicNDArray FixedNDArray NDArray Monostate Variant Json
Double Single Cell Struct Char Logical Handle Inf NaN Pi E I J P X A FILE DIR Tm Timeval Sigaction Stat Complex64 Float32 Int8 UInt8 Uint8""".split()
NAMESPACE_WORDS = """Std Yardl Test Types Np Numpy Typing Sys Os Json Binary Ndjson Hdf5 Date Time Tm Detail Main Abc Enum Collections Datetime Math Io
Re Ast Types1 Float Int Class Def End For If While Function Namespace Private Public Int32 A1 AB Ab Struct Signal Log Index Select Random
Stat Clock System Exit Free Printf Abs Div Exp Sin Pow Rand Remove Rename Read Write Open Close Link Wait Sleep Puts Errno Stdin Unix Linux Min Max
String Vector Map Chrono Date Hdf5 Testing Mocks Detail Nlohmann Xt H5 Complex Array Optional Variant""".split()

ALWAYS = ["Version", "self", "other", "zeros", "eq", "ne", "isequal", "Binary", "Ndjson", "Types", "Yardl", "Np", "Typing", "Datetime", "Class", "Int"]

INIT_NAMES = ["mypkg", "my-pkg", "my_pkg", "MyPkg", "a", "A", "1abc", "my pkg", "my.pkg", "class", "std", "yardl", "import", "Def", "end", "a-b-c", "int",
              "numpy", "types", "test", "x1", "9", "-", "_", "ab_", "pkgAB", "pkg-1", "tm", "time", "detail"]


PY_STDLIB = set(getattr(sys, "stdlib_module_names", ())) | {"numpy", "test"}


def universe(first, rest, maxlen):
    out = []
    for n in range(0, maxlen):
        for f in first:
            for tail in itertools.product(rest, repeat=n):
                out.append(f + "".join(tail))
    return out


def sig(name):
    """shape of a name: a lower, A upper, 9 digit (powers of two > 4 kept, the snake-casing treats them specially)"""
    s = re.sub(r"[a-z]", "a", name)
    s = re.sub(r"[A-Z]", "A", s)
    return re.sub(r"\d", "9", s)


# ---------------------------------------------------------------- package builders
def pkg_yml(ns, config, imports=()):
    t = ""
    if imports:
        t += "imports:\n" + "".join("  - %s\n" % i for i in imports)
    t += "namespace: %s\n" % ns
    if config["cpp"]:
        t += "cpp:\n  sourcesOutputDir: ../cpp\n  generateNDJson: %s\n  generateHDF5: %s\n  generateCMakeLists: %s\n" % (
            str(config["cppNDJson"]).lower(), str(config["cppHDF5"]).lower(), str(config["cmake"]).lower())
        if config["overrideArrayHeader"]:
            t += "  overrideArrayHeader: yardl_shim_ndarray.h\n"
    if config["python"]:
        t += "python:\n  outputDir: ../py\n  generateNDJson: %s\n" % str(config["pyNDJson"]).lower()
    if config["matlab"]:
        t += "matlab:\n  outputDir: ../matlab\n"
    if config["json"]:
        t += "json:\n  outputDir: ../json\n"
    return t


FULL = {"cpp": True, "python": True, "matlab": True, "json": True, "cppNDJson": True, "cppHDF5": False, "cmake": False,
        "overrideArrayHeader": True, "pyNDJson": True}


def scope_package(root, scope, entries):
    """writes a package whose <scope> holds exactly the given (kind, name) entries; returns list of namespaces"""
    mdir = os.path.join(root, "model")
    os.makedirs(mdir, exist_ok=True)
    ns, imports, m = "Nm", [], []
    if scope == "record":
        fields = [n for k, n in entries if k == "field"] or ["plainField"]
        comp = [n for k, n in entries if k == "computed"]
        m += ["R: !record", "  fields:"] + ["    %s: int" % n for n in fields]
        if comp:
            m += ["  computedFields:"] + ["    %s: %s + 1" % (n, fields[0]) for n in comp]
        m += ["G: !record", "  fields:"] + ["    %s: string?" % n for n in fields]
        m += ["P: !protocol", "  sequence:", "    r: R", "    g: !stream", "      items: G"]
    elif scope == "enum":
        syms = [n for k, n in entries]
        m += ["E: !enum", "  values:"] + ["    - %s" % n for n in syms]
        m += ["F: !flags", "  values:"] + ["    - %s" % n for n in syms]
        m += ["U: [%s]" % ", ".join(["int", "string", "float", "bool", "double", "long"][:max(2, min(6, len(syms)))])]
        m += ["R: !record", "  fields:", "    e: E", "    f: F"]
        m += ["P: !protocol", "  sequence:", "    r: R", "    es: !stream", "      items: E"]
    elif scope == "protocol":
        m += ["P: !protocol", "  sequence:"]
        for i, (k, n) in enumerate(entries):
            m += ["    %s: int" % n] if i % 2 == 0 else ["    %s: !stream" % n, "      items: string"]
    elif scope == "types":
        names = [n for k, n in entries]
        for i, n in enumerate(names):
            kind = i % 4
            if kind == 0:
                m += ["%s: !record" % n, "  fields:", "    x: int"]
            elif kind == 1:
                m += ["%s: !enum" % n, "  values: [u, v]"]
            elif kind == 2:
                m += ["%s: !record" % n, "  fields:", "    y: string*"]
            else:
                m += ["%s: !flags" % n, "  values: [u, v]"]
        m += ["Holder: !record", "  fields:"] + ["    h%d: %s" % (i, n) for i, n in enumerate(names)]
        m += ["Pr: !protocol", "  sequence:", "    hs: !stream", "      items: Holder"] + ["    q%d: %s" % (i, n) for i, n in enumerate(names)]
    elif scope == "uniontags":
        tags = [n for k, n in entries]
        tys = ["int", "string", "float", "bool", "double", "long", "uint", "int8", "uint8", "int16", "uint16", "date", "time", "datetime", "ulong"]
        m += ["U: !union"] + ["  %s: %s" % (t, tys[i % len(tys)] if i < len(tys) else "%s*" % tys[i % len(tys)]) for i, t in enumerate(tags)]
        m += ["R: !record", "  fields:", "    u: U", "    v: U*"]
        m += ["P: !protocol", "  sequence:", "    r: R", "    us: !stream", "      items: U"]
    elif scope == "dims":
        dims = [n for k, n in entries]
        m += ["R: !record", "  fields:", "    a: int[%s]" % ", ".join(dims), "    b: float[%s]" % ", ".join("%s:2" % d for d in dims)]
        m += ["  computedFields:"] + ["    s%d: size(a, '%s')" % (i, d) for i, d in enumerate(dims)] + ["    t%d: dimensionIndex(b, '%s')" % (i, d) for i, d in enumerate(dims)]
        m += ["P: !protocol", "  sequence:", "    r: R"]
    elif scope == "imports":
        names = [n for k, n in entries]
        ns = names[0]
        for i, n in enumerate(names[1:]):
            d = os.path.join(root, "imp%d" % i)
            os.makedirs(d, exist_ok=True)
            open(os.path.join(d, "_package.yml"), "w").write("namespace: %s\n" % n)
            open(os.path.join(d, "m.yml"), "w").write("Thing%d: !record\n  fields:\n    x: int\n" % i)
            imports.append("../imp%d" % i)
        m += ["Local: !record", "  fields:", "    x: int"] + ["    t%d: %s.Thing%d" % (i, n, i) for i, n in enumerate(names[1:])]
        m += ["P: !protocol", "  sequence:", "    l: Local"]
    open(os.path.join(mdir, "model.yml"), "w").write("\n".join(m) + "\n")
    open(os.path.join(mdir, "_package.yml"), "w").write(pkg_yml(ns, FULL, imports))
    return mdir


# ---------------------------------------------------------------- inspection of generated code
PY_DUP_OK_DECOS = {"overload", "setter", "getter", "deleter"}


def python_duplicates(pyfile):
    """names defined twice in one class body or module (the second silently replaces the first)"""
    out = []
    try:
        tree = ast.parse(open(pyfile).read())
    except SyntaxError as e:
        return ["SyntaxError: %s line %s" % (e.msg, e.lineno)]
    for node in [tree] + [n for n in ast.walk(tree) if isinstance(n, ast.ClassDef)]:
        seen = {}
        for st in node.body:
            names = []
            if isinstance(st, (ast.FunctionDef, ast.AsyncFunctionDef, ast.ClassDef)):
                decos = set()
                for d in st.decorator_list:
                    decos.add(d.attr if isinstance(d, ast.Attribute) else d.id if isinstance(d, ast.Name) else "")
                if decos & PY_DUP_OK_DECOS:
                    continue
                names = [st.name]
            elif isinstance(st, ast.AnnAssign) and isinstance(st.target, ast.Name):
                names = [st.target.id]
            elif isinstance(st, ast.Assign) and isinstance(node, ast.ClassDef):
                names = [t.id for t in st.targets if isinstance(t, ast.Name)]
            for n in names:
                if n in seen and n not in ("_", "T", "__all__"):
                    out.append("%s defined twice in %s (lines %d and %d)" % (n, getattr(node, "name", "module"), seen[n], st.lineno))
                seen[n] = st.lineno
    return out


def matlab_problems(mroot):
    out = []
    for dp, dn, fn in os.walk(mroot):
        if "+yardl" in dp:
            continue
        for f in fn:
            if not f.endswith(".m"):
                continue
            txt = open(os.path.join(dp, f)).read()
            base = f[:-2]
            if base in MATLAB_KEYWORDS:
                out.append("file %s is named after a MATLAB keyword" % f)
            props = []
            for blk in re.finditer(r"^\s*properties[^\n]*\n(.*?)^\s*end\s*$", txt, re.S | re.M):
                for line in blk.group(1).splitlines():
                    mm = re.match(r"\s*([A-Za-z_]\w*)\s*(\(|=|;|$|%|[A-Za-z])", line)
                    if mm and not line.strip().startswith("%"):
                        props.append(mm.group(1))
            funcs = re.findall(r"^\s*function\s+(?:[\w\[\], ]+=\s*)?([A-Za-z_][\w\.]*)\s*\(", txt, re.M)
            enums = []
            for blk in re.finditer(r"^\s*enumeration[^\n]*\n(.*?)^\s*end\s*$", txt, re.S | re.M):
                enums += re.findall(r"^\s*([A-Za-z_]\w*)", blk.group(1), re.M)
            cls = re.search(r"^classdef\s+(?:\([^)]*\)\s*)?(\w+)", txt, re.M)
            for kind, names in (("property", props), ("method", [x for x in funcs if not x.startswith(("get.", "set."))]), ("enumeration member", enums)):
                seen = set()
                for n in names:
                    if n in MATLAB_KEYWORDS:
                        out.append("%s: %s '%s' is a MATLAB keyword" % (f, kind, n))
                    if n in seen and not (kind == "method" and cls and n == cls.group(1)):
                        out.append("%s: %s '%s' defined twice" % (f, kind, n))
                    seen.add(n)
            both = set(props) & set(x for x in funcs if not x.startswith(("get.", "set.")))
            for n in both:
                out.append("%s: '%s' is both a property and a method" % (f, n))
    return out


def inspect_generated(root, config, expect_namespaces=None, cpp_compile=True):
    """returns list of (target, problem)"""
    probs = []
    if config["python"]:
        pyroot = os.path.join(root, "py")
        mods = sorted(d for d in os.listdir(pyroot) if os.path.isdir(os.path.join(pyroot, d))) if os.path.isdir(pyroot) else []
        if not mods:
            probs.append(("python", "no python package was written"))
        for mod in mods:
            if mod in PY_STDLIB:
                # a top-level package named after a standard library module (or numpy) shadows it for the whole interpreter:
                # a deployment matter, not a clash inside the generated code - not judged
                continue
            code = "import importlib, pkgutil, sys\nsys.path.insert(0, %r)\nm = importlib.import_module(%r)\n" \
                   "for mi in pkgutil.walk_packages(m.__path__, m.__name__ + '.'):\n    importlib.import_module(mi.name)\n" % (pyroot, mod)
            rc, o, e = run([PY, "-c", code], timeout=300)
            if rc != 0:
                probs.append(("python", "generated package %s does not import: %s" % (mod, e.strip().splitlines()[-1][:300] if e.strip() else rc)))
            for dp, dn, fn in os.walk(os.path.join(pyroot, mod)):
                for f in fn:
                    if f.endswith(".py") and f not in ("_binary.py", "_ndjson.py", "_dtypes.py", "yardl_types.py"):
                        for d in python_duplicates(os.path.join(dp, f)):
                            probs.append(("python", "%s: %s" % (os.path.relpath(os.path.join(dp, f), pyroot), d)))
        if expect_namespaces:
            present = set()
            for mod in mods:
                present.add(mod)
                present |= set(d for d in os.listdir(os.path.join(pyroot, mod)) if os.path.isdir(os.path.join(pyroot, mod, d)) and d != "__pycache__")
            if len(present) < len(expect_namespaces):
                probs.append(("python", "%d namespaces but only %d python packages written (%s)" % (len(expect_namespaces), len(present), sorted(present))))
    if config["cpp"]:
        gen = os.path.join(root, "cpp")
        if not os.path.exists(os.path.join(gen, "types.h")):
            probs.append(("cpp", "no C++ sources were written"))
        elif config["overrideArrayHeader"] and cpp_compile:
            shutil.copy(os.path.join(drivers.SHIMS, "yardl_shim_ndarray.h"), os.path.join(gen, "yardl", "yardl_shim_ndarray.h"))
            srcs = []
            for dp, dn, fn in os.walk(gen):
                rel = os.path.relpath(dp, gen)
                if rel.startswith(("hdf5", "mocks", "yardl")) or "/hdf5" in rel:
                    continue
                srcs += [os.path.join(dp, f) for f in fn if f.endswith(".cc")]
            for src in sorted(srcs):
                rc, o, e = run(["g++", "-std=c++17", "-fsyntax-only", "-I", drivers.SHIMS, "-I", drivers.THIRD, "-I", gen, src], timeout=1200)
                if rc != 0:
                    errs = [l for l in e.splitlines() if "error" in l]
                    probs.append(("cpp", "%s does not compile as C++17: %s" % (os.path.relpath(src, gen), (errs[0] if errs else e[-300:])[:400])))
        if config["cmake"] and os.path.exists(os.path.join(gen, "types.h")):
            cm = os.path.join(gen, "CMakeLists.txt")
            if not os.path.exists(cm):
                probs.append(("cpp", "generateCMakeLists is on but no CMakeLists.txt was written"))
            else:
                for f in re.findall(r"([\w/]+\.cc)", open(cm).read()):
                    if not os.path.exists(os.path.join(gen, f)):
                        probs.append(("cpp", "CMakeLists.txt names %s, which was not generated" % f))
        if os.path.exists(os.path.join(gen, "types.h")):
            if os.path.isdir(os.path.join(gen, "ndjson")) != bool(config["cppNDJson"]) and not os.environ.get("VERIF_C08_LAX"):
                probs.append(("cpp", "generateNDJson=%s but ndjson sources %s" % (config["cppNDJson"], "exist" if os.path.isdir(os.path.join(gen, "ndjson")) else "are missing")))
            if os.path.isdir(os.path.join(gen, "hdf5")) != bool(config["cppHDF5"]):
                probs.append(("cpp", "generateHDF5=%s but hdf5 sources %s" % (config["cppHDF5"], "exist" if os.path.isdir(os.path.join(gen, "hdf5")) else "are missing")))
    if config["matlab"]:
        mroot = os.path.join(root, "matlab")
        if not os.path.isdir(mroot):
            probs.append(("matlab", "no MATLAB output was written"))
        else:
            for p in matlab_problems(mroot):
                probs.append(("matlab", p))
            if expect_namespaces:
                dirs = [d for d in os.listdir(mroot) if d.startswith("+") and d != "+yardl"]
                if len(dirs) < len(expect_namespaces):
                    probs.append(("matlab", "%d namespaces but only %d MATLAB packages written (%s)" % (len(expect_namespaces), len(dirs), dirs)))
    if config["json"]:
        jroot = os.path.join(root, "json")
        files = os.listdir(jroot) if os.path.isdir(jroot) else []
        if not files:
            probs.append(("json", "no JSON model was written"))
        for f in files:
            try:
                json.load(open(os.path.join(jroot, f)))
            except ValueError as e:
                probs.append(("json", "%s is not JSON: %s" % (f, e)))
    return probs


C_MACROS = {"errno", "stdin", "stdout", "stderr", "EOF", "BUFSIZ", "NULL", "assert", "unix", "linux", "SEEK_SET", "RAND_MAX", "EXIT_SUCCESS", "NDEBUG",
            "CHAR_BIT", "INT_MAX", "FILENAME_MAX", "L_tmpnam", "TMP_MAX", "FOPEN_MAX", "HUGE_VAL", "INFINITY", "NAN", "MB_CUR_MAX"}


def problem_class(target, prob, names=""):
    """coarse class of a compiler diagnostic, so that a recorded finding (e.g. namespaces that coincide with C library globals) does not hide
    a different failure for the same kind of name"""
    if target != "cpp":
        return "x"
    if "redeclared as different kind of entity" in prob:
        return "libc-clash"
    if any(n.split(":")[-1] in C_MACROS for n in names.split("/")):
        return "macro-clash"
    if re.search(r"expected (identifier|unqualified-id) before (numeric constant|‘\(’ token|'\(' token)", prob):
        return "macro-clash"
    if "vector<bool" in prob or ("use of deleted function" in prob and "serializers.h" in prob):
        return "vector-bool"
    return "other"


def generate(yardl, mdir, home):
    rc, o, e = run([yardl, "generate"], cwd=mdir, env=yardl_env(home), timeout=300)
    txt = re.sub(r"\x1b\[[0-9;]*m", "", (e or "") + (o or ""))
    panic = "panic:" in txt or "goroutine " in txt or rc not in (0, 1)
    return rc, txt, panic


def main():
    c = Check("C08", "exploration")
    sc = scratch("verif-c08-")
    yardl = build_yardl(sc)
    home = os.path.join(sc, "home")
    thorough = c.tier == "thorough"
    # ---- 1. tabulate the real derivation functions
    tcopy = os.path.join(sc, "tooling")
    run(["rsync", "-a", "--exclude", ".git", os.path.join(REPO, "tooling") + "/", tcopy + "/"], check=True)
    os.makedirs(os.path.join(tcopy, "cmd", "verifnames"))
    shutil.copy(os.path.join(VERIF, "drivers", "verifnames", "main.go"), os.path.join(tcopy, "cmd", "verifnames", "main.go"))
    rc, o, e = run(["go", "build", "-o", os.path.join(sc, "verifnames"), "./cmd/verifnames"], cwd=tcopy, env=go_env(), timeout=900)
    if rc != 0:
        raise Inconclusive("cannot build the name tabulator against the working tree: " + e[-1500:])
    maxlen = 4 if thorough else 3
    members = sorted(set(universe("ab", "abAB128", maxlen) + [w for w in MEMBER_WORDS if re.fullmatch(r"[a-z][a-zA-Z0-9]{0,63}", w)]))
    types = sorted(set(universe("AB", "abAB128", maxlen) + [w for w in TYPE_WORDS if re.fullmatch(r"[A-Z][a-zA-Z0-9]{0,63}", w)]))
    nss = sorted(set(universe("AB", "abAB128", 3) + [w for w in NAMESPACE_WORDS if re.fullmatch(r"[A-Z][a-zA-Z0-9]*", w)]))
    rc, o, e = run([os.path.join(sc, "verifnames")], input=json.dumps({"member": members, "type": types, "namespace": nss}).encode(), timeout=300)
    if rc != 0:
        raise Inconclusive("name tabulator failed: " + e[-800:])
    wd = os.path.join(sc, "tlc")
    os.makedirs(wd)
    open(os.path.join(wd, "names.json"), "w").write(o)
    json.dump({"cpp": CPP_KEYWORDS, "python": PY_KEYWORDS, "matlab": MATLAB_KEYWORDS}, open(os.path.join(wd, "reserved.json"), "w"))
    env = {"VERIF_NAMES": os.path.join(wd, "names.json"), "VERIF_RESERVED": os.path.join(wd, "reserved.json"),
           "VERIF_OUT_CLASHES": os.path.join(wd, "clashes.ndjson"), "VERIF_OUT_RESERVED": os.path.join(wd, "reservedhits.ndjson"),
           "VERIF_OUT_CONFIGS": os.path.join(wd, "configs.ndjson")}
    res = tlc_eval("Names", timeout=3000, workdir=wd, env=env, spec_dirs=[os.path.join(VERIF, "spec", "names")])
    c.add_tlc(res)
    clashes = [json.loads(l) for l in open(env["VERIF_OUT_CLASHES"]) if l.strip()]
    rhits = [json.loads(l) for l in open(env["VERIF_OUT_RESERVED"]) if l.strip()]
    configs = [json.loads(l) for l in open(env["VERIF_OUT_CONFIGS"]) if l.strip()]
    c.cov["states"] = len(members) * 9 + len(types) * 3 + len(nss) * 3
    c.cov["transitions"] = len(clashes) + len(rhits) + len(configs)
    c.cov["spec_counterexamples"] = {"InjectivePerScope": len(clashes), "AvoidsReserved": len(rhits)}
    print("Names.tla: %d names tabulated; %d clash classes, %d reserved hits, %d configurations" % (len(members) + len(types) + len(nss), len(clashes), len(rhits), len(configs)))

    # ---- 2. confirm counterexamples on the real tool
    jobs = []
    by_sig = {}
    for cl in clashes:
        ents = sorted(cl["entries"])
        s = (cl["scope"], tuple(sorted(set(sig(n) for k, n in ents))), tuple(sorted(set(k for k, n in ents))))
        by_sig.setdefault(s, []).append(cl)
    per_sig = 3 if thorough else 1
    seen_pairs = set()
    for s, lst in sorted(by_sig.items()):
        c.rng.shuffle(lst)
        for cl in lst[:per_sig]:
            ents = sorted(cl["entries"])[:3]
            # at most two distinct names are needed to make the clash
            names = []
            for k, n in ents:
                if n not in [x[1] for x in names]:
                    names.append((k, n))
            names = names[:2]
            key = (cl["scope"], tuple(names))
            if key in seen_pairs:
                continue
            seen_pairs.add(key)
            jobs.append({"kind": "clash", "scope": cl["scope"], "entries": names, "sig": "+".join(sorted(sig(n) for k, n in names)), "spec_target": cl["t"]})
    # union tags and array dimension names are member names too: the record-scope clash classes and the member words are tried there as well
    for j in [j for j in jobs if j["kind"] == "clash" and j["scope"] == "record" and all(k == "field" for k, n in j["entries"])]:
        for sc2, k2 in (("uniontags", "tag"), ("dims", "dim")):
            jobs.append({"kind": "clash", "scope": sc2, "entries": [(k2, n) for k, n in j["entries"]], "sig": j["sig"], "spec_target": j["spec_target"]})
    # names landing on a keyword, and curated words: batched per scope, bisected on failure
    singles = {}
    for h in rhits:
        singles.setdefault(h["scope"], set()).add(tuple(h["entry"]))
    for scope, kinds, words in (("record", ("field", "computed"), MEMBER_WORDS), ("enum", ("enumvalue",), MEMBER_WORDS), ("protocol", ("step",), MEMBER_WORDS),
                                ("uniontags", ("tag",), MEMBER_WORDS), ("dims", ("dim",), MEMBER_WORDS),
                                ("types", ("type",), TYPE_WORDS), ("imports", ("namespace",), NAMESPACE_WORDS)):
        for w in words:
            ok = re.fullmatch(r"[a-z][a-zA-Z0-9]{0,63}", w) if scope in ("record", "enum", "protocol", "uniontags", "dims") else re.fullmatch(r"[A-Z][a-zA-Z0-9]*", w)
            if ok:
                for k in kinds:
                    singles.setdefault(scope, set()).add((k, w))
    for scope, ents in sorted(singles.items()):
        ents = sorted(ents)
        if not thorough:
            c.rng.shuffle(ents)
            # keywords, and the words behind defects that were found and repaired, are always tried; the rest is sampled
            keep = [e for e in ents if e[1] in CPP_KEYWORDS + PY_KEYWORDS + MATLAB_KEYWORDS + ALWAYS]
            rest = [e for e in ents if e not in keep]
            ents = sorted(keep + rest[:max(40, len(rest) // 3)])
        size = 1 if scope == "imports" else 6 if scope == "dims" else 12
        for i in range(0, len(ents), size):
            batch = ents[i:i + size]
            # a batch must not contain two entries that yardl itself would reject together (same model name twice)
            names, b2 = set(), []
            for k, n in batch:
                if n in names:
                    jobs.append({"kind": "single", "scope": scope, "entries": [(k, n)], "sig": n})
                    continue
                names.add(n)
                b2.append((k, n))
            jobs.append({"kind": "single", "scope": scope, "entries": b2, "sig": ""})

    def run_scope_job(job, tag):
        root = os.path.join(sc, "j%s" % tag)
        ents = [tuple(e) for e in job["entries"]]
        if job["scope"] == "imports" and job["kind"] == "single":
            ents = [("namespace", "Mainpkg")] + ents            # the word as an imported namespace ...
        mdir = scope_package(root, job["scope"], ents)
        rc, txt, panic = generate(yardl, mdir, home)
        r = {"job": job, "rc": rc, "panic": panic, "msg": txt[-1500:], "probs": [], "model": open(os.path.join(mdir, "model.yml")).read()[:3000]}
        if rc == 0:
            nsl = [n for k, n in ents] if job["scope"] == "imports" else None
            r["probs"] = inspect_generated(root, FULL, expect_namespaces=nsl)
        if job["scope"] == "imports" and job["kind"] == "single" and rc == 0:
            # ... and as the main namespace
            root2 = root + "m"
            mdir2 = scope_package(root2, "imports", [tuple(job["entries"][0])])
            rc2, txt2, panic2 = generate(yardl, mdir2, home)
            if panic2:
                r["panic"], r["msg"] = True, txt2[-1500:]
            if rc2 == 0:
                r["probs"] += inspect_generated(root2, FULL)
            shutil.rmtree(root2, ignore_errors=True)
        shutil.rmtree(root, ignore_errors=True)
        return r

    counter = itertools.count()

    def work(job):
        r = run_scope_job(job, next(counter))
        out = []
        if job["kind"] == "single" and len(job["entries"]) > 1 and (r["probs"] or r["panic"] or r["rc"] != 0):
            # attribute: each entry on its own
            for e in job["entries"]:
                j2 = {"kind": "single", "scope": job["scope"], "entries": [e], "sig": e[1]}
                out.append(run_scope_job(j2, next(counter)))
            return out
        return [r]

    results = [r for lst in pmap(work, jobs, jobs=NCPU) for r in lst]
    rejected = 0
    for r in results:
        job = r["job"]
        names = "/".join("%s:%s" % tuple(e) for e in job["entries"])
        c.count((job["kind"], job["scope"], job["sig"] or names), nontrivial=True)
        c.cov["traces_validated_against_impl"] += 1
        if r["panic"]:
            c.violation("C08:panic:%s:%s" % (job["scope"], job["sig"] or names), "yardl generate crashes on a package with %s in scope %s: %s" % (
                names, job["scope"], r["msg"][-300:]), {"scope": job["scope"], "entries": job["entries"], "model": r["model"], "output": r["msg"]})
            continue
        if r["rc"] != 0:
            rejected += 1
            continue
        seen = set()
        for target, prob in r["probs"]:
            if (target,) in seen:
                continue
            seen.add((target,))
            key = "C08:%s:%s:%s:%s:%s" % (job["kind"], target, job["scope"], job["sig"] if job["kind"] == "clash" else names, problem_class(target, prob, names))
            c.violation(key, "accepted package with %s in one %s scope: %s" % (names, job["scope"], prob),
                        {"scope": job["scope"], "entries": job["entries"], "target": target, "problem": prob,
                         "all_problems": [p for t, p in r["probs"] if t == target][:10], "model": r["model"]})
    c.cov["name_packages"] = len(results)
    c.cov["name_packages_rejected_by_yardl"] = rejected

    # ---- 3. random type graphs x configurations
    cases, _ = we.export_cases(1, tier=c.tier)
    m = 11 if thorough else 60
    cases2, _ = we.export_cases(2, mod=m, rem=(c.seed + 5) % m, tier=c.tier)
    tys = we.group_types(cases + cases2)
    c.rng.shuffle(tys)
    pkgs = []
    per = 20
    for i in range(0, len(tys), per):
        p = we.Package(len(pkgs), tys[i:i + per], sc)
        p.style = {"generics": ["none", "local", "imported"][p.idx % 3], "shorthand": p.idx % 2 == 1, "optional": "question", "prim_alias": p.idx % 4 == 1,
                   "generic_unions": p.idx % 5 == 2}
        pkgs.append(p)
    c.rng.shuffle(configs)
    if not thorough:
        pkgs = pkgs[:12]
    # every type shape also alone in a package, used by one plain and one stream step only (nothing else in the namespace declares
    # what that shape needs: TypeVars, helper classes, includes)
    iso, seen_cls = [], set()
    for t, cs in tys:
        k = we.type_class(t)
        if k in seen_cls:
            continue
        seen_cls.add(k)
        iso.append((t, cs))
    if not thorough:
        iso = iso[:45]
    iso_pkgs = []
    for t, cs in iso:
        p = we.Package(1000 + len(iso_pkgs), [(t, cs), (t, cs)], sc)
        p.style = {"generics": "none", "shorthand": len(iso_pkgs) % 2 == 1, "optional": "question"}
        iso_pkgs.append(p)
    cfg_jobs = []
    ci = 0
    per_pkg = (len(configs) + len(pkgs) - 1) // len(pkgs) if thorough else 6
    for p in pkgs:
        for _ in range(per_pkg):
            cfg = configs[ci % len(configs)]
            ci += 1
            cfg_jobs.append((p, cfg, ci))
        cfg_jobs.append((p, dict(FULL), -p.idx - 1))
    for p in iso_pkgs:
        cfg_jobs.append((p, dict(FULL), -p.idx - 1))

    # "accepted package" is the premise: a package of the random universe that yardl rejects under the full configuration (the concretiser
    # can produce two unions with the same tags and different types) is not a test
    def accepted(p):
        root = os.path.join(sc, "acc%d" % p.idx)
        q = we.Package(p.idx, [], root)
        q.steps, q.style, q.root = p.steps, p.style, root
        q.write_model()
        rc, txt, panic = generate(yardl, os.path.join(root, "model"), home)
        shutil.rmtree(root, ignore_errors=True)
        return p.idx, rc == 0 or panic
    ok_idx = {i for i, ok in pmap(accepted, pkgs + iso_pkgs, jobs=NCPU) if ok}
    dropped = len(pkgs) + len(iso_pkgs) - len(ok_idx)
    if dropped:
        c.note("%d packages of the random universe are rejected by yardl itself and were left out" % dropped)
    cfg_jobs = [j for j in cfg_jobs if j[0].idx in ok_idx]

    def cfg_work(arg):
        p, cfg, n = arg
        root = os.path.join(sc, "cfg%d_%d" % (p.idx, n if n >= 0 else 100000 - n))
        q = we.Package(p.idx, [], root)
        q.steps, q.style, q.root = p.steps, p.style, root
        q.write_model()
        mdir = os.path.join(root, "model")
        man = open(os.path.join(mdir, "_package.yml")).read()
        imports = "imports:\n  - ../lib\n" if man.startswith("imports:") else ""
        t = pkg_yml(q.ns, cfg)
        open(os.path.join(mdir, "_package.yml"), "w").write(imports + t)
        rc, txt, panic = generate(yardl, mdir, home)
        r = {"cfg": cfg, "rc": rc, "panic": panic, "msg": txt[-1200:], "probs": [], "idx": p.idx,
             "model": open(os.path.join(mdir, "model.yml")).read()[:3000]}
        if rc == 0:
            # C++ is compiled for the full configuration and for a third of the others (the sources differ only in which directories exist)
            unb = any(we.cpp_unbuildable(s["t"]) for s in p.steps)
            r["unbuildable"] = unb
            r["probs"] = inspect_generated(root, cfg, cpp_compile=(n < 0 or n % 3 == 0 or thorough))
        shutil.rmtree(root, ignore_errors=True)
        return r
    for r in pmap(cfg_work, cfg_jobs, jobs=NCPU):
        cfgs = ",".join(k for k, v in sorted(r["cfg"].items()) if v)
        c.count(("cfg", cfgs), nontrivial=True)
        c.cov["traces_validated_against_impl"] += 1
        if r["panic"] or r["rc"] != 0:
            c.violation("C08:config:generate:%s" % ("panic" if r["panic"] else "rejected"),
                        "a package that is accepted under the default options fails to generate with options {%s}: %s" % (cfgs, r["msg"][-300:]),
                        {"config": r["cfg"], "model": r["model"], "output": r["msg"]})
            continue
        seen = set()
        for target, prob in r["probs"]:
            if target in seen:
                continue
            seen.add(target)
            c.violation("C08:config:%s:%s" % (target, problem_class(target, prob)), "accepted package, options {%s}: %s" % (cfgs, prob),
                        {"config": r["cfg"], "target": target, "problem": prob, "model": r["model"]})

    # ---- 3b. package layouts: types reached through two levels of imports (the top package does not list the lowest one), a diamond,
    # generic / enum / union / alias definitions of the lowest package used by the middle one and only thereby by the top one
    CORE = ("Point: !record\n  fields:\n    x: int\n    y: float\nColor: !enum\n  values: [red, green]\nMode: !flags\n  values: [a, b]\n"
            "Box<T>: !record\n  fields:\n    v: T\n    n: T*\nNum: [int, float]\nPoints: Point*\nMaybe<T>: T?\nGrid: Point[2,2]\n")
    GEO = ("Shape: !record\n  fields:\n    origin: Core.Point\n    color: Core.Color\n    mode: Core.Mode\n    boxed: Core.Box<Core.Point>\n    n: Core.Num\n"
           "    pts: Core.Points\n    opt: Core.Maybe<Core.Color>\n    grid: Core.Grid\n  computedFields:\n    ox: origin.x\nShapes: Shape*\nTagged<T>: !record\n  fields:\n    t: T\n    b: Core.Box<T>\n")
    STYLE = "Pen: !record\n  fields:\n    color: Core.Color\n    width: float\n    at: Core.Point?\n"
    TOP = ("Canvas: !record\n  fields:\n    shapes: Geometry.Shapes\n    first: Geometry.Shape?\n    tagged: Geometry.Tagged<int>\n%s"
           "Draw: !protocol\n  sequence:\n    canvas: Canvas\n    items: !stream\n      items: Geometry.Shape\n    tags: Geometry.Tagged<string>*\n")
    # local types that are used only as type arguments of imported generic types, and are declared after their users
    LATE = ("Holder: !record\n  fields:\n    boxed: Core.Box<Item>\n    maybe: Core.Maybe<Kind>\n    tagged: Geometry.Tagged<Piece>\n    both: Core.Box<Core.Maybe<Deep>>\n"
            "HeldAlias: Core.Box<Late>\nHeldVec: Geometry.Tagged<Later>*\n"
            "Draw: !protocol\n  sequence:\n    holder: Holder\n    held: HeldAlias\n    more: !stream\n      items: HeldVec\n    direct: Core.Box<Last>\n"
            "Item: !record\n  fields:\n    i: int\nKind: !enum\n  values: [k1, k2]\nPiece: !record\n  fields:\n    p: Item\nDeep: !record\n  fields:\n    d: float\n"
            "Late: !record\n  fields:\n    l: Item\nLater: [int, string]\nLast: !record\n  fields:\n    z: Kind\n")
    layouts = {
        "late_local_type_arguments": {"core": ("Core", [], CORE), "geometry": ("Geometry", ["../core"], GEO), "model": ("Drawing", ["../geometry", "../core"], LATE)},
        "chain": {"core": ("Core", [], CORE), "geometry": ("Geometry", ["../core"], GEO), "model": ("Drawing", ["../geometry"], TOP % "")},
        "diamond": {"core": ("Core", [], CORE), "geometry": ("Geometry", ["../core"], GEO), "style": ("Style", ["../core"], STYLE),
                    "model": ("Drawing", ["../geometry", "../style"], TOP % "    pen: Style.Pen\n")},
        "chain_and_direct": {"core": ("Core", [], CORE), "geometry": ("Geometry", ["../core"], GEO),
                             "model": ("Drawing", ["../geometry", "../core"], TOP % "    p: Core.Point\n")},
    }

    def layout_work(arg):
        name, pk = arg
        root = os.path.join(sc, "layout-" + name)
        for d, (ns, imports, model) in pk.items():
            os.makedirs(os.path.join(root, d), exist_ok=True)
            open(os.path.join(root, d, "_package.yml"), "w").write(pkg_yml(ns, FULL, imports) if d == "model" else
                                                                   "namespace: %s\n%s" % (ns, "imports:\n" + "".join("  - %s\n" % i for i in imports) if imports else ""))
            open(os.path.join(root, d, "m.yml"), "w").write(model)
        rc, txt, panic = generate(yardl, os.path.join(root, "model"), home)
        probs = inspect_generated(root, FULL, expect_namespaces=[v[0] for v in pk.values()]) if rc == 0 else []
        shutil.rmtree(root, ignore_errors=True)
        return name, rc, panic, txt[-600:], probs
    for name, rc, panic, txt, probs in pmap(layout_work, sorted(layouts.items()), jobs=len(layouts)):
        c.count(("layout", name), nontrivial=True)
        c.cov["traces_validated_against_impl"] += 1
        if rc != 0:
            if panic:
                c.violation("C08:layout:%s:generate:panic" % name, "a package layout with nested imports makes `yardl generate` crash: %s" % txt[-300:], {"layout": name, "output": txt})
            else:
                raise Inconclusive("the import layout '%s' is meant to be valid but is rejected: %s" % (name, txt[-400:]))
            continue
        seen = set()
        for target, prob in probs:
            if target in seen:
                continue
            seen.add(target)
            c.violation("C08:layout:%s:%s:%s" % (name, target, problem_class(target, prob)), "accepted package with nested imports (%s): %s" % (name, prob),
                        {"layout": name, "target": target, "problem": prob, "packages": {d: v[2] for d, v in layouts[name].items()}})

    # ---- 4. yardl init scaffolds
    def init_work(name):
        root = os.path.join(sc, "init%d" % abs(hash(name)))
        os.makedirs(root)
        rc, o, e = run([yardl, "init", name], cwd=root, env=yardl_env(home), timeout=60)
        r = {"name": name, "init_rc": rc, "gen_rc": None, "probs": [], "msg": (e or o)[-500:]}
        if rc == 0:
            mdir = os.path.join(root, "model")
            man = open(os.path.join(mdir, "_package.yml")).read()
            man = man.replace("sourcesOutputDir: ../cpp/generated", "sourcesOutputDir: ../cpp\n  overrideArrayHeader: yardl_shim_ndarray.h\n  generateHDF5: false")
            man = man.replace("outputDir: ../python", "outputDir: ../py")
            open(os.path.join(mdir, "_package.yml"), "w").write(man)
            rc2, txt, panic = generate(yardl, mdir, home)
            r["gen_rc"], r["panic"], r["gen_msg"] = rc2, panic, txt[-600:]
            if rc2 == 0:
                cfg = dict(FULL, json=False)
                r["probs"] = inspect_generated(root, cfg)
        shutil.rmtree(root, ignore_errors=True)
        return r
    init_unusable = []
    for r in pmap(init_work, INIT_NAMES, jobs=NCPU):
        c.count(("init", r["name"]), nontrivial=True)
        c.cov["traces_validated_against_impl"] += 1
        if r["init_rc"] != 0:
            continue
        if r.get("panic"):
            c.violation("C08:init:panic:%s" % r["name"], "yardl generate crashes on the scaffold of 'yardl init %s': %s" % (r["name"], r["gen_msg"][-300:]), r)
        elif r["gen_rc"] != 0:
            init_unusable.append(r["name"])
        else:
            seen = set()
            for target, prob in r["probs"]:
                if target not in seen:
                    seen.add(target)
                    c.violation("C08:init:%s:%s:%s" % (target, r["name"], problem_class(target, prob)), "scaffold of 'yardl init %s' is accepted by yardl generate but: %s" % (r["name"], prob), r)
    if init_unusable:
        c.note("yardl init accepts these names but the scaffold is then rejected by yardl generate (outside C08's implication): %s" % init_unusable)
    c.sample({"clash_classes": len(by_sig), "examples": [j for j in jobs if j["kind"] == "clash"][:3]})
    c.assumptions += ["C++ is compiled with -fsyntax-only against /verif's array shim (overrideArrayHeader) - with the default xtensor header and for hdf5/ "
                      "sources (headers absent in the sandbox) only generation and file layout are checked",
                      "MATLAB cannot be run: classdef files are scanned for duplicate / keyword member names and missing package directories",
                      "Python: every module of the generated package is imported and scanned (ast) for names defined twice in one class or module",
                      "the universe of accepted packages is sampled; the identifier table is exhaustive up to the length bound on the alphabet {a,b,A,B,1,2,8} plus curated words"]
    c.finish(rule="Names.tla: TLC evaluates InjectivePerScope / AvoidsReserved on the tabulated real derivation functions and enumerates the 512 option sets; "
                  "each counterexample class (scope x name shapes) is confirmed on the real tool (rejected, or generated code must import / compile / have no "
                  "duplicate members); random type graphs are generated under the enumerated option sets; init scaffolds for %d names; "
                  "distinct = (scope, name shape) / option set / init name" % len(INIT_NAMES), exhaustive=False)


main_wrapper(main)
