#!/usr/bin/env python3
"""C16 - a truncated stream is reported, never mistaken for a complete one.  See DESIGN.md section 3 (C16)."""
import os, sys, json
sys.path.insert(0, os.path.join(os.path.dirname(os.path.abspath(__file__)), "..", "lib"))
from common import *
import wireengine as we, wirelib, drivers

BUF = 65536


def judge_cuts(c, key, desc, total, cuts, full, res, rc, stderr, must_raise, replay):
    """must_raise(cut) -> True (reader has to report an error) | False (a well-formed shorter stream: not asserted)."""
    if full != "OK":
        c.violation(key + ":complete-stream", "%s: the complete stream was not read without error (%s)" % (desc, full), replay)
        return
    missing = [x for x in cuts if x not in res]
    if missing:
        # the driver died (signal / sanitizer abort) while working on the first missing cut
        c.violation(key + ":crash", "%s: reader process died (exit %s) on the stream cut at byte %d of %d: %s" % (
            desc, rc, missing[0], total, stderr.strip()[-300:]), dict(replay, cut=missing[0]))
        return
    for cut in cuts:
        status, nlines, prefix_ok, what = res[cut]
        c.count(None)
        if not prefix_ok:
            c.violation(key + ":wrong-value-delivered", "%s cut at byte %d of %d: values delivered before the end of data differ from those written (%d lines; %s)" % (
                desc, cut, total, nlines, what[:120]), dict(replay, cut=cut))
            return
        if status == "OK" and must_raise(cut):
            c.violation(key + ":no-error", "%s cut at byte %d of %d: the reader completed normally (%d lines delivered)" % (desc, cut, total, nlines),
                        dict(replay, cut=cut))
            return


def main():
    c = Check("C16", "model_checking")
    sc = scratch("verif-c16-")
    yardl = build_yardl(sc)
    home = os.path.join(sc, "home")
    thorough = c.tier == "thorough"

    # ---- TLC: the buffered reader with a parametric buffer size, on every plan x every cut
    asfound = tlc("CodedStream", cfg="MCCodedStreamAsFound.cfg", timeout=900, workers=NCPU)
    c.add_tlc(asfound)
    mis = tlc_cases(asfound.out)
    classes = {}
    for m in mis:
        k = (m["op"]["k"], m["op"]["n"], m["status"], "cut%%B=%d" % (m["cut"] % m["bufsize"]))
        classes[k] = classes.get(k, 0) + 1
    c.cov["design_model_as_found"] = {"misbehaving_configurations": len(mis),
                                      "classes": sorted("%s(%d) %s %s: %d" % (k[0], k[1], k[2], k[3], v) for k, v in classes.items())[:40]}
    try:
        rep = tlc("CodedStream", cfg="MCCodedStream.cfg", timeout=900, workers=NCPU)
        c.add_tlc(rep)
        c.cov["design_model_current_code_invariants_hold"] = not rep.invariant_violated
        if rep.invariant_violated:
            c.note("CodedStream.tla (current code shape): %s violated at model level" % rep.violated_names())
    except Inconclusive as e:
        c.note("CodedStream current-code run inconclusive: %s" % str(e)[:200])

    cases, _ = we.export_cases(1, tier="quick")
    types = we.group_types(cases)
    bytype = {we.type_class(t): cs for t, cs in types}

    # ---- B. probes aligned to the buffer boundary: pad | probe | tail with the probe starting r bytes before 64 KiB
    def pick(tc, pred):
        for x in bytype[tc]:
            if pred(x):
                return x
        raise Inconclusive("no case for " + tc)
    probes = [("uint64", pick("uint64", lambda x: len(x["enc_b"][0]) == 10)),
              ("int32", pick("int32", lambda x: len(x["enc_b"][0]) == 5)),
              ("int64", pick("int64", lambda x: len(x["enc_b"][0]) == 2)),
              ("float64", pick("float64", lambda x: x["jsonable"] and x["i"] == 2)),
              ("string", pick("string", lambda x: len(x["enc_b"][0]) > 100)),
              ("vec(float32)", pick("vec(float32)", lambda x: x["jsonable"] and len(x["enc_b"][0]) >= 9)),
              ("opt(uint16)", pick("opt(uint16)", lambda x: len(x["enc_b"][0]) == 3)),
              ]
    tail = pick("uint8", lambda x: x["i"] == 3)
    strt = [t for t, cs in types if we.type_class(t) == "string"][0]
    u8t = [t for t, cs in types if we.type_class(t) == "uint8"][0]

    class ProbePkg(we.Package):
        def __init__(self, idx, name, case):
            t = [tt for tt, cs in types if we.type_class(tt) == name][0]
            we.Package.__init__(self, 100 + idx, [(strt, []), (t, [case]), (u8t, [tail])], sc)
            for s in self.steps:
                s["stream"] = False
            self.n_streams = 0
            self.name, self.case = name, case

    ppk = [ProbePkg(i, n, cs) for i, (n, cs) in enumerate(probes)]

    # ---- B2. a stream whose first value is one large array of fixed-width elements (read with a single bulk request for more bytes
    #      than everything that precedes it), then a one-byte tail: cuts inside the array
    import struct as _struct
    arr_types = [t for t, cs in types if t["k"] == "ndarr" and t.get("r") == 1 and t["t"].get("k") == "prim" and t["t"].get("p") == "float32"]

    class FirstBigPkg(we.Package):
        def __init__(self, idx, t, n):
            enc = wirelib.varint(n) + _struct.pack("<f", 1.5) * n
            self.bigcase = {"enc_b": [enc], "json": [None], "jsonable": False, "i": 1, "enc": [list(enc[:8])]}
            we.Package.__init__(self, 150 + idx, [(t, [self.bigcase]), (u8t, [tail])], sc)
            for s in self.steps:
                s["stream"] = False
            self.n_streams = 0
            self.count = n
    fbk = [FirstBigPkg(0, arr_types[0], 12000)] if arr_types else []
    # ---- C/D. small streams: a few packages of the wire universe
    rest = [x for x in types if not we.cpp_unbuildable(x[0])]
    c.rng.shuffle(rest)
    small = we.make_packages(rest[:(96 if thorough else 48)], 24, sc)
    # ---- E. the large stream
    pads = [0, 4, 9] if not thorough else [0, 2, 4, 7, 9, 11]
    bigrecs = pmap(we.export_big, pads, jobs=4)
    bp = we.BigPackage(sc, bigrecs[0])
    notes = []
    good, bad = we.prepare(ppk + fbk + small + [bp], yardl, home, notes=notes, sanitize=thorough)
    for n in notes:
        c.note(n)
    if len(bad) > 2:
        raise Inconclusive("too many unusable packages: %s" % notes[:2])

    jobs = []

    def run_cuts(p, lang, infmt, infile, cuts, bufsize=1):
        if lang == "cpp":
            return drivers.cpp_cuts(p.exe, infmt, infile, cuts, bufsize=bufsize)
        return drivers.py_cuts(os.path.join(p.root, "py"), p.pymod, p.proto, infmt, infile, cuts)

    # B
    for p in ppk:
        if not p.ok:
            continue
        L = len(p.case["enc_b"][0])
        hl = len(wirelib.binary_header(p.schema))
        for r in range(0, L + 2):
            padlen = BUF - r - hl - 3
            padv = {"enc_b": [wirelib.varint(padlen) + b"x" * padlen], "json": [{"j": "s", "tok": "s_x%d" % padlen}]}
            vals = [("value", padv), ("value", p.case), ("value", tail)]
            data = p.spec_binary(vals)
            start = hl + 3 + padlen
            assert start == BUF - r
            cuts = set(x for x in range(start - 2, start + L + 2) if 0 < x < len(data))
            # ... and cuts inside the padding string itself: one value that is larger than everything read so far (a bulk read of
            # more bytes than the truncated stream holds)
            cuts |= set(hl + 3 + (k * padlen) // 8 for k in range(1, 8)) | {hl + 4, hl + 3 + padlen - 1}
            cuts = sorted(x for x in cuts if 0 < x < len(data))
            jobs.append(("probe", p, "binary", data, cuts, {"probe": p.name, "starts_before_boundary": r, "probe_bytes": p.case["enc"][0]}, None))
    # B2
    for p in fbk:
        if not p.ok:
            continue
        vals = [("value", p.bigcase), ("value", tail)]
        data = p.spec_binary(vals)
        hl = len(wirelib.binary_header(p.schema))
        ln = len(p.bigcase["enc_b"][0])
        cuts = sorted(set([hl + int(ln * f) for f in (0.1, 0.3, 0.52, 0.6, 0.75, 0.9, 0.99)] + [hl + ln - 1, hl + ln, len(data) - 1]))
        jobs.append(("first-big", p, "binary", data, cuts, {"elements": p.count, "element": "float32"}, None))
    # C, D
    for p in small:
        if not p.ok:
            continue
        for r in ((1, 2) if not thorough else (1, 2, 3, 4)):
            vals = p.run_values(r, True)
            if vals is None:
                continue
            data = p.spec_binary(vals, block=[None, 1, 2][r % 3])
            hl = len(wirelib.binary_header(p.schema))
            cuts = sorted(set(list(range(1, hl, 41)) + list(range(hl - 6, len(data)))))
            jobs.append(("small-binary", p, "binary", data, cuts, {"run": r}, None))
            text = p.spec_ndjson(vals).encode("utf-8")
            lines = text.split(b"\n")[:-1]
            # byte offsets at which a line ends (exclusive of the newline) and the step each value line belongs to
            ends, pos = [], 0
            for l in lines:
                pos += len(l)
                ends.append(pos)
                pos += 1
            step_of_line = []
            for s, (k, v) in zip(p.steps, vals):
                step_of_line += [s] * (1 if k == "value" else len(v))
            owed_after = []      # after k complete value lines: is a non-stream step still owed?
            for k in range(len(step_of_line) + 1):
                delivered_steps = set(id(s) for s in step_of_line[:k])
                owed_after.append(any((not s["stream"]) and id(s) not in delivered_steps for s in p.steps))
            hdr_end = ends[0]
            cuts = sorted(set(list(range(1, hdr_end, 53)) + list(range(hdr_end - 3, len(text)))))

            def must_raise(cut, ends=ends, owed_after=owed_after):
                # complete lines in the prefix
                k = sum(1 for e in ends if e <= cut)
                inside = not (cut in ends or (cut - 1) in ends and cut > 0) and cut != 0
                if cut < ends[0]:
                    return True                       # inside the header line
                if inside:
                    return True                       # malformed JSON on the last line
                return owed_after[k - 1]              # k-1 value lines delivered (header excluded)
            jobs.append(("small-ndjson", p, "ndjson", text, cuts, {"run": r}, must_raise))
    # E
    if bp.ok:
        for pad, recs in zip(pads, bigrecs):
            vals = bp.vals_for(recs)
            data = bp.spec_binary(vals, block=[7, 1, None][pad % 3])
            nb = len(data) // BUF
            # cuts inside every element that is read with a single request larger than the buffer (late cuts included)
            inside, pos = [], len(wirelib.binary_header(bp.schema))
            for kind_, v in vals:
                ln = len(v["enc_b"][0]) if kind_ == "value" else sum(len(x["enc_b"][0]) for x in v) + len(v) + 1
                if kind_ == "value" and ln > BUF:
                    inside += [pos + int(ln * f) for f in (0.3, 0.55, 0.8, 0.97)] + [pos + ln - 1]
                pos += ln
            for lang, ks in (("cpp", range(1, nb + 1)), ("py", range(1, min(nb, 3 if not thorough else 6) + 1))):
                cuts = sorted(set([BUF * k + d for k in ks for d in (-9, -5, -2, -1, 0, 1, 2, 3, 6, 10) if 0 < BUF * k + d < len(data)] + inside))
                jobs.append(("big", bp, "binary", data, cuts, {"pad": pad, "only": lang}, None))

    def work(job):
        kind, p, infmt, data, cuts, info, must = job
        out = []
        wd = os.path.join(p.root, "io")
        os.makedirs(wd, exist_ok=True)
        infile = os.path.join(wd, "cut-%s-%d.%s" % (kind, abs(hash(json.dumps(info, sort_keys=True))) % 10**8, "bin" if infmt == "binary" else "ndjson"))
        open(infile, "wb").write(data)
        for lang in p.langs:
            if info.get("only") and info["only"] != lang:
                continue
            full, res, se, rc = run_cuts(p, lang, infmt, infile, cuts)
            out.append((kind, p, lang, infmt, len(data), cuts, full, res, rc, se, info, must))
            if lang == "cpp" and infmt == "binary" and kind == "small-binary":
                # the same cuts read through the batch path (CopyTo with a buffer of 3 items -> ReadBlocksIntoVector): a cut at a block
                # boundary of the last stream step must not be taken for the end-of-stream marker
                full, res, se, rc = run_cuts(p, lang, infmt, infile, cuts, bufsize=3)
                out.append((kind, p, lang, infmt, len(data), cuts, full, res, rc, se, dict(info, copy_buffer=3), must))
        os.remove(infile)
        return out

    results = [x for lst in pmap(work, jobs) for x in lst]
    ncuts = 0
    for kind, p, lang, infmt, total, cuts, full, res, rc, se, info, must in results:
        c.cov["traces_validated_against_impl"] += len(res)
        ncuts += len(res)
        for cut in cuts:
            c._distinct.add((kind, lang, json.dumps(info, sort_keys=True), cut))
        desc = "%s %s reader, %s stream %s" % (lang, infmt, kind, json.dumps({k: v for k, v in info.items() if k != "probe_bytes"}))
        key = "C16:%s:%s:%s" % (lang, kind, info.get("probe", infmt))
        model = open(os.path.join(p.root, "model", "model.yml")).read()
        judge_cuts(c, key, desc, total, cuts, full, res, rc, se, must or (lambda cut: True),
                   {"kind": kind, "lang": lang, "format": infmt, "info": info, "package_model": model[:3000]})
    c.cov["evaluations"] = ncuts
    c.cov["probe_types"] = [n for n, _ in probes]
    c.sample({"kind": "probe", "probe": "uint64 max (10-byte varint)", "starts_before_boundary": 3, "cuts": "every byte from 2 before the probe to 1 after it"})
    c.sample({"kind": "small-ndjson", "rule": "cut inside a line => must raise; at a line boundary => must raise iff a non-stream step is still owed"})
    c.assumptions += ["a cut at an NDJSON line boundary inside a trailing run of stream steps is a well-formed shorter stream and is not asserted",
                      "delivered values are compared as the NDJSON lines written before the error against the lines of the complete run (which is validated by C01/C02)",
                      "sanitizer (ASan+UBSan) build of the C++ driver in the thorough tier only"]
    c.finish(rule="every listed prefix of a spec-composed stream is fed to the generated C++ and Python readers: (B) probes of 7 element kinds placed "
                  "r = 0..len+1 bytes before the 64 KiB buffer boundary and cut at every byte of the probe, (C) every byte position of small "
                  "multi-type streams, (D) every byte position of their NDJSON form, (E) cuts around every 64 KiB multiple of a 700 KB stream; "
                  "distinct = (kind, language, stream, cut position)", exhaustive=False)


main_wrapper(main)
