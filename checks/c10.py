#!/usr/bin/env python3
"""C10 - the front end is total: any input gives success or located diagnostics.  See DESIGN.md section 3 (C10)."""
import os, sys, json, shutil, threading, itertools, random as _random
sys.path.insert(0, os.path.join(os.path.dirname(os.path.abspath(__file__)), "..", "lib"))
from common import *
from yamltree import S, Q, M, render

# ---- base documents (valid), as trees
MODEL1 = M([
    ("Color", M([("base", S("uint8")), ("values", M([("red", S("1")), ("green", S("2"))]))], "!enum")),
    ("Perm", M([("values", Q([S("r"), S("w")]))], "!flags")),
    ("Pair<T1, T2>", M([("fields", M([("first", S("T1")), ("second", S("T2"))]))], "!record")),
    ("Rec", M([("fields", M([("a", S("int")), ("b", S("string?")), ("c", S("Pair<int, float>")), ("v", S("double*3")),
                                 ("arr", S("float[x, y]")), ("m", S("string->int")), ("u", Q([S("null"), S("int"), S("string")])),
                                 ("e", S("Color"))])),
               ("computedFields", M([("n", S("size(m) + (a as size)")), ("i1", S("v[1]")), ("i2", S("arr[0, 1]")), ("c1", S("a as double")), ("d1", S("dimensionCount(arr)")), ("sw", M([("!switch u", M([("int", S("1")), ("string s", S("size(m)")), ("_", S("0"))]))]))]))], "!record")),
    ("Alias", M([("items", S("Rec")), ("length", S("2"))], "!vector")),
    ("Arr", M([("items", S("int")), ("dimensions", M([("x", S("2")), ("y", S("3"))]))], "!array")),
    ("Arr2", M([("items", S("float")), ("dimensions", S("2"))], "!array")),
    ("Arr3", M([("items", S("float")), ("dimensions", Q([S("x"), S("y")]))], "!array")),
    ("Mp", M([("keys", S("string")), ("values", S("Rec"))], "!map")),
    ("Un", M([("anInt", S("int")), ("aRec", S("Rec"))], "!union")),
    ("Gen", M([("name", S("Pair")), ("args", Q([S("int"), S("string")]))], "!generic")),
    ("P", M([("sequence", M([("hdr", S("Rec")), ("items", M([("items", S("Un"))], "!stream")), ("tail", S("Arr?"))]))], "!protocol")),
])
MODEL2 = M([
    ("Small", M([("fields", M([("x", S("int"))]))], "!record")),
    ("Q", M([("sequence", M([("s", S("Small"))]))], "!protocol")),
])
MANIFEST = M([
    ("namespace", S("Total")),
    ("imports", Q([S("../dep")])),
    ("versions", M([("v0", S("../old"))])),
    ("cpp", M([("sourcesOutputDir", S("../out/cpp")), ("generateHDF5", S("false")), ("generateCMakeLists", S("true"))])),
    ("python", M([("outputDir", S("../out/py"))])),
    ("json", M([("outputDir", S("../out/json"))])),
    ("matlab", M([("outputDir", S("../out/matlab"))])),
])
DOCS = [("model", MODEL1), ("model", MODEL2), ("manifest", MANIFEST)]


def project(root, model_text=None, manifest_text=None):
    shutil.rmtree(root, ignore_errors=True)
    for d, ns in (("dep", "Dep"), ("old", "Total")):
        os.makedirs(os.path.join(root, d))
        open(os.path.join(root, d, "_package.yml"), "w").write("namespace: %s\n" % ns)
        open(os.path.join(root, d, "m.yml"), "w").write(render(MODEL2) if d == "old" else "DepRec: !record\n  fields:\n    q: int\nDepG<T>: !record\n  fields:\n    g: T\n")
    os.makedirs(os.path.join(root, "main"))
    open(os.path.join(root, "main", "_package.yml"), "w").write(manifest_text if manifest_text is not None else render(MANIFEST))
    open(os.path.join(root, "main", "m.yml"), "w").write(model_text if model_text is not None else render(MODEL2))
    return os.path.join(root, "main")


def observe(yardl, home, cwd, root, cmd):
    env = yardl_env(home)
    # address-space cap and wall-clock limit: "never hang or exhaust memory"
    rc, o, e = run(["bash", "-c", "ulimit -v 6000000; exec \"$0\" \"$1\"", yardl, cmd], cwd=cwd, env=env, timeout=20)
    lines = e.replace(root + "/", "").splitlines()
    errs = [l for l in lines if "ERR" in l or "❌" in l]
    pan = [l.strip() for l in e.splitlines() if l.startswith(("panic:", "fatal error:")) or "runtime error" in l][:1]
    frames = [l.strip().split("(")[0].split("/")[-1] for l in e.splitlines() if "microsoft/yardl/tooling" in l and not l.startswith("\t")][:3]
    return {"panic_msg": ((pan[0] + " in " + " < ".join(frames)) if pan else "")[:300], "exit": rc, "errors": len(errs), "names_file": any((".yml" in l) or ("_package" in l) or ("directory" in l) for l in errs + lines),
            "stderr": "\n".join(lines)[-900:], "panic": "panic:" in e or "goroutine " in e or "fatal error" in e}


def main():
    c = Check("C10", "exploration")
    sc = scratch("verif-c10-")
    yardl = build_yardl(sc)
    home = os.path.join(sc, "home")
    thorough = c.tier == "thorough"

    # ---- (1)+(2) structural corruptions enumerated by TLC
    wd = scratch("verif-c10-tlc-")
    fin, fout = os.path.join(wd, "docs.ndjson"), os.path.join(wd, "cases.ndjson")
    with open(fin, "w") as f:
        for kind, t in DOCS:
            f.write(json.dumps({"kind": kind, "tree": t}) + "\n")
    res = tlc_eval("Corrupt", timeout=1800, workdir=wd, env={"VERIF_IN": fin, "VERIF_OUT": fout})
    cases = [json.loads(l) for l in open(fout) if l.strip()]
    c.cov["tlc_enumerated_corruptions"] = len(cases)
    inputs = []
    for x in cases:
        kind = DOCS[x["doc"] - 1][0]
        text = render(x["tree"])
        inputs.append(("struct:" + x["kind"], kind, text))
    if not thorough:
        c.rng.shuffle(inputs)
        keep, seen = [], {}
        for it in inputs:                                   # every corruption kind at least 12 times, 3500 in total
            if seen.get(it[0], 0) < 12 or len(keep) < 3500:
                keep.append(it)
                seen[it[0]] = seen.get(it[0], 0) + 1
        inputs = keep[:4500]
    # ---- (3) byte-level mutations of the rendered documents
    rng = _random.Random(c.seed)
    base_texts = [(k, render(t)) for k, t in DOCS] + [("model", open(p).read()) for p in
                  [os.path.join(REPO, "models/sandbox/model.yml")] if os.path.exists(p)]
    nbytes = 20000 if thorough else 1500
    alphabet = list(b":{}[]!&*#|>-?,'\"\n\t @%`\\<") + [0, 255, 0xC3, 0x28, 0xE2, 0x82]
    for i in range(nbytes):
        kind, txt = base_texts[i % len(base_texts)]
        b = bytearray(txt.encode("utf-8"))
        for _ in range(rng.choice([1, 1, 2, 4])):
            op = rng.random()
            pos = rng.randrange(len(b) + 1)
            if op < 0.4 and pos < len(b):
                b[pos] = rng.choice(alphabet)
            elif op < 0.7:
                b.insert(pos, rng.choice(alphabet))
            elif op < 0.9 and pos < len(b):
                del b[pos:pos + rng.choice([1, 2, 8])]
            else:
                b[pos:pos] = b[max(0, pos - 20):pos] * rng.choice([2, 50])
        inputs.append(("bytes", kind, bytes(b)))
    # some fixed inputs of the classic kinds
    CYC = "R: !record\n  fields:\n    u: [int, float]\n    x: int\n  computedFields:\n"
    for t in (CYC + "    a: b\n    b: a\n", CYC + "    a: a + 1\n", CYC + "    a: x + b\n    b: size(c)\n    c: a\n",
              CYC + "    a:\n      !switch u:\n        int: b\n        float: 1\n    b: a\n",
              CYC + "    a:\n      !switch u:\n        int i: b\n        float f: 1\n    b: a\n",
              CYC + "    a:\n      !switch u:\n        int i: i + a\n        _: 1\n", CYC + "    a:\n      !switch u:\n        int i: i\n        float f: f\n    b: a\n",
              "R: !record\n  fields:\n    x: Dep.DepG<R?>\n", "R: !record\n  fields:\n    x: Dep.DepG<S*>\nS: !record\n  fields:\n    y: R\n",
              "A: Dep.DepG<A>\n", "U: [int, Dep.DepG<U>]\n", "R: !record\n  fields:\n    m: string->Dep.DepG<R>\n",
              "A: B\nB: A\nE: !enum {base: A, values: [x]}\n", "E: !enum {base: E, values: [x]}\n", "A<T>: A<T>\n", "R: !record {fields: {x: R}}\n",
              "R: !record {fields: {x: int}, computedFields: {c: c}}\n", "R: !record {fields: {v: int*3}, computedFields: {c: v[]}}\n",
              "R: !record {fields: {x: int}, computedFields: {c: 'x as int[0]'}}\n", "A: !array {items: int, dimensions: -1}\n",
              "A: !vector {items: int, length: 99999999999999999999}\n", "X: !generic [a]\n", "X: !generic {name: 5}\n",
              "~: !record {fields: {x: int}}\n", "&anchor: !record {fields: {x: int}}\n", "? \n: !enum {values: [a]}\n", "null: int\n",
              "", "\n", "\x00", "---\n", "- a\n- b\n", "a: &x [*x]\n", "a: *undefined\n", "X: !record [a]\n", "X: !enum [a]\n", "? [a]\n: b\n",
              "A: " + "[" * 3000 + "]" * 3000 + "\n", "A: !vector {items: " * 300 + "int" + "}" * 300 + "\n", "A: " + "int?" + "*" * 600 + "\n",
              "A: !record\n  fields:\n" + "".join("    f%d: int\n" % i for i in range(3000))):
        inputs.append(("fixed", "model", t))
        inputs.append(("fixed", "manifest", t))

    # ---- (4) Cross.tla: every kind of broken type at every kind of use site, every expression form over every field type
    fcross = os.path.join(wd, "cross.ndjson")
    resx = tlc_eval("Cross", timeout=600, workdir=scratch("verif-c10-tlcx-"), env={"VERIF_OUT": fcross})
    cross = [json.loads(l) for l in open(fcross) if l.strip()]
    c.cov["tlc_cross_cases"] = len(cross)
    c.cov["tlc_cross_controls"] = sum(1 for x in cross if x["must_accept"])
    for x in cross:
        inputs.append(("cross:%s@%s%s" % (x["what"], x["site"], "!" if x["must_accept"] else ""), "model", x["text"]))

    # ---- (5) Literals.tla: every place that takes an integer literal x values at and beyond the limits of the integer types
    flit = os.path.join(wd, "literals.ndjson")
    tlc_eval("Literals", timeout=600, workdir=scratch("verif-c10-tlcl-"), env={"VERIF_OUT": flit})
    lits = [json.loads(l) for l in open(flit) if l.strip()]
    c.cov["tlc_literal_cases"] = len(lits)
    c.cov["tlc_literal_controls"] = sum(1 for x in lits if x["control"])
    for x in lits:
        inputs.append(("literal:%s@%s%s" % (x["lit"], x["site"], "!" if x["control"] else ""), "model", x["text"]))

    # vacuity guard: the uncorrupted base documents are accepted
    for i, (kind, t) in enumerate(DOCS):
        root = os.path.join(sc, "base%d" % i)
        cwd = project(root, model_text=render(t) if kind == "model" else None, manifest_text=render(t) if kind == "manifest" else None)
        o = observe(yardl, home, cwd, root, "generate")
        if o["exit"] != 0:
            raise Inconclusive("base document %d is not accepted by yardl (the corruptions would be vacuous): %s" % (i, o["stderr"][-600:]))

    tl = threading.local()
    counter = itertools.count()

    def work(it):
        name, kind, data = it
        if not hasattr(tl, "dir"):
            tl.dir = os.path.join(sc, "w%d" % next(counter))
        root = tl.dir
        cwd = project(root)
        target = os.path.join(cwd, "m.yml" if kind == "model" else "_package.yml")
        with open(target, "wb") as f:
            f.write(data if isinstance(data, bytes) else data.encode("utf-8"))
        res = {}
        for cmd in ("validate", "generate"):
            res[cmd] = observe(yardl, home, cwd, root, cmd)
        return it, res

    results = pmap(work, inputs)
    for (name, kind, data), res in results:
        c.count((name, kind, hash(data)), nontrivial=True)
        for cmd, o in res.items():
            text = data.decode("utf-8", "replace") if isinstance(data, bytes) else data
            replay = {"file": "m.yml" if kind == "model" else "_package.yml", "content": text[:3000], "command": cmd, "observed": o}
            cls = name.split(":")[0] + ":" + (name.split(":")[1] if ":" in name else "") + ":" + kind
            if name.startswith(("cross:", "literal:")) and name.endswith("!") and o["exit"] != 0 and not o["panic"] and o["exit"] == 1:
                raise Inconclusive("control %s is not accepted by yardl (the family would be vacuous): %s" % (name, o["stderr"][-400:]))
            if name.startswith("literal:"):
                cls = "literal:" + name.split("@")[1].rstrip("!") + ":" + kind
            if o["exit"] == -9:
                c.violation("C10:%s:hang" % cls, "`yardl %s` did not terminate within 20 s" % cmd, replay)
            elif o["panic"] or o["exit"] not in (0, 1):
                c.violation("C10:%s:panic" % cls, "`yardl %s` aborted (exit %s): %s" % (cmd, o["exit"], o["panic_msg"] or o["stderr"][:150]), replay)
            elif o["exit"] == 1 and not (o["errors"] >= 1 and o["names_file"]):
                c.violation("C10:%s:unlocated-error" % cls, "`yardl %s` exit 1 without an error naming a file: %s" % (cmd, o["stderr"][-200:]), replay)
            else:
                continue
            break
    c.sample({"kind": cases[0]["kind"], "rendered": render(cases[0]["tree"])[:400]})
    c.sample({"kind": "bytes", "example": inputs[len(cases) if thorough else 0][2][:200].decode("utf-8", "replace") if isinstance(inputs[0][2], bytes) else "..."})
    c.cov["inputs"] = len(inputs)
    c.assumptions += ["'all byte strings' cannot be made finite: TLC enumerates structural corruptions exhaustively over three base documents, the rest is seeded mutation",
                      "address space capped at ~6 GB and 20 s per run as stand-ins for 'exhaust memory' and 'hang'"]
    c.finish(rule="Corrupt.tla: every node of three base documents (two model files, one manifest) x every applicable structural corruption "
                  "(kind swaps incl. odd-length flow sequences under every tag, missing/duplicate/unknown keys, nulls, 13 wrong tags, 30 odd scalars "
                  "incl. truncated type and expression syntax, deep nesting); plus seeded byte-level mutations and fixed pathological files; each "
                  "input is given to `yardl validate` and `yardl generate`; Cross.tla: every type expression that breaks one language rule (and valid controls) x every use site of a type, and every computed-field expression form x every field type shape; allowed outcomes: exit 0, or exit 1 with an error naming a file; "
                  "; Literals.tla: every place of a model that takes an integer literal (dimension index, subscripts, operands, casts, vector lengths, array extents and ranks, enum and flags values per base type) x literals at and beyond the limits of the 8/16/32/64-bit types; distinct = inputs")


main_wrapper(main)
