#!/usr/bin/env python3
"""C06 - schema-evolution verdicts are total, reflexive and match the documented classes.  See DESIGN.md section 3 (C06)."""
import os, sys, json, shutil, threading, itertools
sys.path.insert(0, os.path.join(os.path.dirname(os.path.abspath(__file__)), "..", "lib"))
from common import *
import evolib, wireengine as we, wirelib


def write_pkg(d, ns, model, versions=None):
    os.makedirs(d, exist_ok=True)
    man = "namespace: %s\n" % ns
    if versions:
        man += "versions:\n" + "".join("  %s: %s\n" % kv for kv in versions.items())
    open(os.path.join(d, "_package.yml"), "w").write(man)
    open(os.path.join(d, "model.yml"), "w").write(model)


def verdict(yardl, home, root, old, new):
    shutil.rmtree(root, ignore_errors=True)
    write_pkg(os.path.join(root, "old"), "Evo", old)
    write_pkg(os.path.join(root, "new"), "Evo", new, {"v0": "../old"})
    res = {}
    for name in ("old", "new"):
        rc, o, e = run([yardl, "validate"], cwd=os.path.join(root, name), env=yardl_env(home), timeout=30)
        lines = e.replace(root + "/", "").splitlines()
        res[name] = {"rc": rc, "warnings": sum(1 for l in lines if "WRN" in l or "⚠" in l),
                     "errors": sum(1 for l in lines if "ERR" in l or "❌" in l),
                     "names_file": any(".yml" in l for l in lines if "ERR" in l or "❌" in l), "stderr": "\n".join(lines)[-700:]}
    return res


def main():
    c = Check("C06", "model_checking")
    sc = scratch("verif-c06-")
    yardl = build_yardl(sc)
    home = os.path.join(sc, "home")
    res = tlc_eval("Evolution", timeout=300)
    cases = tlc_cases(res.out)
    c.cov["states"] = len(cases)
    c.cov["transitions"] = len(cases)

    tl = threading.local()
    counter = itertools.count()

    def wdir():
        if not hasattr(tl, "dir"):
            tl.dir = os.path.join(sc, "w%d" % next(counter))
        return tl.dir

    def work(case):
        old, new = evolib.make_pair(case["edit"], case["pos"])
        # the old model must be valid on its own, and the new one too (checked with an identity history), else the pair is not a test
        alone = verdict(yardl, home, wdir(), new, new)
        v = verdict(yardl, home, wdir(), old, new)
        return case, old, new, alone, v

    skipped = 0
    for case, old, new, alone, v in pmap(work, cases):
        key = "C06:%s:%s" % (case["edit"], case["pos"])
        replay = {"case": case, "previous_model": old, "current_model": new, "observed": v["new"]}
        if v["old"]["rc"] != 0 or alone["new"]["rc"] != 0:
            skipped += 1            # one of the two models is not individually valid (e.g. a union inside an optional): not a test
            continue
        c.count((case["edit"], case["pos"]), nontrivial=case["edit"] != "identity")
        c.cov["traces_validated_against_impl"] += 1
        if alone["new"]["warnings"] or alone["new"]["errors"]:
            c.violation(key + ":not-reflexive", "a model compared with itself produced diagnostics: " + alone["new"]["stderr"][-200:], replay)
            continue
        o, req = v["new"], case["required"]
        if o["rc"] not in (0, 1):
            c.violation(key + ":crash", "exit status %s: %s" % (o["rc"], o["stderr"][:200]), replay)
        elif req["exit"] == 1 and o["rc"] == 0:
            c.violation(key + ":breaking-accepted", "documented breaking change [%s at %s] accepted (%d warnings)" % (case["edit"], case["pos"], o["warnings"]), replay)
        elif req["exit"] == 1 and not (o["errors"] and o["names_file"]):
            c.violation(key + ":no-located-error", "rejected without an error naming a file: " + o["stderr"][-200:], replay)
        elif req["exit"] == 0 and o["rc"] != 0:
            c.violation(key + ":%s-rejected" % case["class"], "documented %s change [%s at %s] rejected: %s" % (case["class"], case["edit"], case["pos"], o["stderr"][-250:]), replay)
        elif req["warnings"] == "some" and o["warnings"] == 0:
            c.violation(key + ":no-warning", "documented partially compatible change [%s at %s] accepted without a warning" % (case["edit"], case["pos"]), replay)
        elif req["warnings"] == "none" and (o["warnings"] or o["errors"]):
            c.violation(key + ":diagnostics-on-meaning-preserving", "meaning-preserving rewrite [%s] produced diagnostics: %s" % (case["edit"], o["stderr"][-250:]), replay)
    c.cov["pairs_skipped_because_a_model_is_invalid"] = skipped

    # ---- totality and determinism over all pairs of a small universe of step types (each model: one protocol, one step)
    wcases, _ = we.export_cases(1, tier="quick")
    types = [t for t, cs in we.group_types(wcases)]
    c.rng.shuffle(types)
    types = types[:(70 if c.tier == "thorough" else 26)]
    models = []
    for t in types:
        k = wirelib.Concretiser()
        models.append((we.type_class(t), k.model_text(k.protocol("P", [("s", t, False)]))))
    pairs = [(a, b) for a in models for b in models]

    def pairwork(ab):
        (ca, a), (cb, b) = ab
        v1 = verdict(yardl, home, wdir(), a, b)
        v2 = verdict(yardl, home, wdir(), a, b)
        return ca, cb, a, b, v1, v2

    for ca, cb, a, b, v1, v2 in pmap(pairwork, pairs):
        if v1["old"]["rc"] != 0:
            continue
        c.count(("pair", ca, cb), nontrivial=ca != cb)
        c.cov["traces_validated_against_impl"] += 1
        o = v1["new"]
        replay = {"previous_model": a, "current_model": b, "observed": o}
        if o["rc"] not in (0, 1):
            c.violation("C06:pair:crash", "comparing step type %s with %s: exit status %s: %s" % (ca, cb, o["rc"], o["stderr"][:300]), replay)
        elif (o["rc"], o["stderr"]) != (v2["new"]["rc"], v2["new"]["stderr"]):
            c.violation("C06:pair:nondeterministic", "comparing %s with %s twice gave different results" % (ca, cb), replay)
        elif a == b and (o["rc"] != 0 or o["warnings"] or o["errors"]):      # the same model text (two types can share a shape class)
            c.violation("C06:pair:not-reflexive", "a model with step type %s compared with itself: %s" % (ca, o["stderr"][-200:]), replay)
    for x in cases[:3]:
        c.sample(x)
    c.cov["all_pairs_universe"] = len(models)
    c.assumptions += ["verdicts read from exit status and ERR/WRN markers, never from wording", "one concrete model pair per (edit, position)"]
    c.finish(rule="Evolution.tla enumerates the documented edit catalogue (13 type-level edits x 10 positions, 24 definition-level edits) with the "
                  "class and required observable of each; every pair is concretised and validated with `versions:`; additionally all ordered pairs "
                  "of %d single-step models are compared twice (totality, determinism, reflexivity); distinct = (edit, position) and type pairs" % len(models))


main_wrapper(main)
