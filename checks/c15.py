#!/usr/bin/env python3
"""C15 - readers refuse streams of a different schema or format.  See DESIGN.md section 3 (C15)."""
import os, sys, json, struct
sys.path.insert(0, os.path.join(os.path.dirname(os.path.abspath(__file__)), "..", "lib"))
from common import *
import wirelib, drivers

PYCALLS = os.path.join(VERIF, "drivers", "pycalls.py")

MODELS = {
    # the reader under test ("own"), with a registered previous version v0
    "own": ("Hd", "Rec: !record\n  fields:\n    x: int\n    y: string?\nP: !protocol\n  sequence:\n    a: int\n    s: !stream\n      items: Rec\n", True),
    "registered_previous": ("Hd", "Rec: !record\n  fields:\n    x: int\nP: !protocol\n  sequence:\n    a: int\n    s: !stream\n      items: Rec\n", False),
    "unregistered_previous": ("Hd", "Rec: !record\n  fields:\n    x: int\n    z: float\nP: !protocol\n  sequence:\n    a: int\n    s: !stream\n      items: Rec\n", False),
    # one field type differs (int -> long: same bytes for small values, so only the schema can tell them apart)
    "near_identical": ("Hd", "Rec: !record\n  fields:\n    x: long\n    y: string?\nP: !protocol\n  sequence:\n    a: int\n    s: !stream\n      items: Rec\n", False),
    "foreign": ("Hd", "P: !protocol\n  sequence:\n    b: long\n    c: !stream\n      items: double\n", False),
}


class Pkg:
    def __init__(self, name, root):
        self.name = name
        self.ns, self.model, self.with_versions = MODELS[name]
        self.root = os.path.join(root, name)

    def prepare(self, yardl, home, cpp):
        os.makedirs(os.path.join(self.root, "model"), exist_ok=True)
        open(os.path.join(self.root, "model", "model.yml"), "w").write(self.model)
        man = ("namespace: %s\ncpp:\n  sourcesOutputDir: ../cpp\n  generateHDF5: false\n  generateCMakeLists: false\n"
               "  overrideArrayHeader: yardl_shim_ndarray.h\npython:\n  outputDir: ../py\n" % self.ns)
        if self.with_versions:
            man += "versions:\n  v0: ../../registered_previous/model\n"
        open(os.path.join(self.root, "model", "_package.yml"), "w").write(man)
        rc, out, err = run([yardl, "generate"], cwd=os.path.join(self.root, "model"), env=yardl_env(home), timeout=120)
        if rc != 0:
            raise Inconclusive("yardl generate failed for the %s model: %s" % (self.name, err[-600:]))
        self.pymod = [d for d in os.listdir(os.path.join(self.root, "py")) if os.path.isdir(os.path.join(self.root, "py", d))][0]
        self.schema = wirelib.extract_schema_py(open(os.path.join(self.root, "py", self.pymod, "protocols.py")).read(), "P")
        m = re.search(r"namespace ([A-Za-z0-9_]+) \{", open(os.path.join(self.root, "cpp", "protocols.h")).read())
        self.ns_cpp = m.group(1)
        if cpp:
            self.exe = os.path.join(self.root, "calls")
            ok, log, steps = drivers.cpp_build_calls(os.path.join(self.root, "cpp"), self.ns_cpp, "P", self.exe, ndjson=True)
            if not ok:
                raise Inconclusive("call driver for the %s model does not build: %s" % (self.name, log[-800:]))
        # a real stream of this protocol, written by its own generated Python writer (binary and NDJSON)
        self.streams = {}
        for fmt in ("binary", "ndjson"):
            f = os.path.join(self.root, "valid." + fmt)
            script = ["write 0 value 0", "write 1 list 0", "close"]
            rc, lines, se = drivers.run_calls([PY, PYCALLS, os.path.join(self.root, "py"), self.pymod, "P"], "wcalls", fmt, f, script)
            if rc != 0 or any(l.startswith("EXC") for l in lines):
                # the writer's default test values (ints) do not fit every model: fall back to an empty-stream body
                raise Inconclusive("cannot write a reference %s stream for %s: %s %s" % (fmt, self.name, lines[-2:], se[-300:]))
            self.streams[fmt] = open(f, "rb").read()
        return self


def body_of(pkg, fmt):
    data = pkg.streams[fmt]
    if fmt == "binary":
        return data[len(wirelib.binary_header(pkg.schema)):]
    return data.split(b"\n", 1)[1]


def concretise(h, pk):
    """Symbolic header of Header.tla -> bytes of a stream whose body is a real stream of the protocol the schema belongs to."""
    own = pk["own"]
    sname = h["schema"]
    src = pk[sname] if sname in pk else own
    schema = src.schema
    if sname == "own_one_char_changed":
        schema = own.schema.replace('"x"', '"w"', 1)
    if h["fmt"] == "binary":
        magic = bytearray(b"yardl")
        if h["magic"] != "ok":
            i = int(h["magic"][-1]) - 1
            magic[i] ^= 0x20
        version = struct.pack("<I", int(h["version"]))
        sb = schema.encode("utf-8")
        ln = {"exact": len(sb), "minus1": len(sb) - 1, "plus1": len(sb) + 1, "huge": 2**31 - 1}[h["len"]]
        lenb = wirelib.varint(ln)
        data = bytes(magic) + version + lenb + sb + body_of(src, "binary")
        cut = {"none": None, "empty": 0, "in_magic": 3, "after_magic": 5, "in_version": 7, "after_version": 9,
               "in_length": 9 + max(1, len(lenb) - 1), "in_schema": 9 + len(lenb) + len(sb) // 2}[h["trunc"]]
        if h["trunc"] == "in_length" and len(lenb) < 2:
            cut = 9
        return data if cut is None else data[:cut]
    # ndjson
    sj = json.loads(schema)
    if sname == "own_reserialised":
        schema_text = json.dumps(sj, indent=1, sort_keys=True)          # same JSON value, different text
    elif sname == "not_json":
        schema_text = json.dumps("this is not a schema")
    else:
        schema_text = json.dumps(sj, separators=(",", ":"))
    ver = {"1": '"version":1,', "0": '"version":0,', "2": '"version":2,', '"1"': '"version":"1",', "missing": ""}[h["version"]]
    line = '{"yardl":{%s"schema":%s}}' % (ver, schema_text)
    line = line.replace("\n", " ")
    body = body_of(src, "ndjson")
    if h["line"] == "not_json":
        line = line[:len(line) // 2]
    elif h["line"] == "no_yardl_member":
        line = line.replace('"yardl"', '"lardy"', 1)
    elif h["line"] == "yardl_not_object":
        line = '{"yardl":5}'
    elif h["line"] == "empty_file":
        return b""
    elif h["line"] == "blank_first_line":
        return b"\n" + line.encode() + b"\n" + body
    return line.encode() + b"\n" + body


def main():
    c = Check("C15", "model_checking")
    sc = scratch("verif-c15-")
    yardl = build_yardl(sc)
    home = os.path.join(sc, "home")
    res = tlc("Header", cfg="MCHeader.cfg", timeout=600)
    if res.invariant_violated:
        c.note("TLC: %s violated in Header (model-level)" % res.violated_names())
    c.add_tlc(res)
    cases = tlc_cases(res.out)
    pk = {}
    for name in ("registered_previous", "own", "unregistered_previous", "near_identical", "foreign"):
        pk[name] = Pkg(name, sc).prepare(yardl, home, cpp=(name == "own"))
    own = pk["own"]
    schemas = {n: p.schema for n, p in pk.items()}
    # two closures that differ only inside an imported type whose simple name also exists in the importing package
    clash = {}
    for name, vt in (("clash_int", "int"), ("clash_string", "string")):
        d = os.path.join(sc, name)
        os.makedirs(os.path.join(d, "model"))
        os.makedirs(os.path.join(d, "lib"))
        open(os.path.join(d, "lib", "_package.yml"), "w").write("namespace: Lib\n")
        open(os.path.join(d, "lib", "lib.yml"), "w").write("Point: !record\n  fields:\n    x: %s\n" % vt)
        open(os.path.join(d, "model", "_package.yml"), "w").write("namespace: App\nimports:\n  - ../lib\npython:\n  outputDir: ../py\n")
        open(os.path.join(d, "model", "m.yml"), "w").write("Point: !record\n  fields:\n    a: int\nP: !protocol\n  sequence:\n    p: Point\n    q: Lib.Point\n")
        rc, o, e = run([yardl, "generate"], cwd=os.path.join(d, "model"), env=yardl_env(home), timeout=60)
        if rc != 0:
            raise Inconclusive("the name-clash model does not generate: " + e[-300:])
        clash[name] = wirelib.extract_schema_py(open(os.path.join(d, "py", "app", "protocols.py")).read(), "P")
    schemas.update(clash)
    if len(set(schemas.values())) != len(schemas):
        c.violation("C15:schema:not-distinguishing", "two of the protocols used here (differing in one field / one field type) have identical embedded schemas: %s" %
                    [n for n in schemas if list(schemas.values()).count(schemas[n]) > 1], {"schemas": schemas})

    readers = [("cpp", "binary"), ("cpp", "ndjson"), ("py", "binary"), ("py", "ndjson")]

    def work(case):
        h = case["h"]
        data = concretise(h, pk)
        f = os.path.join(own.root, "in-%d" % (abs(hash(json.dumps(h, sort_keys=True))) % 10**9))
        open(f, "wb").write(data)
        out = []
        for lang, fmt in readers:
            if fmt != h["fmt"]:
                continue
            if lang == "cpp":
                rc, lines, se = drivers.run_calls([own.exe], "rcalls", fmt, f, ["one 0", "one 1"])
            else:
                rc, lines, se = drivers.run_calls([PY, PYCALLS, os.path.join(own.root, "py"), own.pymod, "P"], "rcalls", fmt, f, ["read 0", "read 1", "take 1 1"])
            out.append((case, lang, fmt, rc, lines, se))
        os.remove(f)
        return out

    for case, lang, fmt, rc, lines, se in [x for lst in pmap(work, cases) for x in lst]:
        h = case["h"]
        req = case["required"]
        # previous versions are a C++ binary feature (docs/cpp/evolution.md); elsewhere their acceptance is not asserted
        if h["schema"] == "registered_previous" and not (lang == "cpp" and fmt == "binary"):
            req = "either" if req == "accept" else req
        c.cov["traces_validated_against_impl"] += 1
        c.count((lang, json.dumps(h, sort_keys=True)), nontrivial=True)
        delivered = [l for l in lines if l.startswith(("VAL", "OK"))]
        opened = any(l.startswith("OPEN") for l in lines)
        crashed = rc not in (0, 1)
        replay = {"header": h, "reader": "%s %s" % (lang, fmt), "observed": lines[:6], "stderr": se[-300:]}
        fault = ",".join("%s=%s" % (k, v) for k, v in sorted(h.items()) if k != "fmt" and v not in ("ok", "1", "exact", "own", "none"))
        if crashed:
            c.violation("C15:%s:%s:crash" % (lang, fmt), "reader process died (exit %s) on a stream with header fault [%s]: %s" % (rc, fault, se.strip()[-200:]), replay)
        elif req == "reject" and delivered:
            c.violation("C15:%s:%s:accepted:%s" % (lang, fmt, fault), "stream with header fault [%s] was opened and a value was delivered: %s" % (fault, delivered[:2]), replay)
        elif req == "accept" and not (opened and delivered):
            c.violation("C15:%s:%s:refused-own" % (lang, fmt), "a well-formed stream carrying [%s] was refused: %s" % (fault or "the reader's own schema", lines[:2]), replay)
    # ---- near-identical protocols: every type edit that Schema.tla classifies as changing the encoding (computed from Wire.tla),
    #      once with the expanded and once with the shorthand spelling of the types: protocol A's stream (real header, empty
    #      stream body) given to protocol B's generated Python readers must be refused, in both directions and both formats
    sres = tlc_eval("Schema", timeout=600)
    edits = [x for x in tlc_cases(sres.out) if x.get("kind") == "type" and x["class"] == "affecting"]
    c.cov["near_identical_type_edits"] = len(edits)

    def near_pkg(tag, side, t, style):
        d = os.path.join(sc, "near-%s-%s" % (tag, side))
        os.makedirs(os.path.join(d, "model"))
        k = wirelib.Concretiser(style)
        ty = k.node(t)
        model = k.model_text("Rec: !record\n  fields:\n    x: %s\n    y: string?\nP: !protocol\n  sequence:\n    a: int\n    s: !stream\n      items: Rec\n" % ty)
        open(os.path.join(d, "model", "_package.yml"), "w").write("namespace: Near\npython:\n  outputDir: ../py\n")
        open(os.path.join(d, "model", "m.yml"), "w").write(model)
        rc, o, e = run([yardl, "generate"], cwd=os.path.join(d, "model"), env=yardl_env(home), timeout=60)
        if rc != 0:
            raise Inconclusive("near-identical model %s/%s does not generate: %s\n%s" % (tag, side, e[-300:], model))
        cmd = [PY, PYCALLS, os.path.join(d, "py"), "near", "P"]
        files = {}
        for fmt in ("binary", "ndjson"):
            files[fmt] = os.path.join(d, "valid." + fmt)
            rc, lines, se = drivers.run_calls(cmd, "wcalls", fmt, files[fmt], ["write 0 value 0", "write 1 list 0", "close"])
            if rc != 0 or any(l.startswith("EXC") for l in lines):
                raise Inconclusive("cannot write a reference %s stream for near-identical model %s/%s: %s %s" % (fmt, tag, side, lines[-2:], se[-300:]))
        schema = wirelib.extract_schema_py(open(os.path.join(d, "py", "near", "protocols.py")).read(), "P")
        return {"cmd": cmd, "files": files, "schema": schema, "model": model}

    def near_work(job):
        x, style_name, style = job
        tag = "%s-%s" % (x["edit"], style_name)
        a, b = near_pkg(tag, "a", x["a"], style), near_pkg(tag, "b", x["b"], style)
        out = []
        for src, dst, direction in ((a, b, "a->b"), (b, a, "b->a")):
            for fmt in ("binary", "ndjson"):
                rc, lines, se = drivers.run_calls(dst["cmd"], "rcalls", fmt, src["files"][fmt], ["read 0", "read 1"])
                out.append((direction, fmt, rc, lines, se))
            # control: the reader accepts its own stream
            rc, lines, se = drivers.run_calls(dst["cmd"], "rcalls", "binary", dst["files"]["binary"], ["read 0"])
            out.append((direction, "own", rc, lines, se))
        return x, style_name, a, b, out

    jobs = [(x, sn, st) for x in edits for sn, st in (("expanded", None), ("shorthand", dict(shorthand=True, prim_alias=True, optional="question")))]
    for x, style_name, a, b, out in pmap(near_work, jobs):
        c.count(("near", x["edit"], style_name), nontrivial=True)
        key = "C15:near:%s:%s" % (x["edit"], style_name)
        replay = {"edit": x["edit"], "spelling": style_name, "model_a": a["model"], "model_b": b["model"]}
        if a["schema"] == b["schema"]:
            c.violation(key + ":same-schema", "two protocols that differ in one field type (%s, encoded differently) embed the same schema" % x["edit"], replay)
            continue
        for direction, fmt, rc, lines, se in out:
            c.cov["traces_validated_against_impl"] += 1
            delivered = [l for l in lines if l.startswith(("VAL", "OK"))]
            if fmt == "own":
                if not delivered:
                    raise Inconclusive("near-identical control: a reader refuses its own stream: %s %s" % (lines[:3], se[-200:]))
            elif rc not in (0, 1):
                c.violation(key + ":crash", "python %s reader died (exit %s) on the stream of a near-identical protocol (%s)" % (fmt, rc, direction), dict(replay, observed=lines[:4], stderr=se[-300:]))
            elif delivered:
                c.violation(key + ":accepted:%s" % fmt, "python %s reader accepted the stream of a protocol that differs in one field type (%s, %s) and delivered %s" % (
                    fmt, x["edit"], direction, delivered[:2]), dict(replay, observed=lines[:4]))

    # ---- a reader regenerated by `yardl generate --watch` after a schema-changing edit must refuse streams of the model as it was
    #      before the edit (whatever the watcher process remembers about "protocol P" from earlier regenerations is stale)
    import subprocess, signal, time, shutil
    wr = os.path.join(sc, "watchrev")
    os.makedirs(os.path.join(wr, "model"))
    rev = lambda ty: "Rec: !record\n  fields:\n    x: %s\n    y: string?\nP: !protocol\n  sequence:\n    a: int\n    s: !stream\n      items: Rec\n" % ty
    open(os.path.join(wr, "model", "_package.yml"), "w").write("namespace: Wrev\npython:\n  outputDir: ../py\n")
    open(os.path.join(wr, "model", "m.yml"), "w").write(rev("int"))
    wenv = yardl_env(home)
    wtrace = os.path.join(wr, "trace.ndjson")
    wenv["YARDL_VERIF_TRACE"] = wtrace
    wlog = open(os.path.join(wr, "watch.log"), "wb")
    wproc = subprocess.Popen([yardl, "generate", "--watch"], cwd=os.path.join(wr, "model"), env=wenv, stdout=wlog, stderr=subprocess.STDOUT)

    def regen_ends():
        try:
            return sum(1 for l in open(wtrace) if '"RegenEnd"' in l)
        except OSError:
            return 0

    def wait_for(cond, timeout):
        t0 = time.time()
        while time.time() - t0 < timeout:
            if cond():
                return True
            time.sleep(0.05)
        return False
    try:
        tfile = os.path.join(wr, "py", "wrev", "types.py")
        if not wait_for(lambda: regen_ends() >= 1 and os.path.exists(tfile), 30):
            c.note("watch-mode revision scenario skipped: the watcher did not finish its first generation")
        else:
            shutil.copytree(os.path.join(wr, "py"), os.path.join(wr, "pyA"))
            cmdA = [PY, PYCALLS, os.path.join(wr, "pyA"), "wrev", "P"]
            streams = {}
            for fmt in ("binary", "ndjson"):
                streams[fmt] = os.path.join(wr, "revA." + fmt)
                drivers.run_calls(cmdA, "wcalls", fmt, streams[fmt], ["write 0 value 0", "write 1 list 0", "close"])
            n0 = regen_ends()
            tmp = os.path.join(wr, "model", ".m.yml.tmp")
            open(tmp, "w").write(rev("uint"))
            os.rename(tmp, os.path.join(wr, "model", "m.yml"))
            if not wait_for(lambda: regen_ends() > n0 and "UInt32" in open(tfile).read(), 30):
                c.note("watch-mode revision scenario skipped: no regeneration after the edit within 30 s")
            else:
                time.sleep(0.3)
                cmdB = [PY, PYCALLS, os.path.join(wr, "py"), "wrev", "P"]
                own = os.path.join(wr, "revB.binary")
                drivers.run_calls(cmdB, "wcalls", "binary", own, ["write 0 value 0", "write 1 list 0", "close"])
                rc, lines, se = drivers.run_calls(cmdB, "rcalls", "binary", own, ["read 0"])
                if not [l for l in lines if l.startswith(("VAL", "OK"))]:
                    raise Inconclusive("watch-mode revision scenario: the regenerated reader refuses its own stream: %s %s" % (lines[:3], se[-200:]))
                for fmt in ("binary", "ndjson"):
                    rc, lines, se = drivers.run_calls(cmdB, "rcalls", fmt, streams[fmt], ["read 0", "read 1", "take 1 1"])
                    c.cov["traces_validated_against_impl"] += 1
                    c.count(("watch-revision", fmt), nontrivial=True)
                    delivered = [l for l in lines if l.startswith(("VAL", "OK"))]
                    if delivered:
                        c.violation("C15:watch:accepted:%s" % fmt, "the %s reader regenerated in watch mode after the edit 'x: int' -> 'x: uint' accepts a stream "
                                    "written by the model as it was before the edit and delivers %s" % (fmt, delivered[:2]),
                                    {"revision_a": rev("int"), "revision_b": rev("uint"), "observed": lines[:5]})
    finally:
        if wproc.poll() is None:
            wproc.send_signal(signal.SIGTERM)
            try:
                wproc.wait(timeout=5)
            except subprocess.TimeoutExpired:
                wproc.kill()
        wlog.close()

    # ---- several readers in one process: having accepted a stream with its own reader must not make another protocol's
    #      reader accept the same stream (all orders, both formats)
    two = os.path.join(sc, "two")
    os.makedirs(os.path.join(two, "model"))
    open(os.path.join(two, "model", "_package.yml"), "w").write("namespace: Two\npython:\n  outputDir: ../py\n")
    open(os.path.join(two, "model", "m.yml"), "w").write("P: !protocol\n  sequence:\n    a: int\n    s: !stream\n      items: int\n"
                                                         "Q: !protocol\n  sequence:\n    a: int\n    s: !stream\n      items: double\n")
    rc, o, e = run([yardl, "generate"], cwd=os.path.join(two, "model"), env=yardl_env(home), timeout=60)
    if rc != 0:
        raise Inconclusive("two-protocol model does not generate: " + e[-300:])
    base_cmd = [PY, PYCALLS, os.path.join(two, "py"), "two"]
    files = {}
    for pr in ("P", "Q"):
        for fmt in ("binary", "ndjson"):
            files[(pr, fmt)] = os.path.join(two, "%s.%s" % (pr, fmt))
            drivers.run_calls(base_cmd + [pr], "wcalls", fmt, files[(pr, fmt)], ["write 0 value 0", "write 1 list 2", "close"])
    import itertools as _it
    for fmt in ("binary", "ndjson"):
        for order in _it.permutations([("P", "P"), ("Q", "P"), ("P", "Q"), ("Q", "Q")], 4):
            script = ["open %s %s %s" % (reader, fmt, files[(stream, fmt)]) for reader, stream in order]
            rc, lines, se = drivers.run_calls(base_cmd + ["P"], "multiopen", fmt, "-", script)
            c.cov["traces_validated_against_impl"] += 1
            c.count(("multiopen", fmt, order), nontrivial=True)
            for (reader, stream), l in zip(order, lines):
                want = "OPENED" if reader == stream else "REFUSED"
                if not l.startswith(want):
                    c.violation("C15:py:%s:sequence-of-readers" % fmt, "in one process, after %s: the %s reader given a stream of protocol %s answered %r" % (
                        [x for x in order[:order.index((reader, stream))]], reader, stream, l[:120]), {"order": order, "observed": lines})
                    break
            else:
                continue
            break
    for x in cases[:3]:
        c.sample(x)
    c.cov["protocol_pairs"] = sorted(schemas)
    c.assumptions += ["the body after a foreign / near-identical schema is a real stream of that protocol written by its own generated writer",
                      "acceptance of registered previous versions is asserted for the C++ binary reader only (evolution is a C++ feature)"]
    c.finish(rule="TLC enumerates symbolic headers with at most two simultaneous faults (each magic byte, 4 wrong versions, 3 wrong schema lengths, "
                  "7 truncation points, 7 kinds of schema incl. a protocol differing in one field type, an unregistered and a registered previous "
                  "version, re-serialised JSON; NDJSON first-line faults) and runs the reader-open machine of Header.tla on each; every terminal "
                  "state is concretised around real schema text and fed to the four generated readers of the protocol; distinct = (reader, header)",
             exhaustive=True)


main_wrapper(main)
