#!/usr/bin/env python3
"""C05 - accepted schema evolution preserves data across versions.  See DESIGN.md section 3 (C05)."""
import os, sys, json, re, shutil
sys.path.insert(0, os.path.join(os.path.dirname(os.path.abspath(__file__)), "..", "lib"))
from common import *
import drivers, evolib

K = 12          # probes (protocols) per package

EVO_MAIN = r'''
// evolution driver emitted by /verif (checks/c05.py): <protocol> j2b|b2j <in> <out> [version label]
#include <fstream>
#include <iostream>
#include <string>
#include "binary/protocols.h"
#include "ndjson/protocols.h"
template <class R, class W, class... A>
static int copy(std::string const& in, std::string const& out, A... wargs) {
  try {
    W w(out, wargs...);
    try {
      R r(in);
      r.CopyTo(w);
      r.Close();
      w.Close();
    } catch (...) {
      try { w.Flush(); } catch (...) {}
      throw;
    }
  } catch (std::exception const& e) {
    std::cerr << "EXC:" << e.what() << std::endl;
    return 1;
  }
  return 0;
}
int main(int argc, char** argv) {
  if (argc < 5) { std::cerr << "usage" << std::endl; return 3; }
  std::string proto = argv[1], mode = argv[2], in = argv[3], out = argv[4], ver = argc > 5 ? argv[5] : "";
%(cases)s
  std::cerr << "unsupported " << proto << " " << mode << " " << ver << std::endl;
  return 3;
}
'''

TOK = {"i:max": 2147483647, "l:big": 1099511627776, "null": None, "u:3e9": 3000000000, "u:2^63": 9223372036854775808}


def tagged_side(edit, new):
    """yardl's NDJSON writes a union untagged when its cases have pairwise distinct JSON kinds: of the catalogue's unions only
    [int, string, float] (two number cases) carries tags"""
    return (edit == "add_union_case" and new) or (edit == "remove_union_case" and not new)


def to_json(v, tagged=True):
    """specification value -> JSON value as yardl's NDJSON writes it"""
    if isinstance(v, dict):
        if set(v) == {"leaf"}:
            t = v["leaf"]
            if t in TOK:
                return TOK[t]
            k, _, x = t.partition(":")
            if k in ("i", "l"):
                return int(x)
            if k == "f":
                return float(x)
            if k in ("s", "e"):
                return x
            raise ValueError(t)
        if set(v) == {"vec"}:
            return [to_json(x, tagged) for x in v["vec"]]
        if set(v) == {"tag", "v"}:
            return {v["tag"]: to_json(v["v"])} if tagged else to_json(v["v"])
        return {k: to_json(x, tagged) for k, x in v.items()}
    raise ValueError(v)


def jeq(a, b):
    if isinstance(a, dict) and isinstance(b, dict):
        # the NDJSON writers omit record fields that are null
        return all(jeq(a.get(k), b.get(k)) for k in set(a) | set(b))
    if isinstance(a, list) and isinstance(b, list):
        return len(a) == len(b) and all(jeq(x, y) for x, y in zip(a, b))
    if isinstance(a, bool) or isinstance(b, bool):
        return a is b
    if isinstance(a, (int, float)) and isinstance(b, (int, float)):
        return a == b
    return a == b


class Probe:
    """one protocol of a package: an (edit, position) of the catalogue with its own definitions"""

    def __init__(self, k, case, kind, steps=None):
        self.k, self.case, self.kind = k, case, kind
        self.name = "P%d" % k
        self.edit = case["edit"]
        self.pos = case.get("pos", "definition")
        self.stream = self.pos in ("stream_item", "stream_of_optional")
        if kind == "enum":
            self.edit = "enum_add_value"
        self.stepinfo = steps

    def model(self, new):
        k = self.k
        if self.kind == "enum":
            defs, probe = evolib.wrap(self.pos, "Shade%d" % k)
            for n in ("ProbeRec", "ProbeAlias", "OuterProbe"):
                defs = defs.replace(n, "%s%d" % (n, k))
                probe = probe.replace(n, "%s%d" % (n, k))
            defs = "Shade%d: !enum\n  values: [%s]\n" % (k, "red, green, black" if new else "red, green") + defs
            extra = ""
        elif self.kind == "type":
            told, tnew = evolib.TYPE_EDITS[self.edit]
            defs, probe = evolib.wrap(self.pos, tnew if new else told)
            for n in ("ProbeRec", "ProbeAlias", "OuterProbe"):
                defs = defs.replace(n, "%s%d" % (n, k))
                probe = probe.replace(n, "%s%d" % (n, k))
            extra = ""
        elif self.kind == "rec":
            fs = self.case["new" if new else "old"]
            ty = {"a": "int", "b": "string", "c": "float?", "z": "double", "x": "float", "y": "float", "w": "float"}
            dty = {"l:9": "long", "s:dd": "string"}
            lines = []
            for f in fs:
                t = ty.get(f["n"])
                if f["n"] == "d":
                    t = dty[f["sample"]["leaf"]] + ("?" if f["zero"]["leaf"] == "null" else "")
                lines.append("    %s: %s\n" % (f["n"], t))
            defs, extra = "Data%d: !record\n  fields:\n%s" % (k, "".join(lines)), ""
            if self.edit == "rename_with_alias" and new:
                defs = "Renamed%d: !record\n  fields:\n%s" % (k, "".join(lines)) + "Data%d: Renamed%d\n" % (k, k)
            probe = {"step": "Data%d", "union_first": "[Data%d, string]", "union_last": "[string, Data%d]", "vector_item": "!vector {items: Data%d}",
                     "stream_item": "!stream {items: Data%d}", "optional": "[null, Data%d]"}[self.pos] % k
            if self.edit == "rename_with_alias" and new:
                probe = probe.replace("Data%d" % k, "Renamed%d" % k)
        else:
            defs, probe = "Data%d: !record\n  fields:\n    a: int\n    b: string\n" % k, "Data%d" % k
            decl = {"stream_int": "!stream {items: int}", "vector_int": "!vector {items: int}", "optional_string": "[null, string]"}[self.stepinfo["decl"]]
            extra = "    more: %s\n" % decl if new else ""
        return defs + "%s: !protocol\n  sequence:\n    first: int\n    probe: %s\n    last: Color\n%s" % (self.name, probe, extra)

    # ---- NDJSON bodies
    def lines(self, probe_json, more=None, more_kind=None):
        out = [{"first": 11}]
        if self.stream:
            out += [{"probe": x} for x in probe_json]
        else:
            out.append({"probe": probe_json})
        out.append({"last": "green"})
        if more_kind == "stream_int":
            out += [{"more": x} for x in more]
        elif more_kind is not None:
            out.append({"more": more})
        return out


def build_version(root, name, sc_src):
    """compile the generated code of one version directory + driver; returns (ok, log)"""
    gen = os.path.join(root, name, "cpp")
    shutil.copy(os.path.join(drivers.SHIMS, "yardl_shim_ndarray.h"), os.path.join(gen, "yardl", "yardl_shim_ndarray.h"))
    open(os.path.join(gen, "evo_main.cc"), "w").write(sc_src)
    srcs = ["types.cc", "protocols.cc", "binary/protocols.cc", "ndjson/protocols.cc", "evo_main.cc"]
    flags = ["-std=c++17", "-O0", "-I", drivers.SHIMS, "-I", drivers.THIRD, "-I", gen]
    objs = []
    for s in srcs:
        o = os.path.join(gen, s.replace("/", "_") + ".o")
        rc, so, se = run(["g++"] + flags + ["-c", os.path.join(gen, s), "-o", o], timeout=1800)
        if rc != 0:
            return False, "%s: %s" % (s, se[-2500:])
        objs.append(o)
    rc, so, se = run(["g++"] + objs + ["-o", os.path.join(root, name, "evo")], timeout=600)
    return rc == 0, se[-2000:]


def main():
    c = Check("C05", "model_checking")
    sc = scratch("verif-c05-")
    yardl = build_yardl(sc)
    home = os.path.join(sc, "home")
    thorough = c.tier == "thorough"
    wd = os.path.join(sc, "tlc")
    os.makedirs(wd)
    env = {"VERIF_OUT_TYPES": wd + "/t.ndjson", "VERIF_OUT_RECS": wd + "/r.ndjson", "VERIF_OUT_STEPS": wd + "/s.ndjson", "VERIF_OUT_ENUMS": wd + "/e.ndjson"}
    res = tlc_eval("EvoData", timeout=900, workdir=wd, env=env)
    c.add_tlc(res)
    tcases = [json.loads(l) for l in open(env["VERIF_OUT_TYPES"]) if l.strip()]
    rcases = [json.loads(l) for l in open(env["VERIF_OUT_RECS"]) if l.strip()]
    steps = json.loads(open(env["VERIF_OUT_STEPS"]).readline())
    ecases = [json.loads(l) for l in open(env["VERIF_OUT_ENUMS"]) if l.strip()]
    c.cov["states"] = len(tcases) + len(rcases) + len(steps)
    c.cov["transitions"] = sum(len(x["up"]) + len(x["down"]) for x in tcases + rcases)
    allc = [("type", x, None) for x in tcases] + [("rec", x, None) for x in rcases] + [("enum", x, None) for x in ecases] + \
           [("step", {"edit": e}, info) for e, info in sorted(steps.items())]
    allc.sort(key=lambda x: json.dumps([x[0], x[1]["edit"], x[1].get("pos")]))
    c.rng.shuffle(allc)
    # the whole catalogue runs in under a minute, so both tiers use all of it; the seed changes how probes are grouped into packages
    batches = [allc[i:i + K] for i in range(0, len(allc), K)]

    def work(arg):
        bi, batch = arg
        root = os.path.join(sc, "b%d" % bi)
        probes = [Probe(k, cs, kind, info) for k, (kind, cs, info) in enumerate(batch)]
        half = len(probes) // 2
        res = {"bi": bi, "problem": None, "runs": [], "dropped": []}

        def write_all(ps):
            for ver in ("v0", "v1", "cur"):
                d = os.path.join(root, ver, "model")
                os.makedirs(d, exist_ok=True)
                txt = "Color: !enum\n  values: [red, green, blue]\n"
                for p in ps:
                    new = ver == "cur" or (ver == "v1" and p.k < half)
                    txt += p.model(new)
                open(os.path.join(d, "model.yml"), "w").write(txt)
                man = "namespace: Evo\n"
                if ver == "cur":
                    # the order in which the versions are listed is the user's choice; newest first (odd seeds) puts a version in
                    # which half of the protocols have not changed since in front of one in which they all have
                    order = ("v1", "v0") if c.seed % 2 == 1 else ("v0", "v1")
                    man += "versions:\n" + "".join("  %s: ../../%s/model\n" % (v, v) for v in order)
                man += "cpp:\n  sourcesOutputDir: ../cpp\n  generateHDF5: false\n  generateCMakeLists: false\n  overrideArrayHeader: yardl_shim_ndarray.h\n"
                open(os.path.join(d, "_package.yml"), "w").write(man)
        active = list(probes)
        for attempt in range(3):
            write_all(active)
            bad = None
            for ver in ("v0", "v1", "cur"):
                shutil.rmtree(os.path.join(root, ver, "cpp"), ignore_errors=True)
                rc, o, e = run([yardl, "generate"], cwd=os.path.join(root, ver, "model"), env=yardl_env(home), timeout=300)
                if rc != 0:
                    txt = re.sub(r"\x1b\[[0-9;]*m", "", e + o)
                    if "panic" in txt or rc not in (0, 1):
                        res["problem"] = ("crash", ver, txt[-1500:], open(os.path.join(root, ver, "model", "model.yml")).read())
                        return res
                    # which probes does yardl refuse?  (names carry the probe number)
                    ks = set(int(x) for x in re.findall(r"(?:P|Data|ProbeRec|ProbeAlias|OuterProbe)(\d+)", txt))
                    bad = (ver, ks, txt[-800:])
                    break
            if bad is None:
                break
            ver, ks, txt = bad
            if not ks or ver != "cur":
                res["problem"] = ("rejected", ver, txt, "")
                return res
            res["dropped"] += [(p.edit, p.pos, txt) for p in active if p.k in ks]
            active = [p for p in active if p.k not in ks]
        else:
            res["problem"] = ("rejected", "cur", "still rejected after dropping probes", "")
            return res
        # drivers
        for ver in ("v0", "v1", "cur"):
            cases = []
            for p in active:
                ns = "evo"
                cases.append('  if (proto == "%s" && mode == "b2j") return copy<%s::binary::%sReader, %s::ndjson::%sWriter>(in, out);' % (p.name, ns, p.name, ns, p.name))
                if ver == "cur":
                    for lab in ("v0", "v1"):
                        cases.append('  if (proto == "%s" && mode == "j2b" && ver == "%s") return copy<%s::ndjson::%sReader, %s::binary::%sWriter>(in, out, %s::Version::%s);' % (
                            p.name, lab, ns, p.name, ns, p.name, ns, lab))
                cases.append('  if (proto == "%s" && mode == "j2b" && ver == "") return copy<%s::ndjson::%sReader, %s::binary::%sWriter>(in, out);' % (p.name, ns, p.name, ns, p.name))
            ok, log = build_version(root, ver, EVO_MAIN % {"cases": "\n".join(cases)})
            if not ok:
                res["problem"] = ("compile", ver, log, open(os.path.join(root, ver, "model", "model.yml")).read())
                return res
        schemas = {}
        for ver in ("v0", "v1", "cur"):
            txt = open(os.path.join(root, ver, "cpp", "protocols.cc")).read()
            for m in re.finditer(r"std::string (\w+)WriterBase::schema_ = R\"\((.*?)\)\";", txt):
                schemas[(ver, m.group(1))] = m.group(2)
        n = [0]

        def ndjson_file(ver, p, lines):
            n[0] += 1
            path = os.path.join(root, "run%d.ndjson" % n[0])
            with open(path, "w") as f:
                f.write(json.dumps({"yardl": {"version": 1, "schema": json.loads(schemas[(ver, p.name)])}}) + "\n")
                for l in lines:
                    f.write(json.dumps(l) + "\n")
            return path

        def exe(ver, *args):
            rc, o, e = run([os.path.join(root, ver, "evo")] + list(args), timeout=60)
            return rc, (e or "")[-400:]

        def read_lines(path):
            out = []
            if os.path.exists(path):
                for i, l in enumerate(open(path)):
                    if i == 0 or not l.strip():
                        continue
                    try:
                        out.append(json.loads(l))
                    except ValueError:
                        break
            return out
        for p in active:
            for old_ver in ("v0", "v1"):
                old_is_new = old_ver == "v1" and p.k < half       # v1 already has the new definition of this probe
                ups, downs = [], []
                if p.kind in ("type", "rec", "enum"):
                    if old_is_new:
                        ups = [(x["in"], {"s": "ok", "v": x["in"]}) for x in p.case["down"]]
                        downs = list(ups)
                    else:
                        ups = [(x["in"], x["out"]) for x in p.case["up"]]
                        downs = [(x["in"], x["out"]) for x in p.case["down"]]
                tg_old = tagged_side(p.edit, old_is_new)
                tg_new = tagged_side(p.edit, True)
                for vin, vout in ups:
                    r = {"probe": (p.edit, p.pos), "dir": "up", "from": old_ver, "in": vin, "expect": vout}
                    inj = to_json(vin, tg_old)
                    src = ndjson_file(old_ver, p, p.lines(inj))
                    binp = src + ".bin"
                    rc, err = exe(old_ver, p.name, "j2b", src, binp)
                    if rc != 0:
                        r["harness"] = "the %s writer refused the input: %s" % (old_ver, err)
                        res["runs"].append(r)
                        continue
                    outp = src + ".out"
                    rc, err = exe("cur", p.name, "b2j", binp, outp)
                    r["rc"], r["err"], r["got"] = rc, err, read_lines(outp)
                    if vout["s"] in ("ok", "zeroerr"):
                        r["want"] = p.lines(to_json(vout["v"], tg_new))
                    elif p.stream:
                        r["want_prefix"] = p.lines(to_json(vout["v"], tg_new))[:-1]
                    else:
                        r["want_prefix"] = [{"first": 11}]
                    res["runs"].append(r)
                for vin, vout in downs:
                    r = {"probe": (p.edit, p.pos), "dir": "down", "from": old_ver, "in": vin, "expect": vout}
                    src = ndjson_file("cur", p, p.lines(to_json(vin, tg_new)))
                    binp = src + ".bin"
                    rc, err = exe("cur", p.name, "j2b", src, binp, old_ver)
                    r["rc"], r["err"] = rc, err
                    if rc == 0:
                        outp = src + ".out"
                        rc2, err2 = exe(old_ver, p.name, "b2j", binp, outp)
                        r["rc2"], r["err2"], r["got"] = rc2, err2, read_lines(outp)
                        if vout["s"] in ("ok", "zeroerr"):
                            r["want"] = p.lines(to_json(vout["v"], tg_old))
                    res["runs"].append(r)
                if p.kind == "step" and not old_is_new:
                    info = p.stepinfo
                    data = {"a": 5, "b": "hello"}
                    # up: the old stream has no 'more' step
                    r = {"probe": (p.edit, "definition"), "dir": "up", "from": old_ver, "in": "absent", "expect": {"s": "ok"}}
                    src = ndjson_file(old_ver, p, p.lines(data))
                    rc, err = exe(old_ver, p.name, "j2b", src, src + ".bin")
                    if rc != 0:
                        r["harness"] = err
                    else:
                        rc, err = exe("cur", p.name, "b2j", src + ".bin", src + ".out")
                        r["rc"], r["err"], r["got"] = rc, err, read_lines(src + ".out")
                        r["want"] = p.lines(data, to_json(info["absent"]), info["decl"])
                    res["runs"].append(r)
                    r = {"probe": (p.edit, "definition"), "dir": "down", "from": old_ver, "in": info["sample"], "expect": {"s": "ok"}}
                    src = ndjson_file("cur", p, p.lines(data, to_json(info["sample"]), info["decl"]))
                    rc, err = exe("cur", p.name, "j2b", src, src + ".bin", old_ver)
                    r["rc"], r["err"] = rc, err
                    if rc == 0:
                        rc2, err2 = exe(old_ver, p.name, "b2j", src + ".bin", src + ".out")
                        r["rc2"], r["err2"], r["got"] = rc2, err2, read_lines(src + ".out")
                        r["want"] = p.lines(data)
                    res["runs"].append(r)
        if not os.environ.get("VERIF_KEEP"):
            shutil.rmtree(root, ignore_errors=True)
        return res

    results = pmap(work, list(enumerate(batches)), jobs=min(NCPU, len(batches)))
    harness_refusals = 0
    for res in results:
        if res["problem"]:
            kind, ver, txt, model = res["problem"]
            if kind == "crash":
                c.violation("C05:generate:crash", "yardl generate crashes on a package with listed versions (%s): %s" % (ver, txt[-300:]), {"output": txt, "model": model[:4000]})
            elif kind == "compile":
                c.violation("C05:compile:%s" % ver, "the code generated for an accepted package with versions does not compile (%s): %s" % (ver, txt[-400:]),
                            {"output": txt, "model": model[:6000]})
            else:
                c.note("batch %d unusable: %s %s %s" % (res["bi"], kind, ver, txt[-300:]))
            continue
        for edit, pos, txt in res["dropped"]:
            c.note("yardl rejects %s at %s when two versions are listed: %s" % (edit, pos, txt[-200:]))
        for r in res["runs"]:
            edit, pos = r["probe"]
            key = "C05:%s:%s:%s:%s" % (r["dir"], edit, pos, r["expect"]["s"])
            c.cov["traces_validated_against_impl"] += 1
            if "harness" in r:
                harness_refusals += 1
                continue
            c.count((r["dir"], edit, pos, r["expect"]["s"], r["from"]), nontrivial=True)
            replay = {k: r.get(k) for k in ("probe", "dir", "from", "in", "expect", "rc", "err", "rc2", "err2", "got", "want", "want_prefix")}
            crashed = r.get("rc") not in (0, 1) or r.get("rc2", 0) not in (0, 1)
            if crashed:
                c.violation(key + ":crash", "%s %s at %s (%s): the generated program crashed (rc=%s/%s) %s" % (
                    r["dir"], edit, pos, r["from"], r.get("rc"), r.get("rc2"), r.get("err")), replay)
                continue
            s = r["expect"]["s"]
            if s == "ok":
                if r.get("rc") != 0 or r.get("rc2", 0) != 0:
                    c.violation(key, "%s %s at %s (%s): conversion of %s failed: %s %s" % (r["dir"], edit, pos, r["from"], json.dumps(to_json(r["in"]) if isinstance(r["in"], dict) else r["in"]),
                                                                                         r.get("err"), r.get("err2", "")), replay)
                elif not jeq(r.get("got"), r["want"]):
                    c.violation(key, "%s %s at %s (%s): delivered %s, documented conversion gives %s" % (
                        r["dir"], edit, pos, r["from"], json.dumps(r.get("got"))[:200], json.dumps(r["want"])[:200]), replay)
            elif s == "zeroerr":
                # an error, or the documented zero value in place of what cannot be represented
                if r.get("rc") == 0 and r.get("rc2", 0) == 0 and not jeq(r.get("got"), r["want"]):
                    c.violation(key, "%s %s at %s (%s): %s was converted without an error, and the reader sees %s - neither an error nor the zero value (%s)" % (
                        r["dir"], edit, pos, r["from"], json.dumps(to_json(r["in"]))[:120], json.dumps(r.get("got"))[:200], json.dumps(r["want"])[:200]), replay)
            elif s == "err":
                if r["dir"] == "up":
                    if r.get("rc") == 0:
                        c.violation(key, "%s %s at %s (%s): a value that cannot be converted (%s) was delivered as %s instead of an error" % (
                            r["dir"], edit, pos, r["from"], json.dumps(to_json(r["in"]))[:120], json.dumps(r.get("got"))[:200]), replay)
                    else:
                        got, want = r.get("got") or [], r["want_prefix"]
                        if not (len(got) <= len(want) and all(jeq(a, b) for a, b in zip(got, want))):
                            c.violation(key, "%s %s at %s (%s): values delivered before the error (%s) are not the conversions of the values written (%s)" % (
                                r["dir"], edit, pos, r["from"], json.dumps(got)[:200], json.dumps(want)[:200]), replay)
                else:
                    if r.get("rc") == 0 and r.get("rc2") == 0:
                        c.violation(key, "%s %s at %s (%s): a value the previous version cannot represent (%s) was written without an error; the %s reader sees %s" % (
                            r["dir"], edit, pos, r["from"], json.dumps(to_json(r["in"]))[:120], r["from"], json.dumps(r.get("got"))[:200]), replay)
    if harness_refusals > max(10, c.cov["traces_validated_against_impl"] // 10):
        raise Inconclusive("the old-version writers refuse too many inputs (%d)" % harness_refusals)
    usable = [r for r in results if not r["problem"]]
    if len(usable) < max(1, len(results) // 2):
        raise Inconclusive("too few usable batches")
    c.cov["harness_refusals"] = harness_refusals
    for kind, cs, info in allc[:3]:
        c.sample({"edit": cs["edit"], "pos": cs.get("pos"), "up": (cs.get("up") or [None])[0]})
    c.assumptions += ["schema evolution exists for C++ binary only (docs/cpp/evolution.md); each version's own generated NDJSON reader/writer is the vehicle that "
                      "builds and prints values (their fidelity is C02/C03's subject)",
                      "where the documentation says 'may' (rounding, numeric overflow) the specification says ANY: only a clean outcome is required",
                      "each package lists two previous versions (v0: every probe old, v1: half of the probes already new), so every conversion is also checked with a "
                      "second listed version present and for the second version label"]
    c.finish(rule="EvoData.tla: TLC computes Up/Down for every non-breaking type edit x position (lifted through stream/vector/optional/record wrappers) and "
                  "every record/step edit, with ok / err / any outcomes; every (edit, position, sample value, direction, version label) is executed: old value "
                  "-> old writer -> current reader (Up), new value -> current writer targeting the version -> old reader (Down); distinct = (direction, edit, "
                  "position, outcome class, version)", exhaustive=thorough)


main_wrapper(main)
