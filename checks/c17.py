#!/usr/bin/env python3
"""C17 - stream contents do not depend on batching, and items are independent.  See DESIGN.md section 3 (C17)."""
import os, sys, json
sys.path.insert(0, os.path.join(os.path.dirname(os.path.abspath(__file__)), "..", "lib"))
from common import *
import wireengine as we, wirelib, drivers

N = 4


def shape_varying(t):
    k = t["k"]
    if k in ("map", "opt", "vec", "union", "rec", "ndarr", "dynarr") or (k == "prim" and t["p"] == "string"):
        return True
    # fixed-size items that the runtimes copy with memcpy / as raw buffers (batch reads use a different code path for them)
    if k == "prim" and t["p"] in ("float32", "float64", "complexfloat64", "complexfloat32", "int8", "uint8"):
        return True
    return k in ("farr", "fvec") and t["t"]["k"] == "prim" and t["t"]["p"] in ("float32", "float64", "int8", "complexfloat32")


class StreamPackage(we.Package):
    """Every step is a stream; run values are N consecutive cases of the step's type."""

    def __init__(self, idx, types, root):
        super().__init__(idx, types, root)
        for s in self.steps:
            s["stream"] = True
        self.n_streams = len(self.steps)

    def items(self, r, jsonable):
        res = []
        for s in self.steps:
            cs = s["jcases"] if jsonable else s["cases"]
            if not cs:
                res.append(("stream", []))
            else:
                res.append(("stream", [cs[(r - 1 + k) % len(cs)] for k in range(N)]))
        return res


def main():
    c = Check("C17", "model_checking")
    sc = scratch("verif-c17-")
    yardl = build_yardl(sc)
    home = os.path.join(sc, "home")
    thorough = c.tier == "thorough"

    res = tlc("StreamBlocks", cfg="MCStreamBlocks.cfg", timeout=900)
    if res.invariant_violated:
        c.note("TLC: %s violated in StreamBlocks (model-level)" % res.violated_names())
    c.add_tlc(res)
    behaviours = tlc_cases(res.out)
    writer_cases = [b for b in behaviours if "writer_script" in b]
    behaviours = [b for b in behaviours if "writer_script" not in b]
    c.cov["tlc_writer_scripts_with_empty_batches"] = len(writer_cases)
    for b in behaviours:
        b["partition"] = [x for x in b["wire"] if x > 0]
    c.cov["tlc_behaviours"] = len(behaviours)

    cases, _ = we.export_cases(1, tier=c.tier)
    m = 24 if thorough else 80            # (m = 7 made the thorough tier run for more than an hour; sized to about 15 minutes)
    cases2, _ = we.export_cases(2, mod=m, rem=(c.seed + 5) % m, tier=c.tier)
    types = [x for x in we.group_types(cases + cases2) if shape_varying(x[0]) and not we.cpp_unbuildable(x[0])
             and len(x[1]) >= 2 and sum(1 for q in x[1] if q["jsonable"]) >= 2]
    c.rng.shuffle(types)
    # records whose fields can be absent / null only by way of an alias or (in the generic spelling) of a type argument: readers that
    # reuse the destination must reset such a field when an item does not carry it
    import re as _re
    nullable_by_name = [x for x in types if x[0]["k"] == "rec" and _re.search(r"alias\((alias\()?(opt|union\(null)", we.type_class(x[0]))]
    if not thorough:
        fixed = [x for x in types if x[0]["k"] in ("prim", "farr", "fvec")]
        # ... and records of fixed-width numeric fields (NumPy users hand streams of them over as structured arrays)
        pod = [x for x in types if _re.fullmatch(r"rec\(((u?int\d+|float\d+|complexfloat\d+),?)+\)", we.type_class(x[0]))]
        first = nullable_by_name[:12] + pod[:4]
        types = first + fixed[:24] + [x for x in types if x not in fixed and x not in first][:60]
    c.cov["records_nullable_through_alias"] = len(nullable_by_name if thorough else nullable_by_name[:12])
    pkgs = [StreamPackage(i, types[j:j + 16], sc) for i, j in enumerate(range(0, len(types), 16))]
    for p in pkgs:      # records also spelled as instances of generic records (a nullable field type becomes a type argument)
        p.style = {"generics": ["none", "local", "none"][p.idx % 3], "optional": "question"}

    def prep(p):
        if not p.generate(yardl, home):
            return p
        if not p.build_cpp():
            return p
        p.calls_exe = os.path.join(p.root, "calls")
        ok, log, steps = drivers.cpp_build_calls(os.path.join(p.root, "cpp"), p.ns_cpp, p.proto, p.calls_exe)
        if not ok:
            p.problem = "call driver does not build: " + log
            return p
        p.ok = True
        return p
    pmap(prep, pkgs, jobs=max(2, NCPU // 4))
    good = [p for p in pkgs if p.ok]
    for p in pkgs:
        if not p.ok:
            c.note("package %d unusable: %s" % (p.idx, (p.problem or "")[:500]))
    if len(good) < max(1, len(pkgs) * 3 // 4):
        raise Inconclusive("too many unusable packages")

    per_pkg = min(len(behaviours), 160) if thorough else 40
    partitions = sorted(set(tuple(b["partition"]) for b in behaviours))

    def script_for(b, nsteps):
        lines = []
        for i in range(nsteps):
            for kind, cap, cnt, more in b["calls"]:
                lines.append("one %d" % i if kind == "one" else "batch %d %d" % (i, cap))
        lines.append("close")
        return lines

    def work(p):
        out = []
        rng = random.Random(c.seed * 7919 + p.idx)
        bs = behaviours if per_pkg >= len(behaviours) else rng.sample(behaviours, per_pkg)
        wd = os.path.join(p.root, "io")
        os.makedirs(wd, exist_ok=True)
        for bi, b in enumerate(bs):
            r = 1 + bi % 5
            vals = p.items(r, True)
            for fmt in ("binary", "ndjson"):
                infile = os.path.join(wd, "calls-%d.%s" % (bi, fmt))
                data = p.spec_binary(vals, b["partition"]) if fmt == "binary" else p.spec_ndjson(vals).encode()
                open(infile, "wb").write(data)
                rc, lines, se = drivers.run_calls([p.calls_exe], "rcalls", fmt, infile, script_for(b, len(p.steps)))
                # delivered values per step, in order
                got = {}
                exc = [l for l in lines if l.startswith("EXC")]
                for l in lines:
                    if l.startswith("VAL "):
                        _, name, js = l.split(" ", 2)
                        got.setdefault(name, []).append(json.loads(js))
                bad = None
                if exc or rc != 0:
                    bad = "reader raised on a well-formed stream: %s %s" % (exc[:1], se[-200:])
                else:
                    names = [x[0] for x in drivers.cpp_steps(os.path.join(p.root, "cpp"), p.proto)]
                    for si, (s, (_, items)) in enumerate(zip(p.steps, vals)):
                        g = got.get(names[si], [])
                        if len(g) != len(items):
                            bad = "step %d: %d items delivered, %d written" % (si, len(g), len(items))
                            break
                        for k, (it, gv) in enumerate(zip(items, g)):
                            if not wirelib.match_any(it["json"], gv):
                                bad = "step %d item %d: delivered %s, written %s" % (si, k, json.dumps(gv)[:150],
                                                                                    json.dumps(wirelib.render(it["json"][0]))[:150])
                                break
                        if bad:
                            break
                out.append((p, "cpp-calls-" + fmt, b, bad, infile))
        # writer side: call scripts with empty batches (StreamBlocks.tla WriterCases) on the generated C++ binary writer; the items are
        # default-constructed, what is asserted is how many the generated reader then finds before the end of each stream
        wsel = writer_cases if thorough else rng.sample(writer_cases, min(len(writer_cases), 6))
        nst = min(len(p.steps), 3)
        for wi, wc in enumerate(wsel):
            wfile = os.path.join(wd, "wcalls-%d.bin" % wi)
            script = []
            for i in range(len(p.steps)):
                if i < nst:
                    script += ["write %d" % i if k == 100 else "wbatch %d %d" % (i, k) for k in wc["writer_script"]]
                script.append("end %d" % i)
            script.append("close")
            rc, lines, se = drivers.run_calls([p.calls_exe], "wcalls", "binary", wfile, script)
            bad = None
            if rc != 0 or any(l.startswith("EXC") for l in lines):
                bad = "writer raised on the call script %s: %s" % (wc["writer_script"], [l for l in lines if l.startswith("EXC")][:1])
            else:
                n_items = sum(1 if k == 100 else k for k in wc["writer_script"])
                rscript = []
                for i in range(len(p.steps)):
                    rscript += ["one %d" % i] * ((n_items if i < nst else 0) + 1)
                rscript.append("close")
                rc2, rl, se2 = drivers.run_calls([p.calls_exe], "rcalls", "binary", wfile, rscript)
                oks = [l for l in rl if l.startswith("OK ")]
                delivered = sum(1 for l in oks if l.split()[1] == "1")
                if rc2 != 0 or any(l.startswith("EXC") for l in rl):
                    bad = "after the writer calls %s (per stream) the generated reader fails on the stream: %s" % (wc["writer_script"], [l for l in rl if l.startswith("EXC")][:1])
                elif delivered != n_items * nst:
                    bad = "the writer calls %s (per stream) wrote %d items in %d streams, the reader finds %d" % (wc["writer_script"], n_items, nst, delivered)
            out.append((p, "cpp-writer-calls", {"partition": wc["wire"], "calls": wc["writer_script"]}, bad, wfile))
        # whole-stream copies: every partition x batch capacity (C++) / write mode (Python), all values incl. non-JSON ones
        for pi, part in enumerate(partitions):
            for r in (1, 2):
                vals = p.items(r, False)
                for cap in (1, 2, 3, 4):
                    rr = we.leg(p, "cpp", "binary", "binary", vals, "cp-%d-%d-%d" % (pi, r, cap), block=list(part), bufsize=cap)
                    out.append((p, "cpp-copy-cap%d" % cap, {"partition": list(part)}, None if rr["ok"] else rr["msg"], rr.get("in")))
                for mode in ("copy", "items", "list", "ndarray"):
                    rr = we.leg(p, "py", "binary", "binary", vals, "py-%d-%d-%s" % (pi, r, mode), block=list(part), mode=mode)
                    out.append((p, "py-copy-" + mode, {"partition": list(part)}, None if rr["ok"] else rr["msg"], rr.get("in")))
                jv = p.items(r, True)
                rr = we.leg(p, "cpp", "ndjson", "binary", jv, "cj-%d-%d" % (pi, r), bufsize=1 + pi % 3)
                out.append((p, "cpp-ndjson-cap%d" % (1 + pi % 3), {"partition": list(part)}, None if rr["ok"] else rr["msg"], rr.get("in")))
        return out

    results = [x for lst in pmap(work, good) for x in lst]
    for p, kind, b, bad, infile in results:
        c.cov["traces_validated_against_impl"] += 1
        c.count((p.idx, kind, json.dumps(b.get("partition")), json.dumps(b.get("calls"))), nontrivial=True)
        if bad:
            st = we.blame_step(p, bad)
            shape = we.type_class(st["t"]) if st else "?"
            if kind.startswith("cpp") and st is not None:
                us = []
                we._unions(st["t"], us)
                if any(we.type_class(u) in we.cpp_variant_tag_clash(p) for u in us):
                    shape += ":one-cpp-variant-two-tag-sets"          # the C02 finding, met here because values travel as NDJSON
            c.violation("C17:%s:%s" % (kind, shape), bad,
                        {"package_model": open(os.path.join(p.root, "model", "model.yml")).read(), "kind": kind, "behaviour": b,
                         "input_hex": open(infile, "rb").read().hex()[-8000:] if infile and os.path.exists(infile) else None})
    # ---- long streams of arrays (WireBig.tla): items kept by the consumer must stay what they were when delivered,
    #      across buffer refills (Python collects the whole stream into a list; C++ reads large batches)
    pads = [0, 5] if not thorough else [0, 3, 5, 8]
    bigrecs = pmap(we.export_big, pads, jobs=4)
    bp = we.BigPackage(sc, bigrecs[0])
    bgood, _ = we.prepare([bp], yardl, home)
    if not bgood:
        c.note("large-stream package unusable: %s" % (bp.problem or "")[:400])
    else:
        def bigwork(args):
            pad, recs = args
            vals = bp.vals_for(recs)
            out = []
            for mode in ("list", "items", "copy", "ndarray"):
                out.append(("py-big-" + mode, pad, we.leg(bp, "py", "binary", "binary", vals, "big-py-%d-%s" % (pad, mode), block=[7, 1, None][pad % 3], mode=mode)))
            for cap in (1, 7, 64):
                out.append(("cpp-big-cap%d" % cap, pad, we.leg(bp, "cpp", "binary", "binary", vals, "big-cpp-%d-%d" % (pad, cap), block=[7, 1, None][pad % 3], bufsize=cap)))
            return out
        for kind, pad, rr in [x for lst in pmap(bigwork, list(zip(pads, bigrecs)), jobs=4) for x in lst]:
            c.cov["traces_validated_against_impl"] += 1
            c.count((kind, pad), nontrivial=True)
            if not rr["ok"]:
                st = we.blame_step(bp, rr["msg"])
                c.violation("C17:%s:%s" % (kind, st["name"] if st else "?"), rr["msg"], {"pad": pad, "kind": kind, "stderr": rr.get("stderr"),
                                                                                       "values": "spec/wire/WireBig.tla with VERIF_PAD=%d" % pad})
    for b in behaviours[:3]:
        c.sample({"written_blocks": b["wire"], "reader_calls": b["calls"]})
    c.cov["packages"] = len(good)
    c.cov["item_types"] = len(types)
    c.assumptions += ["C++ single/batch reads are driven through a generated call-sequence driver; Python readers consume item by item",
                      "values compared as JSON for the call-sequence runs (non-finite floats only in whole-stream byte comparisons)"]
    c.finish(rule="TLC explores every partition of %d items into blocks x every sequence of single and batch reads (capacities 1..3) on the "
                  "implementation-shaped reader of StreamBlocks.tla; completed behaviours are replayed on the generated C++ reader (binary and "
                  "NDJSON) over streams of items whose shape varies from item to item; whole-stream copies cover every partition x CopyTo "
                  "capacity 1..4 (C++) and list/generator/per-item writes (Python); distinct = (package, kind, partition, call sequence)" % N,
             exhaustive=thorough)


main_wrapper(main)
