#!/usr/bin/env python3
"""C20 - watch mode converges to the output for the final package contents.  See DESIGN.md section 3 (C20)."""
import os, sys, json, re, shutil, time, subprocess, signal
sys.path.insert(0, os.path.join(os.path.dirname(os.path.abspath(__file__)), "..", "lib"))
from common import *

MANIFEST = """namespace: Wm
imports:
  - ../lib
python:
  outputDir: ../out/py
json:
  outputDir: ../out/json
matlab:
  outputDir: ../out/matlab
cpp:
  sourcesOutputDir: ../out/cpp
  generateHDF5: false
  generateCMakeLists: false
"""
MAIN = """Base: !record
  fields:
    x: int
P: !protocol
  sequence:
    b: Base
    s: !stream
      items: int
"""


def extra_text(version, valid=True, d="main"):
    if not valid:
        return "Broken%d: !record\n  fields:\n    - this is not a field map\n  oops\n" % version
    p = "" if d == "main" else "L"
    # (a protocol whose name stays the same from version to version while its schema changes: whatever the watcher remembers about
    #  "protocol PX" from an earlier regeneration is stale after the edit)
    return ("%sRec%d: !record\n  fields:\n    v%d: int\n    w: string\n%sE%d: !enum\n  values: [a, b%d]\n" % (p, version, version, p, version, version)
            + "%sPX: !protocol\n  sequence:\n    r: %sRec%d\n    e: !stream\n      items: %sE%d\n" % (p, p, version, p, version))


LIBBASE = "LibThing: !record\n  fields:\n    y: int\n"


def snapshot(root):
    out = {}
    for dp, dn, fn in os.walk(root):
        for f in fn:
            p = os.path.join(dp, f)
            try:
                out[os.path.relpath(p, root)] = open(p, "rb").read()
            except OSError:
                pass
    return out


class Watcher:
    def __init__(self, yardl, root, home, initial_valid=True):
        self.root = root
        self.mdir = os.path.join(root, "model")
        self.ldir = os.path.join(root, "lib")
        os.makedirs(self.ldir)
        open(os.path.join(self.ldir, "_package.yml"), "w").write("namespace: Lib\n")
        open(os.path.join(self.ldir, "base.yml"), "w").write(LIBBASE)
        open(os.path.join(self.ldir, "lextra.yml"), "w").write(extra_text(0, initial_valid, "imp"))
        self.broken = set() if initial_valid else {"imp"}
        self.gates = os.path.join(root, "gates")
        self.trace = os.path.join(root, "trace.ndjson")
        os.makedirs(self.mdir)
        os.makedirs(self.gates)
        open(os.path.join(self.gates, "after_chdir.pass"), "w").close()       # only the point between validation and writing is scheduled
        open(os.path.join(self.mdir, "_package.yml"), "w").write(MANIFEST)
        open(os.path.join(self.mdir, "main.yml"), "w").write(MAIN)
        open(os.path.join(self.mdir, "extra.yml"), "w").write(extra_text(0))
        env = yardl_env(home)
        env["YARDL_VERIF_TRACE"] = self.trace
        env["YARDL_VERIF_GATE_DIR"] = self.gates
        self.log = open(os.path.join(root, "watch.log"), "wb")
        self.proc = subprocess.Popen([yardl, "generate", "--watch"], cwd=self.mdir, env=env, stdout=self.log, stderr=subprocess.STDOUT)
        self.released = set()
        self.version = 0

    def events(self):
        out = []
        try:
            for l in open(self.trace):
                try:
                    out.append(json.loads(l))
                except ValueError:
                    pass
        except OSError:
            pass
        return out

    def note(self, what, **kw):
        """the harness writes its own actions into the same append-only trace, so that file order is the global order"""
        with open(self.trace, "a") as f:
            f.write(json.dumps(dict({"event": what, "pid": 0}, **kw)) + "\n")

    def arrivals(self):
        ns = []
        for f in os.listdir(self.gates):
            m = re.fullmatch(r"before_write\.(\d+)\.arrived", f)
            if m:
                ns.append(int(m.group(1)))
        return sorted(ns)

    def held(self):
        return [n for n in self.arrivals() if n not in self.released]

    def release(self, n):
        self.note("HRelease", n=n)
        open(os.path.join(self.gates, "before_write.%d.go" % n), "w").close()
        self.released.add(n)

    def counts(self):
        ev = self.events()
        return sum(1 for e in ev if e["event"] == "RegenStart"), sum(1 for e in ev if e["event"] == "RegenEnd")

    def wait(self, cond, timeout):
        t0 = time.time()
        while time.time() - t0 < timeout:
            if cond():
                return True
            if self.proc.poll() is not None:
                return False
            time.sleep(0.01)
        return False

    def file_of(self, d):
        return os.path.join(self.mdir, "extra.yml") if d == "main" else os.path.join(self.ldir, "lextra.yml")

    def edit(self, kind, valid=True, d="main"):
        self.version += 1
        p = self.file_of(d)
        if kind == "remove" and not os.path.exists(p):
            kind = "write"                      # nothing to remove: the file comes back instead
        hist = self.__dict__.setdefault("texts", {}).setdefault(d, [(0, True, extra_text(0, True, d))])
        if kind == "restore":
            # put back, byte for byte, what the file held before the previous edit of this directory (Watch.tla: content' = prev)
            ver, valid, text = hist[-2] if len(hist) >= 2 else hist[-1]
            hist.append((ver, valid, text))
            self.note("HEdit", kind="write" if text is not None else "remove", version=ver if ver is not None else self.version, valid=valid, dir=d, restore=True)
            (self.broken.discard if valid else self.broken.add)(d)
            if text is None:
                if os.path.exists(p):
                    os.remove(p)
            else:
                with open(p, "w") as f:
                    f.write(text)
            self.note("HEditDone", version=self.version)
            return
        hist.append((None, True, None) if kind == "remove" else (self.version, valid, extra_text(self.version, valid, d)))
        self.note("HEdit", kind=kind, version=self.version, valid=valid, dir=d)
        if valid:
            self.broken.discard(d)
        else:
            self.broken.add(d)
        if kind == "remove":
            os.remove(p)
        elif kind == "rename":
            tmp = os.path.join(os.path.dirname(p), ".extra.yml.tmp")
            open(tmp, "w").write(extra_text(self.version, valid, d))
            os.rename(tmp, p)
        else:
            with open(p, "w") as f:
                f.write(extra_text(self.version, valid, d))
        self.note("HEditDone", version=self.version)

    def drain(self, timeout=20):
        """let everything run: open the gate for good and wait until regenerations have ended and nothing new starts"""
        self.note("HPassAll")
        open(os.path.join(self.gates, "before_write.pass"), "w").close()
        t0 = time.time()
        last_change, last = time.time(), None
        while time.time() - t0 < timeout:
            ev = self.events()
            s = sum(1 for e in ev if e["event"] == "RegenStart")
            e_ = sum(1 for e in ev if e["event"] == "RegenEnd")
            n = len(ev)
            if (s, e_, n) != last:
                last, last_change = (s, e_, n), time.time()
            # a file-system event that no regeneration has started after yet means one is still owed (the debounce timer may be late on a
            # loaded machine); give it 8 s before concluding that the implementation will not start one
            idx_fs = max([i for i, e in enumerate(ev) if e["event"] == "FsEvent"], default=-1)
            idx_rs = max([i for i, e in enumerate(ev) if e["event"] == "RegenStart"], default=-1)
            owed = idx_fs > idx_rs and time.time() - last_change < 8
            if s == e_ and not owed and time.time() - last_change > 0.6:
                return True
            if self.proc.poll() is not None:
                return False
            time.sleep(0.02)
        return False

    def stop(self):
        if self.proc.poll() is None:
            self.proc.send_signal(signal.SIGTERM)
            try:
                self.proc.wait(timeout=5)
            except subprocess.TimeoutExpired:
                self.proc.kill()
        self.log.close()


def observed_marker(outroot):
    """which version's generation is on disk: the number in the Rec<n> class of the generated Python, 'none' when extra.yml contributed nothing"""
    out = []
    for path, pat in ((os.path.join(outroot, "py", "wm", "types.py"), r"class Rec(\d+)"), (os.path.join(outroot, "py", "wm", "lib", "types.py"), r"class LRec(\d+)")):
        try:
            m = re.search(pat, open(path).read())
            out.append(int(m.group(1)) if m else "none")
        except OSError:
            out.append("missing")
    return out


def abstract_trace(events, base, initial_valid=True):
    """hook events + harness events of one run -> lines for TraceWatch.tla.  base: global version number of this run's initial contents.
    Returns (lines, marker_of_global_version, next_free_version)"""
    lines = [{"e": "reset", "version": base, "valid": bool(initial_valid)}]
    state = [0, 0 if initial_valid else "invalid"]           # what the main file and the imported package's file contribute
    markers = {base: list(state) if initial_valid else "invalid"}
    cur = base
    in_regen, validated, wrote = False, False, 0
    for e in events:
        ev = e["event"]
        if ev == "HEdit":
            cur += 1
            state[0 if e.get("dir", "main") == "main" else 1] = "none" if e["kind"] == "remove" else (e["version"] if e["valid"] else "invalid")
            markers[cur] = "invalid" if "invalid" in state else list(state)
            lines.append({"e": "editbegin", "version": cur, "valid": "invalid" not in state, "dir": e.get("dir", "main")})
        elif ev == "HEditDone":
            lines.append({"e": "editend"})
        elif ev == "FsEvent":
            lines.append({"e": "fsevent"})
        elif ev == "RegenStart":
            in_regen, validated, wrote = True, False, 0
            lines.append({"e": "start"})
        elif ev == "Validated":
            validated = True
            lines.append({"e": "read", "ok": True})
        elif ev == "WriteFile" and in_regen and validated:
            if wrote == 0:
                lines.append({"e": "write"})
            wrote += 1
        elif ev == "RegenEnd":
            if not validated:
                lines.append({"e": "read", "ok": False})
            else:
                if wrote == 0:
                    lines.append({"e": "write"})
                lines.append({"e": "write"})
                lines.append({"e": "end"})
            in_regen = False
    return lines, markers, cur + 1


def run_schedule(yardl, home, root, hist, initial_valid=True):
    """schedule-guided run: edits are performed when the schedule says so, a regeneration that has reached the gate is held until the schedule
    releases it; what the implementation does in between (debounce, locking) is its own business.  Returns a result dict."""
    w = Watcher(yardl, root, home, initial_valid=initial_valid)
    res = {"hist": hist, "alive": True, "problem": None, "initial_valid": initial_valid}
    try:
        if not w.wait(lambda: len(w.arrivals()) >= 1 or w.counts()[1] >= 1, 20):
            res["problem"] = "the watcher never reached its first generation"
            return res
        for tok in hist:
            if tok["a"] == "edit":
                before_arr, (s0, e0) = len(w.arrivals()), w.counts()
                w.edit(tok["kind"], tok.get("valid", True), tok.get("dir", "main"))
                # give the debounce timer and the read phase time: a new arrival at the gate, or a regeneration that ended without reaching it
                w.wait(lambda: len(w.arrivals()) > before_arr or w.counts()[1] > e0, 0.5)
            elif tok["a"] == "release":
                h = w.held()
                if h:
                    n = h[min(tok["rank"], len(h) - 1)]
                    e0 = w.counts()[1]
                    w.release(n)
                    w.wait(lambda: w.counts()[1] > e0, 5)
        drained = w.drain()
        res["alive"] = w.proc.poll() is None
        if not drained and res["alive"]:
            res["problem"] = "the watcher did not drain within 20 s"
        # one more valid save after everything: the watcher must still be serving
        res["final_dir"] = {os.path.join(dn, f): open(os.path.join(dd, f)).read() for dn, dd in (("model", w.mdir), ("lib", w.ldir))
                            for f in sorted(os.listdir(dd)) if not f.startswith(".")}
        res["out"] = snapshot(os.path.join(root, "out"))
        res["trace"] = w.events()
        res["marker"] = observed_marker(os.path.join(root, "out"))
    finally:
        w.stop()
    return res


# ---------------------------------------------------------------- WatchEnv.tla: faults that leave something behind in the process
ENV_MANIFEST = MANIFEST
ENV_LIB_MANIFEST = "namespace: Lib\nimports:\n  - ../leaf\n"
BAD_IMPORT = "  - https://\n"            # cannot be fetched (fails inside fetchAndCachePackages, after the Chdir)


def run_env_schedule(yardl, home, root, hist):
    """main -> lib -> leaf; the edits of a WatchEnv.tla behaviour are performed on the real watcher (waiting for it to settle where the
    behaviour says it had); afterwards the output tree is compared with one-shot generate on the final contents"""
    mdir, ldir, fdir = os.path.join(root, "model"), os.path.join(root, "lib"), os.path.join(root, "leaf")
    for d in (mdir, ldir, fdir):
        os.makedirs(d)
    open(os.path.join(fdir, "_package.yml"), "w").write("namespace: Leaf\n")
    open(os.path.join(fdir, "leaf.yml"), "w").write("LeafThing: !record\n  fields:\n    z: int\n")
    open(os.path.join(ldir, "_package.yml"), "w").write(ENV_LIB_MANIFEST)
    open(os.path.join(ldir, "base.yml"), "w").write(LIBBASE + "LibUser: !record\n  fields:\n    t: Leaf.LeafThing\n")
    open(os.path.join(mdir, "_package.yml"), "w").write(ENV_MANIFEST)
    open(os.path.join(mdir, "main.yml"), "w").write(MAIN)
    open(os.path.join(mdir, "extra.yml"), "w").write(extra_text(0))
    trace = os.path.join(root, "trace.ndjson")
    env = yardl_env(home)
    env["YARDL_VERIF_TRACE"] = trace
    log = open(os.path.join(root, "watch.log"), "wb")
    proc = subprocess.Popen([yardl, "generate", "--watch"], cwd=mdir, env=env, stdout=log, stderr=subprocess.STDOUT)
    res = {"hist": hist, "alive": True, "problem": None}

    def counts():
        s = e = f = 0
        try:
            for l in open(trace):
                s += '"RegenStart"' in l
                e += '"RegenEnd"' in l
                f += '"FsEvent"' in l
        except OSError:
            pass
        return s, e, f

    def settle(timeout=15, quiet=0.5):
        t0, last, last_change = time.time(), None, time.time()
        while time.time() - t0 < timeout:
            cur = counts()
            if cur != last:
                last, last_change = cur, time.time()
            if cur[0] == cur[1] and cur[0] >= 1 and time.time() - last_change > quiet:
                return True
            if proc.poll() is not None:
                return False
            time.sleep(0.02)
        return False
    version = 0
    json_dropped = False

    def manifest():
        return ENV_MANIFEST.replace("json:\n  outputDir: ../out/json\n", "") if json_dropped else ENV_MANIFEST
    try:
        if not settle():
            res["problem"] = "the watcher never finished its first generation"
            return res
        for tok in hist:
            if tok["settled"]:
                settle()
            k = tok["kind"]
            version += 1
            if k == "model_error":
                open(os.path.join(mdir, "extra.yml"), "w").write(extra_text(version, False))
            elif k == "main_fetch_error":
                open(os.path.join(mdir, "_package.yml"), "w").write(manifest().replace("  - ../lib\n", "  - ../lib\n" + BAD_IMPORT))
            elif k == "nested_fetch_error":
                open(os.path.join(ldir, "_package.yml"), "w").write(ENV_LIB_MANIFEST + BAD_IMPORT)
            elif k == "nested_manifest_error":
                open(os.path.join(ldir, "_package.yml"), "w").write("namespace: Lib\nimports: {this is: [not a list\n")
            elif k == "drop_json":
                # the package simply has one target less from now on; what the JSON output holds at this moment must stay
                json_dropped = True
                res["json_at_drop"] = snapshot(os.path.join(root, "out", "json"))
                res["settled_before_drop"] = tok["settled"]
                open(os.path.join(mdir, "_package.yml"), "w").write(manifest())
            elif k == "repair":
                # the repair is made where the fault is (WatchEnv.tla Repair): faults of the nested package by saving files of the nested
                # package only - its manifest and a new version of one of its model files, so that the output depends on the repair
                faults = set(tok.get("faults") or [])
                if faults & {"nested_fetch_error", "nested_manifest_error"}:
                    open(os.path.join(ldir, "lextra.yml"), "w").write(extra_text(version, True, "imp"))
                    open(os.path.join(ldir, "_package.yml"), "w").write(ENV_LIB_MANIFEST)
                if faults & {"model_error", "main_fetch_error"} or not faults:
                    open(os.path.join(mdir, "_package.yml"), "w").write(manifest())
                    open(os.path.join(mdir, "extra.yml"), "w").write(extra_text(version))
            elif k == "save":
                open(os.path.join(mdir, "extra.yml"), "w").write(extra_text(version))
        ok = settle(timeout=25, quiet=1.2)
        res["alive"] = proc.poll() is None
        if not ok and res["alive"]:
            res["problem"] = "the watcher did not settle within 25 s"
        res["out"] = snapshot(os.path.join(root, "out"))
        res["version"] = version
        res["json_dropped"] = json_dropped
    finally:
        if proc.poll() is None:
            proc.send_signal(signal.SIGTERM)
            try:
                proc.wait(timeout=5)
            except subprocess.TimeoutExpired:
                proc.kill()
        log.close()
    # one-shot generate on a copy of the final contents
    ref = os.path.join(root, "ref")
    for d in ("model", "lib", "leaf"):
        shutil.copytree(os.path.join(root, d), os.path.join(ref, d))
    rc, o, e = run([yardl, "generate"], cwd=os.path.join(ref, "model"), env=yardl_env(home), timeout=120)
    res["ref_rc"] = rc
    res["ref"] = snapshot(os.path.join(ref, "out"))
    res["log"] = open(os.path.join(root, "watch.log"), errors="replace").read()[-1500:]
    return res


def main():
    c = Check("C20", "model_checking")
    sc = scratch("verif-c20-")
    yardl = build_yardl(sc)
    home = os.path.join(sc, "home")
    thorough = c.tier == "thorough"
    wdir = os.path.join(VERIF, "spec", "watch")
    # ---- the design
    r = tlc("Watch", cfg="MCWatch.cfg", spec_dirs=[wdir], timeout=900)
    c.add_tlc(r)
    if r.violated_names():
        c.note("MODEL: the serialized design itself violates %s" % r.violated_names())
        raise Inconclusive("Watch.tla (serialized) does not satisfy its own properties: %s" % r.violated_names())
    for cfg in ("MCWatchAsFound.cfg", "MCWatchTryLock.cfg", "MCWatchAsFoundDirs.cfg", "MCWatchAlwaysDirs.cfg"):
        r2 = tlc("Watch", cfg=cfg, spec_dirs=[wdir], timeout=900)
        c.add_tlc(r2)
        if "Converges" not in r2.violated_names():
            raise Inconclusive("vacuity guard: %s is expected to violate Converges" % cfg)
    # ---- schedules
    scheds = []
    for cfg in ("MCWatchSchedules.cfg", "MCWatchSchedulesInvalid.cfg", "MCWatchSchedulesDirs.cfg"):
        r3 = tlc("Watch", cfg=cfg, spec_dirs=[wdir], timeout=1800, workers=1)
        c.add_tlc(r3)
        for cs in tlc_cases(r3.out):
            scheds.append((cs["hist"], cfg != "MCWatchSchedulesInvalid.cfg"))
    uniq = {}
    for h, iv in scheds:
        uniq[json.dumps([h, iv], sort_keys=True)] = (h, iv)
    scheds = [uniq[k] for k in sorted(uniq)]
    c.cov["schedules_from_tlc"] = len(scheds)

    def consistent(h, initial_valid):
        """the specification's validity flag of every version must be what the files really are: a valid edit in one directory while the
        other directory's file is broken would be a valid version in the schedule and an invalid package on disk"""
        broken = set() if initial_valid else {"imp"}
        for t in h:
            if t["a"] != "edit":
                continue
            d = t.get("dir", "main")
            if t.get("valid", True):
                broken.discard(d)
                if broken:
                    return False
            else:
                broken.add(d)
        return True

    def interesting(h):
        # a release that comes after a later edit, or out of order
        return any(t["a"] == "release" and t["rank"] > 0 for t in h) or \
            any(h[i]["a"] == "edit" and any(t["a"] == "release" for t in h[i + 1:]) for i in range(len(h)))
    scheds = [(h, iv) for h, iv in scheds if consistent(h, iv)]
    c.cov["schedules_consistent"] = len(scheds)
    c.rng.shuffle(scheds)

    def uses_imp(h):
        return any(t["a"] == "edit" and t.get("dir") == "imp" for t in h)
    budget = 400 if thorough else 60
    groups = [[x for x in scheds if not x[1]],                                             # start from an invalid imported package
              [x for x in scheds if x[1] and uses_imp(x[0]) and interesting(x[0])],         # edits in the imported package's directory
              [x for x in scheds if x[1] and not uses_imp(x[0]) and interesting(x[0])],
              [x for x in scheds if x[1] and not interesting(x[0])]]
    chosen = []
    for g, share in zip(groups, (0.2, 0.3, 0.35, 0.15)):
        chosen += g[:max(4, int(budget * share))]
    # every kind of edit also as the LAST edit of some schedules (a save that is not picked up only shows when nothing follows it)
    for kind in ("write", "remove", "rename", "restore"):
        extra = [x for x in scheds if x not in chosen and [t for t in x[0] if t["a"] == "edit"][-1]["kind"] == kind]
        chosen += extra[:6 if not thorough else 30]
    # ... and every ordered pair of edit kinds (remove then restore brings back files that were generated, deleted and are due again)
    seen_pairs = set()
    for x in scheds:
        ks = tuple(t["kind"] for t in x[0] if t["a"] == "edit")
        if len(ks) == 2 and ks not in seen_pairs and x[1]:
            seen_pairs.add(ks)
            if x not in chosen:
                chosen.append(x)

    def expected_for(final_dir, idx):
        d = os.path.join(sc, "oneshot%d" % idx)
        os.makedirs(os.path.join(d, "model"))
        os.makedirs(os.path.join(d, "lib"))
        for f, txt in final_dir.items():
            open(os.path.join(d, f), "w").write(txt)
        rc, o, e = run([yardl, "generate"], cwd=os.path.join(d, "model"), env=yardl_env(home), timeout=120)
        snap = snapshot(os.path.join(d, "out")) if rc == 0 else None
        shutil.rmtree(d, ignore_errors=True)
        return rc, snap

    def work(arg):
        i, (h, initial_valid) = arg
        root = os.path.join(sc, "w%d" % i)
        os.makedirs(root)
        res = run_schedule(yardl, home, root, h, initial_valid)
        if res.get("final_dir") is not None:
            res["oneshot_rc"], res["expected"] = expected_for(res["final_dir"], i)
        shutil.rmtree(root, ignore_errors=True)
        return res
    results = pmap(work, list(enumerate(chosen)), jobs=min(NCPU, 8))
    infra = 0
    for res in results:
        h = res["hist"]
        shape = ("" if res.get("initial_valid", True) else "x:") + "".join(
            (("E" if t.get("valid", True) else "X") + ("i" if t.get("dir") == "imp" else "")) if t["a"] == "edit" else "R%d" % t["rank"] for t in h)
        kinds = "+".join(sorted(set(t["kind"] for t in h if t["a"] == "edit")))
        c.count(("schedule", shape, kinds), nontrivial=True)
        c.cov["traces_validated_against_impl"] += 1
        if res["problem"] and res["alive"]:
            infra += 1
            c.note("schedule %s: %s" % (shape, res["problem"]))
            continue
        replay = {"schedule": h, "final_package": res.get("final_dir")}
        if not res["alive"]:
            c.violation("C20:died:%s" % shape, "the watcher process exited during schedule %s" % shape, replay)
            continue
        if res.get("oneshot_rc") != 0:
            continue           # final contents invalid: nothing is required of the files
        exp, got = res["expected"], res["out"]
        diff = sorted(k for k in set(exp) | set(got) if exp.get(k) != got.get(k))
        if diff:
            overlaps, running = 0, 0
            for e in res["trace"]:
                if e["event"] == "RegenStart":
                    running += 1
                    overlaps = max(overlaps, running)
                elif e["event"] == "RegenEnd":
                    running -= 1
            replay.update({"differing_files": diff[:20], "max_concurrent_regenerations": overlaps,
                           "trace": [e for e in res["trace"] if e["event"] != "WriteFile"][:200]})
            c.violation("C20:stale:%s:%s" % (shape, kinds), "after schedule %s (%s) the files on disk differ from one-shot generate on the final contents: %s%s" % (
                shape, kinds, ", ".join(diff[:4]), " (regenerations overlapped)" if overlaps > 1 else ""), replay)
        # design facts, checked on the recorded trace (a difference is reported as model drift, not as a verdict)
        running = 0
        for e in res["trace"]:
            if e["event"] == "RegenStart":
                running += 1
                if running > 1:
                    c.cov["traces_with_overlapping_regenerations"] = c.cov.get("traces_with_overlapping_regenerations", 0) + 1
                    break
            elif e["event"] == "RegenEnd":
                running -= 1
    # ---- WatchEnv.tla: the working directory of the watcher process across failed regenerations
    re1 = tlc("WatchEnv", cfg="MCWatchEnv.cfg", spec_dirs=[wdir], timeout=900, workers=1)
    c.add_tlc(re1)
    if re1.violated_names():
        raise Inconclusive("WatchEnv.tla (working directory restored on every path) violates %s" % re1.violated_names())
    re2 = tlc("WatchEnv", cfg="MCWatchEnvOnSuccess.cfg", spec_dirs=[wdir], timeout=900)
    c.add_tlc(re2)
    if not re2.violated_names():
        raise Inconclusive("vacuity guard: MCWatchEnvOnSuccess.cfg is expected to violate AtHomeWhenIdle / Converges")
    re3 = tlc("WatchEnv", cfg="MCWatchEnvAccumulated.cfg", spec_dirs=[wdir], timeout=900)
    c.add_tlc(re3)
    if "UnconfiguredUntouched" not in re3.violated_names():
        raise Inconclusive("vacuity guard: MCWatchEnvAccumulated.cfg is expected to violate UnconfiguredUntouched")
    envs = {json.dumps(x["hist"], sort_keys=True): x["hist"] for x in tlc_cases(re1.out)}
    envs = [envs[k] for k in sorted(envs)]
    c.cov["env_schedules_from_tlc"] = len(envs)
    c.rng.shuffle(envs)

    def fault_then_settled(h):       # a fault whose failed regeneration has completed before the next edit: what it left behind matters
        return any(h[i]["kind"] not in ("repair", "save") and h[i + 1]["settled"] for i in range(len(h) - 1))
    if not thorough:
        first, seen_k = [], set()
        for h in [x for x in envs if fault_then_settled(x)] + envs:          # every fault kind in a settled position first
            k = tuple((t["kind"], t["settled"]) for t in h[:2])
            if k not in seen_k:
                seen_k.add(k)
                first.append(h)
        drops = [h for h in envs if any(t["kind"] == "drop_json" and t["settled"] for t in h) and h[-1]["kind"] == "save"][:4]
        # a fault of the nested package whose failed regeneration has completed, then its repair as the last edit: only the nested
        # package's directory is saved, nothing follows that could make up for a lost event
        ends, seen_f = [], set()
        for h in envs:
            fs = tuple(sorted(h[-1].get("faults") or []))
            if (len(h) >= 2 and h[-1]["kind"] == "repair" and h[-1]["settled"] and fs and set(fs) <= {"nested_fetch_error", "nested_manifest_error"}
                    and (fs, h[0]["kind"] == "drop_json") not in seen_f):
                seen_f.add((fs, h[0]["kind"] == "drop_json"))
                ends.append(h)
        envs = first[:12] + [h for h in drops + ends[:6] if h not in first[:12]]

    c.cov["env_schedules_replayed"] = [">".join(("" if t["settled"] else "~") + t["kind"] for t in h) for h in envs]

    def envwork(arg):
        i, h = arg
        root = os.path.join(sc, "env%d" % i)
        os.makedirs(root)
        try:
            return run_env_schedule(yardl, home, root, h)
        finally:
            shutil.rmtree(root, ignore_errors=True)
    for res in pmap(envwork, list(enumerate(envs)), jobs=min(NCPU, 6)):
        h = res["hist"]
        shape = ">".join(("" if t["settled"] else "~") + t["kind"] for t in h)
        c.count(("env", shape), nontrivial=True)
        c.cov["traces_validated_against_impl"] += 1
        replay = {"schedule": h, "watch_log": res.get("log")}
        if res["problem"] and res["alive"]:
            infra += 1
            c.note("env schedule %s: %s" % (shape, res["problem"]))
            continue
        if not res["alive"]:
            c.violation("C20:env:died:%s" % shape, "the watcher process exited during %s" % shape, replay)
            continue
        if res.get("ref_rc") != 0:
            raise Inconclusive("the final contents of env schedule %s are not a valid package for one-shot generate" % shape)
        exp, got = res["ref"], res["out"]
        if res.get("json_dropped"):
            # the reference run has no JSON target; the watcher's JSON output is what was there when the target was dropped.  Where the
            # drop came while a regeneration may still have been writing, only "not newer than the contents at the drop" could be asked;
            # the byte comparison is made for the settled drops
            now = {k[len("json/"):]: v for k, v in got.items() if k.startswith("json/")}
            got = {k: v for k, v in got.items() if not k.startswith("json/")}
            if res.get("settled_before_drop") and now != res.get("json_at_drop"):
                c.violation("C20:env:unconfigured-target-written:%s" % shape, "after the edits %s the JSON output changed although the manifest had stopped "
                            "configuring the JSON target (a one-shot generate of the final contents does not touch it)" % shape, replay)
                continue
        diff = sorted(k for k in set(exp) | set(got) if exp.get(k) != got.get(k))
        if diff:
            replay["differing_files"] = diff[:20]
            c.violation("C20:env:stale:%s" % shape, "after the edits %s the files on disk differ from one-shot generate on the final contents: %s" % (
                shape, ", ".join(diff[:4])), replay)

    # ---- trace validation: the recorded runs, concatenated, must be a behaviour of the serialized design, and the files found on disk must be
    #      the generation the specification says was written last
    lines, base, nruns = [], 1, 0
    for res in results:
        if res["problem"] or not res.get("alive") or "trace" not in res:
            continue
        ls, markers, base = abstract_trace(res["trace"], base, res.get("initial_valid", True))
        cands = [v for v, mk in markers.items() if mk == res["marker"]]
        if res.get("oneshot_rc") != 0:
            cands = sorted(markers)          # the final package is invalid: nothing is required of the files
        if not cands:
            c.note("trace abstraction: observed output marker %r matches no version of the run (%r)" % (res["marker"], markers))
        ls.append({"e": "final", "candidates": cands, "observed": str(res["marker"])})
        lines += ls
        nruns += 1
    if lines:
        twd = os.path.join(sc, "trace")
        os.makedirs(twd)
        tf = os.path.join(twd, "trace.ndjson")
        with open(tf, "w") as f:
            for ln in lines:
                # every line carries every field (TLC's records are total)
                f.write(json.dumps({"e": ln["e"], "version": ln.get("version", 0), "valid": ln.get("valid", True), "ok": ln.get("ok", True),
                                    "dir": ln.get("dir", "main"), "candidates": ln.get("candidates", []), "observed": ln.get("observed", "")}) + "\n")
        rt = tlc("TraceWatch", cfg="TraceWatch.cfg", spec_dirs=[wdir], workdir=twd, workers=1, timeout=1800, env={"VERIF_TRACE": tf})
        c.add_tlc(rt)
        c.cov["trace_lines_validated"] = len(lines)
        c.cov["trace_runs_validated"] = nruns
        if not rt.ok or rt.violated_names():
            m = re.search(r"TLCGet\(1\)|diameter", rt.out)
            print("MODEL-DRIFT: the recorded traces (%d runs, %d lines) are not a behaviour of Watch.tla in serialized mode (%s); see the verdicts "
                  "above for what that means for the files on disk" % (nruns, len(lines), rt.violated_names() or "trace not accepted"))
            c.cov["trace_validation"] = "rejected"
        else:
            c.cov["trace_validation"] = "accepted"
    if c.cov.get("traces_with_overlapping_regenerations"):
        print("MODEL-DRIFT: %d recorded traces show regenerations running side by side; Watch.tla (Mode = \"serialized\") does not describe that" %
              c.cov["traces_with_overlapping_regenerations"])
    if infra > len(results) // 4:
        raise Inconclusive("too many schedules could not be run (%d)" % infra)
    for h, iv in chosen[:3]:
        c.sample({"schedule": h, "initial_package_valid": iv})
    c.assumptions += ["schedule-guided replay: the harness performs the edits and holds / releases regenerations at the before_write gate as the TLC schedule "
                      "says; debounce and locking are left to the implementation, so a schedule that the implementation makes impossible degrades to the "
                      "nearest possible one",
                      "file-system events are real inotify events of in-place writes, removals and atomic renames of one model file",
                      "quiescence = as many RegenEnd as RegenStart hook events and no new event for 0.6 s (debounce is 5 ms)"]
    c.finish(rule="Watch.tla: TLC checks Converges / NoOverlap / NeverMixedWhenDrained and the liveness property EventuallyDrained for the serialized design, "
                  "and confirms that the unsynchronised and the try-lock designs violate Converges; the complete behaviours of the unsynchronised design are "
                  "exported as schedules (edit kinds x release order) and replayed on the real `yardl generate --watch` through the gate hook; after "
                  "draining, the output tree must equal one-shot generate on the final package; distinct = (schedule shape, edit kinds)", exhaustive=False)


main_wrapper(main)
