#!/usr/bin/env python3
"""C01 - binary write/read round trip and wire-format conformance.  See DESIGN.md section 3 (C01)."""
import os, sys
sys.path.insert(0, os.path.join(os.path.dirname(os.path.abspath(__file__)), "..", "lib"))
from common import *
import wireengine as we


def main():
    c = Check("C01", "model_checking")
    sc = scratch("verif-c01-")
    yardl = build_yardl(sc)
    home = os.path.join(sc, "home")
    thorough = c.tier == "thorough"

    cases, res = we.export_cases(1, tier=c.tier)
    c.cov["tlc_cases_depth1"] = len(cases)
    m = 7 if thorough else 60
    cases2, res2 = we.export_cases(2, mod=m, rem=c.seed % m, tier=c.tier)
    c.cov["tlc_cases_depth2"] = len(cases2)
    types = we.group_types(cases + cases2)
    # chains of two container levels over an optional / a union (WireCases.tla Stacked): all of them in the thorough tier, a seeded dozen otherwise
    cases3, _ = we.export_cases(3, tier=c.tier)
    stacked = we.group_types(cases3)
    c.rng.shuffle(stacked)
    types += stacked if thorough else stacked[:12]
    c.cov["tlc_cases_depth3_stacked"] = sum(len(cs) for t, cs in (stacked if thorough else stacked[:12]))
    c.rng.shuffle(types)
    pkgs = we.make_packages(types, 24, sc)
    for p in pkgs:      # records spelled as instances of generic records, defined locally or in an imported package
        p.style = {"generics": ["none", "local", "imported"][p.idx % 3], "shorthand": p.idx % 2 == 1, "optional": "question", "prim_alias": p.idx % 4 == 1}
    notes = []
    good, bad = we.prepare(pkgs, yardl, home, notes=notes)
    for n in notes:
        c.note(n)
    if len(bad) > len(pkgs) // 4:
        raise Inconclusive("%d of %d packages unusable: %s" % (len(bad), len(pkgs), notes[:2]))

    runs_cap = 10 if thorough else 6

    def work(p):
        out = []
        for r in range(1, p.n_runs(runs_cap) + 1):
            vals = p.run_values(r, False)
            jvals = p.run_values(r, True)
            block = [None, 1, 2][r % 3]
            for lang in p.langs:
                tag = "%s-r%d" % (lang, r)
                rb = we.leg(p, lang, "binary", "binary", vals, tag + "-b2b", block=block, bufsize=[1, 2, 5][r % 3])
                out.append((p, r, lang, "b2b", vals, rb))
                # value-level legs through NDJSON, asserted only where the NDJSON codec itself is confirmed on this run
                if jvals is None:
                    continue
                jj = we.leg(p, lang, "ndjson", "ndjson", jvals, tag + "-j2j")
                if jj["ok"]:
                    out.append((p, r, lang, "b2j", jvals, we.leg(p, lang, "binary", "ndjson", jvals, tag + "-b2j", block=block)))
                    out.append((p, r, lang, "j2b", jvals, we.leg(p, lang, "ndjson", "binary", jvals, tag + "-j2b")))
                else:
                    out.append((p, r, lang, "skip-json", jvals, {"ok": True, "msg": jj["msg"]}))
        return out

    results = [x for lst in pmap(work, good) for x in lst]
    skipped = 0
    for p, r, lang, legname, vals, rr in results:
        if legname == "skip-json":
            skipped += 1
            continue
        c.cov["traces_validated_against_impl"] += 1
        for s, (k, v) in zip(p.steps, vals):
            c.count((we.type_class(s["t"]), lang, legname, r), nontrivial=True)
        if not rr["ok"] and legname != "b2b" and rr.get("rc") != 0:
            # The generated code raised while bridging binary <-> NDJSON although the NDJSON codec round-trips this run
            # and b2b decides the binary side: a format-bridging problem, judged by C03, not a binary-format verdict.
            c.cov["bridging_exceptions_left_to_C03"] = c.cov.get("bridging_exceptions_left_to_C03", 0) + 1
            continue
        if not rr["ok"]:
            st = we.blame_step(p, rr["msg"])
            shape = we.type_class(st["t"]) if st else "?"
            c.violation("C01:%s:%s:%s" % (lang, legname, shape), rr["msg"],
                        {"package_model": open(os.path.join(p.root, "model", "model.yml")).read(), "run": r, "lang": lang,
                         "leg": legname, "stderr": rr.get("stderr"), "input_hex": open(rr["in"], "rb").read().hex()[:4000] if "in" in rr else None,
                         "output_hex": (rr.get("outbytes") or b"").hex()[:4000]})
    # ---- large payloads and buffer boundaries (WireBig.tla): every later element is shifted across the 64 KiB buffer
    #      boundaries of readers and writers by a leading padding string whose length varies from run to run
    pads = list(range(0, 13)) if thorough else sorted(set([0, 3, 6, 9] + [(c.seed * 5 + k) % 11 for k in (1, 2)]))
    bigrecs = pmap(we.export_big, pads, jobs=4)
    bp = we.BigPackage(sc, bigrecs[0])
    bg, bb = we.prepare([bp], yardl, home, notes=notes)
    if not bg:
        c.note("large-payload package unusable: %s" % (bp.problem or "")[:500])
    else:
        def bigwork(args):
            pad, recs = args
            vals = bp.vals_for(recs)
            out = []
            for lang in ("py", "cpp"):
                for legname, (fi, fo), kw in (("b2b", ("binary", "binary"), {"bufsize": 1 + pad % 3, "block": [None, 7, 1][pad % 3]}),
                                              ("b2j", ("binary", "ndjson"), {"block": 5}),
                                              ("j2b", ("ndjson", "binary"), {"bufsize": 4})):
                    if lang == "py" and legname == "b2b":
                        # (pydrv also has a "short:<k>" mode feeding the reader through a source that returns short reads; the
                        # Python runtime mistakes those for EOF / trips over its buffer compaction, but a standard BufferedReader
                        # never produces them, so they are outside what C01 states and are not asserted - see DESIGN.md)
                        kw = dict(kw, mode=["copy", "list", "items"][pad % 3])
                        kw.pop("bufsize", None)
                    rr = we.leg(bp, lang, fi, fo, vals, "big-%s-%d-%s" % (lang, pad, legname), **kw)
                    out.append((pad, lang, legname, rr))
            return out
        for pad, lang, legname, rr in [x for lst in pmap(bigwork, list(zip(pads, bigrecs)), jobs=6) for x in lst]:
            c.cov["traces_validated_against_impl"] += 1
            c.count(("big", pad, lang, legname), nontrivial=True)
            if not rr["ok"]:
                if legname != "b2b" and rr.get("rc") != 0:
                    c.cov["bridging_exceptions_left_to_C03"] = c.cov.get("bridging_exceptions_left_to_C03", 0) + 1
                    continue
                st = we.blame_step(bp, rr["msg"])
                c.violation("C01:%s:%s:big:%s" % (lang, legname, st["name"] if st else "?"), rr["msg"],
                            {"pad": pad, "lang": lang, "leg": legname, "stderr": rr.get("stderr"), "note": "values: spec/wire/WireBig.tla with VERIF_PAD=%d" % pad})
        c.cov["large_payload_runs"] = {"pads": pads, "stream_bytes": len(bp.spec_binary(bp.vals_for(bigrecs[0])))}
    c.cov["json_legs_skipped_because_ndjson_codec_failed"] = skipped
    c.cov["packages"] = len(good)
    c.cov["types"] = len(types)
    c.cov["states"] = len(cases) + len(cases2)
    c.cov["transitions"] = len(cases) + len(cases2)
    for t, cs in types[:4]:
        c.sample({"type": we.type_class(t), "value_index": cs[0]["i"], "spec_bytes": cs[0]["enc"][0][:40]})
    c.assumptions += ["float/string/date leaves are opaque tokens; their bytes come from Python struct/str.encode/datetime",
                      "C++ built with /verif's date.h and N-d array shims", "HDF5 and MATLAB not executed"]
    c.finish(rule="TLC evaluates Enc/Json of Wire.tla/Ndjson.tla over the bounded type x value universe (states = exported cases); every case is "
                  "decoded by the generated C++ and Python readers from spec bytes and re-encoded (b2b), and cross-checked through NDJSON (b2j, j2b); "
                  "distinct = (type shape, language, leg, run index)")


main_wrapper(main)
