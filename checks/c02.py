#!/usr/bin/env python3
"""C02 - NDJSON write/read round trip and documented JSON mapping.  See DESIGN.md section 3 (C02)."""
import os, sys
sys.path.insert(0, os.path.join(os.path.dirname(os.path.abspath(__file__)), "..", "lib"))
from common import *
import json
import wireengine as we, wirelib, drivers


def union_classes(t):
    us = []
    we._unions(t, us)
    return [we.type_class(u) for u in us]


def main():
    c = Check("C02", "model_checking")
    sc = scratch("verif-c02-")
    yardl = build_yardl(sc)
    home = os.path.join(sc, "home")
    thorough = c.tier == "thorough"

    cases, res = we.export_cases(1, tier=c.tier)
    m = 7 if thorough else 60
    cases2, res2 = we.export_cases(2, mod=m, rem=(c.seed + 3) % m, tier=c.tier)
    types = we.group_types(cases + cases2)
    # chains of two container levels over an optional / a union (WireCases.tla Stacked): all of them in the thorough tier, a seeded dozen otherwise
    cases3, _ = we.export_cases(3, tier=c.tier)
    stacked = we.group_types(cases3)
    c.rng.shuffle(stacked)
    types += stacked if thorough else stacked[:12]
    c.cov["tlc_cases_depth3_stacked"] = sum(len(cs) for t, cs in (stacked if thorough else stacked[:12]))
    c.rng.shuffle(types)
    pkgs = we.make_packages(types, 24, sc)
    for p in pkgs:      # records spelled as instances of generic records, defined locally or in an imported package
        p.style = {"generics": ["none", "local", "imported"][p.idx % 3], "shorthand": p.idx % 2 == 1, "optional": "question", "prim_alias": p.idx % 4 == 1}
    notes = []
    good, bad = we.prepare(pkgs, yardl, home, notes=notes)
    for n in notes:
        c.note(n)
    if len(bad) > len(pkgs) // 4:
        raise Inconclusive("%d of %d packages unusable: %s" % (len(bad), len(pkgs), notes[:2]))
    runs_cap = 10 if thorough else 6

    def work(p):
        out = []
        for r in range(1, p.n_runs(runs_cap) + 1):
            jvals = p.run_values(r, True)
            if jvals is None:
                continue
            for lang in p.langs:
                tag = "%s-r%d" % (lang, r)
                out.append((p, r, lang, "j2j", jvals, we.leg(p, lang, "ndjson", "ndjson", jvals, tag + "-j2j")))
                # documented mapping checked against an independent source of values (spec bytes) and sink (spec bytes),
                # asserted only where the binary codec is confirmed on the same values
                bb = we.leg(p, lang, "binary", "binary", jvals, tag + "-b2b")
                if bb["ok"]:
                    out.append((p, r, lang, "b2j", jvals, we.leg(p, lang, "binary", "ndjson", jvals, tag + "-b2j")))
                    out.append((p, r, lang, "j2b", jvals, we.leg(p, lang, "ndjson", "binary", jvals, tag + "-j2b")))
        return out

    results = [x for lst in pmap(work, good) for x in lst]
    kinds_seen = set()
    for p, r, lang, legname, vals, rr in results:
        c.cov["traces_validated_against_impl"] += 1
        for s, (k, v) in zip(p.steps, vals):
            c.count((we.type_class(s["t"]), lang, legname, r), nontrivial=True)
            if s["t"]["k"] == "union":
                kinds_seen.add(we.type_class(s["t"]))
        if not rr["ok"] and legname != "j2j" and rr.get("rc") != 0:
            c.cov["bridging_exceptions_left_to_C03"] = c.cov.get("bridging_exceptions_left_to_C03", 0) + 1
            continue
        if not rr["ok"]:
            st = we.blame_step(p, rr["msg"])
            shape = we.type_class(st["t"]) if st else "?"
            if lang == "cpp" and st is not None and any(x in we.cpp_variant_tag_clash(p) for x in union_classes(st["t"])):
                shape += ":one-cpp-variant-two-tag-sets"
            c.violation("C02:%s:%s:%s" % (lang, legname, shape), rr["msg"],
                        {"package_model": open(os.path.join(p.root, "model", "model.yml")).read(), "run": r, "lang": lang,
                         "leg": legname, "stderr": rr.get("stderr"),
                         "input": open(rr["in"], "rb").read()[-6000:].decode("utf-8", "replace") if "in" in rr else None,
                         "output": (rr.get("outbytes") or b"")[-6000:].decode("utf-8", "replace")})
    # ---- stream / non-stream patterns (NdjsonReader.tla): NDJSON has no end-of-stream marker, readers look one line ahead.
    #      Every shape x stream lengths (adjacent and empty streams included) is read and re-written by both languages.
    pres = tlc("NdjsonReader", cfg="MCNdjsonReader4.cfg" if thorough else "MCNdjsonReader.cfg", timeout=600)
    if pres.invariant_violated:
        c.note("TLC: %s violated in NdjsonReader (model-level)" % pres.violated_names())
    c.add_tlc(pres)
    pats = tlc_cases(pres.out)
    shapes = sorted(set(tuple(x["shape"]) for x in pats))

    class PatPkg:
        def __init__(self, shape, idx):
            self.shape, self.root, self.ok, self.problem = list(shape), os.path.join(sc, "pat%d" % idx), False, None
            self.ns = "Np%d" % idx

        def prepare(self):
            os.makedirs(os.path.join(self.root, "model"), exist_ok=True)
            seq = "\n".join("    s%d: %s" % (i, "!stream {items: int}" if st else "int") for i, st in enumerate(self.shape))
            open(os.path.join(self.root, "model", "model.yml"), "w").write("P: !protocol\n  sequence:\n%s\n" % seq)
            open(os.path.join(self.root, "model", "_package.yml"), "w").write(
                "namespace: %s\ncpp:\n  sourcesOutputDir: ../cpp\n  generateHDF5: false\n  generateCMakeLists: false\n"
                "  overrideArrayHeader: yardl_shim_ndarray.h\npython:\n  outputDir: ../py\n" % self.ns)
            rc, out, err = run([yardl, "generate"], cwd=os.path.join(self.root, "model"), env=yardl_env(home), timeout=120)
            if rc != 0:
                self.problem = "yardl generate failed: " + err[-500:]
                return self
            self.pymod = [d for d in os.listdir(os.path.join(self.root, "py")) if os.path.isdir(os.path.join(self.root, "py", d))][0]
            self.schema = wirelib.extract_schema_py(open(os.path.join(self.root, "py", self.pymod, "protocols.py")).read(), "P")
            m = re.search(r"namespace ([A-Za-z0-9_]+) \{", open(os.path.join(self.root, "cpp", "protocols.h")).read())
            self.exe = os.path.join(self.root, "drv")
            ok, log = drivers.cpp_build(os.path.join(self.root, "cpp"), m.group(1), "P", sum(self.shape), self.exe)
            if not ok:
                self.problem = "generated C++ does not compile: " + log[-800:]
                return self
            self.ok = True
            return self

    ppk = {s: PatPkg(s, i) for i, s in enumerate(shapes)}
    pmap(lambda p: p.prepare(), list(ppk.values()), jobs=max(2, NCPU // 4))

    def patwork(x):
        p = ppk[tuple(x["shape"])]
        if not p.ok:
            return x, None, None
        lines = [wirelib.ndjson_header(p.schema)]
        v = 0
        for i, st in enumerate(p.shape):
            for k in range(x["lens"][i] if st else 1):
                v += 1
                lines.append(json.dumps({"s%d" % i: v * (-1) ** v}, separators=(",", ":")))
        text = "\n".join(lines) + "\n"
        tag = "".join(str(n) for n in x["lens"])
        infile = os.path.join(p.root, "in-%s.ndjson" % tag)
        open(infile, "w").write(text)
        want = [json.loads(l) for l in lines]
        bad = None
        for lang in ("py", "cpp"):
            outj = os.path.join(p.root, "out-%s-%s.ndjson" % (tag, lang))
            outb = os.path.join(p.root, "out-%s-%s.bin" % (tag, lang))
            back = os.path.join(p.root, "back-%s-%s.ndjson" % (tag, lang))
            for a, b, fi, fo in (("ndjson", "ndjson", infile, outj), ("ndjson", "binary", infile, outb), ("binary", "ndjson", outb, back)):
                if lang == "py":
                    rc, err = drivers.py_copy(os.path.join(p.root, "py"), p.pymod, "P", a, b, fi, fo)
                else:
                    rc, err = drivers.cpp_copy(p.exe, a, b, fi, fo, bufsize=1 + len(tag) % 2)
                if rc != 0:
                    e = [l for l in err.splitlines() if l.startswith("EXC")]
                    bad = "%s %s->%s raised on a well-formed stream: %s" % (lang, a, b, (e[-1] if e else err.strip()[-200:])[:250])
                    break
                if b == "ndjson":
                    try:
                        got = [json.loads(l) for l in open(fo).read().split("\n") if l.strip()]
                    except Exception as ex:
                        got = None
                    if got != want:
                        bad = "%s %s->%s: value lines %s, written %s" % (lang, a, b, json.dumps((got or [])[1:])[:200], json.dumps(want[1:])[:200])
                        break
            if bad:
                break
        return x, bad, infile

    for x, bad, infile in pmap(patwork, pats):
        if infile is None:
            continue
        c.cov["traces_validated_against_impl"] += 1
        c.count(("pattern", json.dumps(x)), nontrivial=sum(x["shape"]) > 0)
        if bad:
            c.violation("C02:pattern:%s" % bad.split(" ")[0], bad, {"shape_stream_flags": x["shape"], "stream_lengths": x["lens"],
                                                                     "input": open(infile).read()[-2000:]})
    c.cov["stream_patterns"] = len(pats)
    c.cov["union_shapes_exercised"] = len(kinds_seen)
    c.cov["packages"] = len(good)
    c.cov["types"] = len(types)
    c.cov["states"] = len(cases) + len(cases2)
    c.cov["transitions"] = len(cases) + len(cases2)
    for t, cs in types[:4]:
        js = [x for x in cs if x["jsonable"]]
        if js:
            c.sample({"type": we.type_class(t), "spec_json_tree": js[0]["json"][0]})
    c.assumptions += ["JSON numbers compared numerically (float32 after rounding to float32); object key order ignored",
                      "date/time text of generated C++ comes from /verif's date.h shim", "non-finite floats excluded (not representable in JSON)"]
    c.finish(rule="TLC evaluates Json/Untagged of Ndjson.tla over the bounded universe incl. a 2-case union for every pair of JSON-kind classes; every "
                  "case is read from spec NDJSON and re-written by the generated C++ and Python NDJSON code (j2j), and cross-checked against "
                  "spec bytes (b2j, j2b); distinct = (type shape, language, leg, run index)")


main_wrapper(main)
