#!/usr/bin/env python3
"""C02 - NDJSON write/read round trip and documented JSON mapping.  See DESIGN.md section 3 (C02)."""
import os, sys
sys.path.insert(0, os.path.join(os.path.dirname(os.path.abspath(__file__)), "..", "lib"))
from common import *
import wireengine as we


def main():
    c = Check("C02", "model_checking")
    sc = scratch("verif-c02-")
    yardl = build_yardl(sc)
    home = os.path.join(sc, "home")
    thorough = c.tier == "thorough"

    cases, res = we.export_cases(1, tier=c.tier)
    m = 7 if thorough else 60
    cases2, res2 = we.export_cases(2, mod=m, rem=(c.seed + 3) % m, tier=c.tier)
    types = we.group_types(cases + cases2)
    c.rng.shuffle(types)
    pkgs = we.make_packages(types, 24, sc)
    notes = []
    good, bad = we.prepare(pkgs, yardl, home, notes=notes)
    for n in notes:
        c.note(n)
    if len(bad) > len(pkgs) // 4:
        raise Inconclusive("%d of %d packages unusable: %s" % (len(bad), len(pkgs), notes[:2]))
    runs_cap = 10 if thorough else 6

    def work(p):
        out = []
        for r in range(1, p.n_runs(runs_cap) + 1):
            jvals = p.run_values(r, True)
            if jvals is None:
                continue
            for lang in p.langs:
                tag = "%s-r%d" % (lang, r)
                out.append((p, r, lang, "j2j", jvals, we.leg(p, lang, "ndjson", "ndjson", jvals, tag + "-j2j")))
                # documented mapping checked against an independent source of values (spec bytes) and sink (spec bytes),
                # asserted only where the binary codec is confirmed on the same values
                bb = we.leg(p, lang, "binary", "binary", jvals, tag + "-b2b")
                if bb["ok"]:
                    out.append((p, r, lang, "b2j", jvals, we.leg(p, lang, "binary", "ndjson", jvals, tag + "-b2j")))
                    out.append((p, r, lang, "j2b", jvals, we.leg(p, lang, "ndjson", "binary", jvals, tag + "-j2b")))
        return out

    results = [x for lst in pmap(work, good) for x in lst]
    kinds_seen = set()
    for p, r, lang, legname, vals, rr in results:
        c.cov["traces_validated_against_impl"] += 1
        for s, (k, v) in zip(p.steps, vals):
            c.count((we.type_class(s["t"]), lang, legname, r), nontrivial=True)
            if s["t"]["k"] == "union":
                kinds_seen.add(we.type_class(s["t"]))
        if not rr["ok"] and legname != "j2j" and rr.get("rc") != 0:
            c.cov["bridging_exceptions_left_to_C03"] = c.cov.get("bridging_exceptions_left_to_C03", 0) + 1
            continue
        if not rr["ok"]:
            st = we.blame_step(p, rr["msg"])
            shape = we.type_class(st["t"]) if st else "?"
            c.violation("C02:%s:%s:%s" % (lang, legname, shape), rr["msg"],
                        {"package_model": open(os.path.join(p.root, "model", "model.yml")).read(), "run": r, "lang": lang,
                         "leg": legname, "stderr": rr.get("stderr"),
                         "input": open(rr["in"], "rb").read()[-6000:].decode("utf-8", "replace") if "in" in rr else None,
                         "output": (rr.get("outbytes") or b"")[-6000:].decode("utf-8", "replace")})
    c.cov["union_shapes_exercised"] = len(kinds_seen)
    c.cov["packages"] = len(good)
    c.cov["types"] = len(types)
    c.cov["states"] = len(cases) + len(cases2)
    c.cov["transitions"] = len(cases) + len(cases2)
    for t, cs in types[:4]:
        js = [x for x in cs if x["jsonable"]]
        if js:
            c.sample({"type": we.type_class(t), "spec_json_tree": js[0]["json"][0]})
    c.assumptions += ["JSON numbers compared numerically (float32 after rounding to float32); object key order ignored",
                      "date/time text of generated C++ comes from /verif's date.h shim", "non-finite floats excluded (not representable in JSON)"]
    c.finish(rule="TLC evaluates Json/Untagged of Ndjson.tla over the bounded universe incl. a 2-case union for every pair of JSON-kind classes; every "
                  "case is read from spec NDJSON and re-written by the generated C++ and Python NDJSON code (j2j), and cross-checked against "
                  "spec bytes (b2j, j2b); distinct = (type shape, language, leg, run index)")


main_wrapper(main)
