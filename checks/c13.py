#!/usr/bin/env python3
"""C13 - alternative spellings of a model are the same model.  See DESIGN.md section 3 (C13)."""
import os, sys, json, shutil
sys.path.insert(0, os.path.join(os.path.dirname(os.path.abspath(__file__)), "..", "lib"))
from common import *
import wireengine as we, wirelib


def render_files(steps, sp, broken=False):
    """-> {filename: text} for one spelling of the package whose protocol has the given steps."""
    c = wirelib.Concretiser({"shorthand": sp["shorthand"], "prim_alias": sp["prim_alias"], "optional": sp["optional"], "generics": sp.get("generics", "none")})
    proto = c.protocol("P", steps)
    if broken:
        proto += "Broken: !record\n  fields:\n    z: NoSuchType\n"
    defs = c.definitions(proto)
    if sp["order"] == "reversed":
        defs = defs[::-1]
    elif sp["order"] == "rotated":
        k = len(defs) // 2
        defs = defs[k:] + defs[:k]
    files = [[] for _ in range(sp["files"])]
    for i, d in enumerate(defs):
        files[i % sp["files"]].append(d)
    out = {}
    for fi, ds in enumerate(files):
        text = ""
        for i, d in enumerate(ds):
            if sp["comments"] and i % 2 == 0:
                text += "# ---- a section marker that documents nothing ----\n\n"
            if sp.get("docs", "one") != "one" and i > 0:
                # the next definition starts a new YAML document of the same file
                text += ("...\n" if sp["docs"] == "many_with_end_markers" else "") + "---\n"
            text += d
            if sp["blanks"]:
                text += "\n\n" if i % 2 else "   \n"
        if sp["comments"]:
            text += "\n# end of file\n"
        out["m%d.yml" % fi] = text if text.strip() else "# empty\n"
    if c.lib_defs:
        out["../lib/lib.yml"] = c.lib_text()
    return out


def gen(yardl, home, root, files):
    shutil.rmtree(root, ignore_errors=True)
    os.makedirs(os.path.join(root, "model"))
    open(os.path.join(root, "model", "_package.yml"), "w").write(
        "namespace: Sp\ncpp:\n  sourcesOutputDir: ../out/cpp\n  generateCMakeLists: false\npython:\n  outputDir: ../out/py\n"
        "json:\n  outputDir: ../out/json\nmatlab:\n  outputDir: ../out/matlab\n")
    imports = ""
    for f, t in files.items():
        if f.startswith("../lib/"):
            os.makedirs(os.path.join(root, "lib"), exist_ok=True)
            open(os.path.join(root, "lib", "_package.yml"), "w").write("namespace: Lib\n")
            imports = "imports:\n  - ../lib\n"
        open(os.path.normpath(os.path.join(root, "model", f)), "w").write(t)
    if imports:
        open(os.path.join(root, "model", "_package.yml"), "a").write(imports)
    rc, o, e = run([yardl, "generate"], cwd=os.path.join(root, "model"), env=yardl_env(home), timeout=120)
    tree = {k: v[0] for k, v in snapshot_tree(os.path.join(root, "out")).items()} if rc == 0 else {}
    schema = None
    pp = os.path.join(root, "out", "py", "sp", "protocols.py")
    if os.path.exists(pp):
        schema = wirelib.extract_schema_py(open(pp).read(), "P")
    return {"rc": rc, "stderr": e.replace(root, "")[-400:], "tree": tree, "schema": schema}


def main():
    c = Check("C13", "model_checking")
    sc = scratch("verif-c13-")
    yardl = build_yardl(sc)
    home = os.path.join(sc, "home")
    thorough = c.tier == "thorough"
    res = tlc("Spelling", cfg="MCSpelling3.cfg" if thorough else "MCSpelling.cfg", timeout=600)
    c.add_tlc(res)
    spellings = tlc_cases(res.out)
    if thorough and len(spellings) > 1000:
        # (MaxFlips = 7 reaches all 2592 spellings; all 864 one-document spellings are kept, the multi-document ones are a seeded third)
        multi = [x for x in spellings if x["spelling"].get("docs", "one") != "one"]
        c.rng.shuffle(multi)
        spellings = [x for x in spellings if x["spelling"].get("docs", "one") == "one"] + multi[:len(multi) // 3]
    # the spelling that differs most from the canonical one (every syntax choice flipped at once) is part of every tier: some type
    # shapes only change their parse tree when shorthand and `T?` are combined (`int?*` vs !vector {items: [null, int]})
    allshort = {"shorthand": True, "prim_alias": True, "optional": "question", "comments": False, "blanks": False, "order": "asis", "files": 1, "generics": "none", "docs": "one"}
    if not any(x["spelling"] == allshort for x in spellings):
        spellings.append({"spelling": allshort, "relation": "byte_identical_output"})
    canonical = [x for x in spellings if x["spelling"] == {"shorthand": False, "prim_alias": False, "optional": "union", "comments": False,
                                                            "blanks": False, "order": "asis", "files": 1, "generics": "none", "docs": "one"}]
    if not canonical:
        raise Inconclusive("the canonical spelling is missing from the export")
    cases, _ = we.export_cases(1, tier="quick")
    m = 60
    cases2, _ = we.export_cases(2, mod=m, rem=(c.seed + 7) % m, tier="quick")
    types = we.group_types(cases + cases2)
    c.rng.shuffle(types)
    # records whose fields are other named types first: their spelling as (imported) generic instances has local type arguments
    named_fields = [x for x in types if (x[0]["k"] in ("rec", "vec", "opt", "alias") and ("enum(" in we.type_class(x[0]) or "flags(" in we.type_class(x[0]))
                                         and "rec(" in we.type_class(x[0])) or "rec(alias" in we.type_class(x[0])]
    named_fields.sort(key=lambda x: (x[0]["k"] != "alias", we.type_class(x[0])))
    # ... and the shapes whose shorthand and expanded spellings do not build literally the same tree: optionals / unions inside
    # containers, containers inside unions (one of each distinct shape, before the random rest)
    import re as _re
    sens, seen_cls = [], set()
    for x in types:
        k = we.type_class(x[0])
        if _re.search(r"(vec|fvec|map|farr|ndarr|dynarr)\((\w+,)?(opt|union)\(", k) or _re.search(r"union\([^()]*(vec|map|ndarr|dynarr|farr)\(", k):
            shape = _re.sub(r"\b(u?int\d+|float\d+|string|bool|date|time|datetime|complexfloat\d+|size)\b", "p", k)
            if shape not in seen_cls:
                seen_cls.add(shape)
                sens.append(x)
    # unions whose cases are containers of optionals / unions first
    sens.sort(key=lambda x: 0 if _re.search(r"union\(.*(vec|fvec|map|farr|ndarr|dynarr)\((\w+,)?(opt|union)\(", we.type_class(x[0])) else 1)
    sens = sens[:(60 if thorough else 22)]
    types = named_fields[:8] + sens + [x for x in types if x not in named_fields[:8] and x not in sens]
    # chains of container operators over an optional / a union (WireCases.tla Stacked): `int?**`, `string->int?*`, `int?*3*2` ...
    cases3, _ = we.export_cases(3, tier="quick")
    stacked = we.group_types(cases3)
    c.rng.shuffle(stacked)
    nst = len(stacked) if thorough else 30
    c.cov["stacked_container_chains"] = nst
    types = named_fields[:8] + sens + stacked[:nst] + types[len(named_fields[:8]) + len(sens):]
    npk = 24 + (nst + 9) // 10 if thorough else 9 + 3
    bases = [types[i * 10:(i + 1) * 10] for i in range(npk)]

    jobs = [(bi, broken, x) for bi in range(len(bases)) for broken in (False, True) for x in spellings
            if not broken or x["relation"] != "byte_identical_output" or x["spelling"]["shorthand"] or x["spelling"]["optional"] == "question"]

    def steps_of(bi):
        return [("s%d" % i, t, i % 3 == 1) for i, (t, cs) in enumerate(bases[bi])]

    canon_cache = {}

    def canon(bi, broken):
        k = (bi, broken)
        if k not in canon_cache:
            canon_cache[k] = gen(yardl, home, os.path.join(sc, "canon-%d-%d" % (bi, broken)), render_files(steps_of(bi), canonical[0]["spelling"], broken))
        return canon_cache[k]

    for bi in range(len(bases)):
        for broken in (False, True):
            canon(bi, broken)

    def work(job):
        bi, broken, x = job
        root = os.path.join(sc, "v-%d-%d-%d" % (bi, broken, abs(hash(json.dumps(x["spelling"], sort_keys=True))) % 10**9))
        files = render_files(steps_of(bi), x["spelling"], broken)
        r = gen(yardl, home, root, files)
        shutil.rmtree(root, ignore_errors=True)
        return job, files, r

    for (bi, broken, x), files, r in pmap(work, jobs):
        base = canon(bi, broken)
        sp = x["spelling"]
        diff = sorted(k for k in sp if sp[k] != canonical[0]["spelling"][k])
        key = "C13:%s" % "+".join("%s=%s" % (k, sp[k]) for k in diff)
        c.count((bi, broken, json.dumps(sp, sort_keys=True)), nontrivial=bool(diff))
        c.cov["traces_validated_against_impl"] += 1
        replay = {"spelling": sp, "files": {k: v[:2500] for k, v in files.items()}, "canonical_files": render_files(steps_of(bi), canonical[0]["spelling"], broken),
                  "observed": {"rc": r["rc"], "stderr": r["stderr"]}}
        if r["rc"] not in (0, 1) or base["rc"] not in (0, 1):
            c.violation(key + ":crash", "exit status %s / %s" % (r["rc"], base["rc"]), replay)
        elif r["rc"] != base["rc"]:
            c.violation(key + ":different-verdict", "the canonical spelling exits %s, the spelling [%s] exits %s: %s" % (base["rc"], ", ".join(diff), r["rc"], r["stderr"][-200:]), replay)
        elif r["rc"] == 0:
            if x["relation"] == "byte_identical_output":
                d = sorted(k for k in set(r["tree"]) | set(base["tree"]) if r["tree"].get(k) != base["tree"].get(k))
                if d:
                    c.violation(key + ":output-differs", "pure syntax alternative [%s] changes %d generated files: %s" % (", ".join(diff), len(d), d[:5]), replay)
            elif x["relation"] == "same_verdict_same_schema_same_wire" and r["schema"] != base["schema"]:
                c.violation(key + ":schema-differs", "layout change [%s] changes the embedded schema" % ", ".join(diff), dict(replay, schema=r["schema"], canonical_schema=base["schema"]))

    # ---- layout changes: identical wire behaviour (the generated Python of both layouts handles the same spec bytes)
    class SpPkg(we.Package):
        def __init__(self, idx, types_, root, sp):
            we.Package.__init__(self, idx, types_, root)
            self.langs = ("py",)
            self.sp = sp
            for i, s in enumerate(self.steps):
                s["stream"] = i % 3 == 1
            self.n_streams = sum(1 for s in self.steps if s["stream"])

        def write_model(self):
            os.makedirs(os.path.join(self.root, "model"), exist_ok=True)
            imports = ""
            for f, t in render_files([(s["name"], s["t"], s["stream"]) for s in self.steps], self.sp).items():
                if f.startswith("../lib/"):
                    os.makedirs(os.path.join(self.root, "lib"), exist_ok=True)
                    open(os.path.join(self.root, "lib", "_package.yml"), "w").write("namespace: Lib\n")
                    imports = "imports:\n  - ../lib\n"
                open(os.path.normpath(os.path.join(self.root, "model", f)), "w").write(t)
            open(os.path.join(self.root, "model", "_package.yml"), "w").write("namespace: %s\n%spython:\n  outputDir: ../py\n" % (self.ns, imports))

    layouts = [x["spelling"] for x in spellings if x["relation"] != "byte_identical_output"]
    c.rng.shuffle(layouts)
    gl = [x for x in layouts if x["generics"] != "none"]
    layouts = gl[:(16 if thorough else 8)] + [x for x in layouts if x["generics"] == "none"][:(12 if thorough else 4)]
    wp = []
    for bi in range(min(len(bases), 3)):
        # every spelling that involves generics on the first package (named-type fields), a seeded selection on the others
        use = ([x for x in [y["spelling"] for y in spellings] if x["generics"] != "none"] + layouts) if bi == 0 else layouts
        seen = set()
        for li, sp in enumerate(use):
            k = json.dumps(sp, sort_keys=True)
            if k in seen:
                continue
            seen.add(k)
            wp.append(SpPkg(1000 + bi * 2000 + li, bases[bi], sc, sp))        # (distinct directories also when all spellings are used)
    good, bad = we.prepare(wp, yardl, home, langs=("py",))
    for p in bad:
        c.note("layout package unusable: %s" % (p.problem or "")[:300])

    def wire(p):
        out = []
        for r in (1, 2):
            vals = p.run_values(r, False)
            out.append((p, r, we.leg(p, "py", "binary", "binary", vals, "sp-r%d" % r)))
        return out

    for p, r, rr in [x for lst in pmap(wire, good) for x in lst]:
        c.cov["traces_validated_against_impl"] += 1
        if not rr["ok"]:
            c.violation("C13:layout:wire-behaviour", "with layout %s the generated code does not handle the stream the canonical layout handles: %s" % (
                json.dumps(p.sp), rr["msg"][:300]), {"spelling": p.sp})
    for x in spellings[1:4]:
        c.sample(x)
    c.assumptions += ["generated trees compared by sha256 of every file of the C++, Python, JSON and MATLAB outputs",
                      "'non-documentation comments' are comments separated from the following definition by a blank line, and end-of-file comments"]
    c.finish(rule="Spelling.tla: all spellings within %s flips of the canonical one (7 independent choices); every spelling of %d packages (10 "
                  "step types each, valid and with an injected error) is generated with all four targets and compared with the canonical spelling: "
                  "same verdict; pure syntax => byte-identical trees; layout => identical embedded schema and the same spec streams handled; "
                  "distinct = (package, validity, spelling)" % ("7" if thorough else "2", len(bases)), exhaustive=thorough)


main_wrapper(main)
