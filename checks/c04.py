#!/usr/bin/env python3
"""C04 - every stream carries a schema that pins down its encoding.  See DESIGN.md section 3 (C04)."""
import os, sys, json, shutil, threading, itertools, re as _re
sys.path.insert(0, os.path.join(os.path.dirname(os.path.abspath(__file__)), "..", "lib"))
from common import *
import evolib, wirelib, wireengine as we, drivers

PYCALLS = os.path.join(VERIF, "drivers", "pycalls.py")


def extract_all(root, proto="P"):
    """Schema literal of protocol `proto` from the generated C++, Python and MATLAB sources."""
    out = {}
    p = os.path.join(root, "out", "py")
    mods = [d for d in os.listdir(p) if os.path.isdir(os.path.join(p, d))] if os.path.isdir(p) else []
    if mods:
        out["python"] = wirelib.extract_schema_py(open(os.path.join(p, mods[0], "protocols.py")).read(), proto)
    cc = os.path.join(root, "out", "cpp", "protocols.cc")
    if os.path.exists(cc):
        out["cpp"] = wirelib.extract_schema_cpp(open(cc).read(), proto)
    mp = os.path.join(root, "out", "matlab")
    for d, _, files in os.walk(mp):
        for f in files:
            if f == proto + "WriterBase.m":
                m = _re.search(r"function res = schema\(\)\s*res = string\('(.*?)'\);", open(os.path.join(d, f)).read(), _re.S)
                out["matlab"] = m.group(1).replace("''", "'") if m else None
    return out


def generate(yardl, home, root, files, ns="Sc"):
    shutil.rmtree(root, ignore_errors=True)
    os.makedirs(os.path.join(root, "model"))
    open(os.path.join(root, "model", "_package.yml"), "w").write(
        "namespace: %s\ncpp:\n  sourcesOutputDir: ../out/cpp\n  generateCMakeLists: false\n  generateHDF5: false\n  overrideArrayHeader: yardl_shim_ndarray.h\n"
        "python:\n  outputDir: ../out/py\nmatlab:\n  outputDir: ../out/matlab\n" % ns)
    for f, t in files.items():
        if f.startswith("../lib/"):
            os.makedirs(os.path.join(root, "lib"), exist_ok=True)
            open(os.path.join(root, "lib", "_package.yml"), "w").write("namespace: Lib\n")
            with open(os.path.join(root, "model", "_package.yml"), "a") as fh:
                fh.write("imports:\n  - ../lib\n")
        open(os.path.normpath(os.path.join(root, "model", f)), "w").write(t)
    rc, o, e = run([yardl, "generate"], cwd=os.path.join(root, "model"), env=yardl_env(home), timeout=120)
    return rc, e.replace(root, "")[-400:]


COMMENTED = """# a file comment

# doc for Rec
Rec: !record
  # doc for the field list
  fields:
    # doc for a
    a: int
    # doc for arr
    arr: !array
      # doc for the item type
      items: float
      dimensions:
        # doc for x
        x: 2
        # doc for y
        y: 3
    # doc for v
    v: !vector
      # doc for items
      items: int
      length: 2
    # doc for u
    u: !union
      # doc for case i
      i: int
      # doc for case s
      s: string
  computedFields:
    # doc for c
    c: a + 1
# doc for E
E: !enum
  # doc for values
  values:
    # doc for red
    red: 1
    # doc for green
    green: 2
# doc for G
G<T>: !record
  fields:
    # doc for g
    g: T
# doc for P
P: !protocol
  # doc for sequence
  sequence:
    # doc for step s
    s: Rec
    # doc for step t
    t: !stream
      # doc for stream items
      items: E
    # doc for step w
    w: G<int>
"""

# an imported package Lib and a main package that both define a type called Sample; the protocol uses both
CLASH_LIB = "Sample: !record\n  fields:\n    v: %s\nOnlyLib: !record\n  fields:\n    o: %s\n"
CLASH_MAIN = "Sample: !record\n  fields:\n    w: %s\nP: !protocol\n  sequence:\n    first: int\n    mine: Sample\n    theirs: Lib.Sample\n    other: Lib.OnlyLib\n"


def def_pair(edit):
    """Definition-level pairs that lib/evolib.py does not have."""
    if edit == "comments_everywhere":
        return {"m.yml": "\n".join(l for l in COMMENTED.splitlines() if not l.strip().startswith("#")) + "\n"}, {"m.yml": COMMENTED}
    if edit == "change_comments":
        return {"m.yml": COMMENTED}, {"m.yml": COMMENTED.replace("# doc for", "# documentation of")}
    if edit == "imported_type_field_type":
        return ({"m.yml": CLASH_MAIN % "int", "../lib/lib.yml": CLASH_LIB % ("int", "int")}, {"m.yml": CLASH_MAIN % "int", "../lib/lib.yml": CLASH_LIB % ("int", "float")})
    if edit == "imported_clashing_type_field_type":
        return ({"m.yml": CLASH_MAIN % "int", "../lib/lib.yml": CLASH_LIB % ("int", "int")}, {"m.yml": CLASH_MAIN % "int", "../lib/lib.yml": CLASH_LIB % ("float", "int")})
    if edit == "local_clashing_type_field_type":
        return ({"m.yml": CLASH_MAIN % "int", "../lib/lib.yml": CLASH_LIB % ("int", "int")}, {"m.yml": CLASH_MAIN % "float", "../lib/lib.yml": CLASH_LIB % ("int", "int")})
    rec = "Data: !record\n  fields:\n    a: int\n    b: string\n    c: float?\n"
    base = evolib.model(rec, "Data")
    if edit == "add_computed_field":
        return {"m.yml": base}, {"m.yml": base.replace(rec, rec + "  computedFields:\n    twice: a * 2\n")}
    # computed fields that mention named types the protocol does not otherwise use: a cast to an alias, a type pattern
    CF = {"add_computed_field_cast_to_alias": "    inMeters: a as Meters\n",
          "add_computed_field_switch_pattern": "    size:\n      !switch uu:\n        Meters m: 1\n        string s: 2\n"}
    if edit in CF:
        r2 = rec + "    uu: [double, string]\n"
        b0 = "Meters: double\n" + evolib.model(r2, "Data")
        return {"m.yml": b0}, {"m.yml": b0.replace(r2, r2 + "  computedFields:\n" + CF[edit])}
    if edit == "change_computed_field":
        b0 = base.replace(rec, rec + "  computedFields:\n    twice: a * 2\n")
        return {"m.yml": b0}, {"m.yml": b0.replace("twice: a * 2", "twice: a + a + 1")}
    if edit == "add_unrelated_protocol":
        return {"m.yml": base}, {"m.yml": base + "Other: !record\n  fields:\n    q: double\nQ: !protocol\n  sequence:\n    o: Other\n"}
    if edit == "split_files":
        i = base.index("P: !protocol")
        return {"m.yml": base}, {"a.yml": base[i:], "z.yml": base[:i]}
    if edit == "rename_step":
        return {"m.yml": base}, {"m.yml": base.replace("    probe: Data", "    probed: Data")}
    if edit == "rename_field":
        return {"m.yml": base}, {"m.yml": base.replace("    b: string\n", "    bb: string\n")}
    if edit == "enum_base_type":
        return {"m.yml": base}, {"m.yml": base.replace("Color: !enum\n  values:", "Color: !enum\n  base: uint8\n  values:")}
    a, b = evolib.make_pair(edit, "definition")
    return {"m.yml": a}, {"m.yml": b}


def main():
    c = Check("C04", "model_checking")
    sc = scratch("verif-c04-")
    yardl = build_yardl(sc)
    home = os.path.join(sc, "home")
    res = tlc_eval("Schema", timeout=600)
    cases = tlc_cases(res.out)
    c.cov["states"] = len(cases)
    c.cov["transitions"] = len(cases)

    jobs = []
    for x in cases:
        if x["kind"] == "type":
            k = wirelib.Concretiser()
            ta, tb = k.node(x["a"]), k.node(x["b"])
            extra = k.model_text("")
            for pos in x["positions"]:
                d0, p0 = evolib.wrap(pos, ta)
                d1, p1 = evolib.wrap(pos, tb)
                jobs.append((x["edit"], pos, x["class"], {"m.yml": evolib.model(extra + d0, p0)}, {"m.yml": evolib.model(extra + d1, p1)}))
        else:
            try:
                a, b = def_pair(x["edit"])
            except KeyError:
                continue
            jobs.append((x["edit"], "definition", x["class"], a, b))

    tl = threading.local()
    counter = itertools.count()

    def work(job):
        edit, pos, cls, a, b = job
        if not hasattr(tl, "dir"):
            tl.dir = os.path.join(sc, "w%d" % next(counter))
        res = []
        for files in (a, b):
            rc, err = generate(yardl, home, tl.dir, files)
            res.append((rc, err, extract_all(tl.dir) if rc == 0 else {}))
        return job, res

    skipped = 0
    for (edit, pos, cls, a, b), res in pmap(work, jobs):
        (rc0, e0, s0), (rc1, e1, s1) = res
        key = "C04:%s:%s" % (edit, pos)
        replay = {"edit": edit, "position": pos, "class": cls, "previous_model": a, "current_model": b, "schemas": [s0, s1]}
        if rc0 != 0 or rc1 != 0:
            skipped += 1          # one side is not a valid model (e.g. a union directly inside an optional): not a test
            if pos == "definition":
                c.note("definition-level edit %s skipped: a model of the pair is rejected (%s)" % (edit, (e0 or e1)[-160:]))
            continue
        c.count((edit, pos), nontrivial=True)
        c.cov["traces_validated_against_impl"] += 1
        bad = False
        for s in (s0, s1):
            if not s.get("python") or len(set(s.values())) != 1 or len(s) != 3:
                c.violation(key + ":languages-differ", "the schema literal differs between target languages (or is missing): %s" % {k: (v or "")[:120] for k, v in s.items()}, replay)
                bad = True
                break
        if bad:
            continue
        if cls == "affecting" and s0["python"] == s1["python"]:
            c.violation(key + ":schema-unchanged", "edit [%s at %s] changes how values are encoded but leaves the embedded schema text unchanged" % (edit, pos), replay)
        elif cls == "neutral" and s0["python"] != s1["python"]:
            c.violation(key + ":schema-changed", "edit [%s] cannot affect encoding but changes the embedded schema text" % edit, replay)
    c.cov["pairs_skipped_because_a_model_is_invalid"] = skipped

    # ---- the header of a stream really written by the generated writers carries exactly that text (Python and C++), and the
    #      text depends only on the protocol's closure: packages of the wire universe, each also with an unrelated sibling protocol
    wcases, _ = we.export_cases(1, tier="quick")
    types = we.group_types(wcases)
    c.rng.shuffle(types)
    pk = we.make_packages([x for x in types if not we.cpp_unbuildable(x[0])][:(96 if c.tier == "thorough" else 36)], 12, sc, ndjson=False)

    def hdr(p):
        if not p.generate(yardl, home):
            return p, None
        schema = p.schema
        res = {"python": schema}
        cc = open(os.path.join(p.root, "cpp", "protocols.cc")).read()
        res["cpp"] = wirelib.extract_schema_cpp(cc, "P")
        # a stream opened by the generated Python writer (closing early raises, but the header has been written)
        f = os.path.join(p.root, "hdr.bin")
        drivers.run_calls([PY, PYCALLS, os.path.join(p.root, "py"), p.pymod, "P"], "wcalls", "binary", f, ["close"])
        data = open(f, "rb").read() if os.path.exists(f) else b""
        res["python_stream_header_ok"] = data.startswith(wirelib.binary_header(schema))
        # the same package plus an unrelated protocol and record: P's schema must not change
        with open(os.path.join(p.root, "model", "model.yml"), "a") as fh:
            fh.write("Unrelated: !record\n  fields:\n    q: double\nZ: !protocol\n  sequence:\n    o: Unrelated\n")
        rc, o, e = run([yardl, "generate"], cwd=os.path.join(p.root, "model"), env=yardl_env(home), timeout=120)
        res["with_unrelated"] = wirelib.extract_schema_py(open(os.path.join(p.root, "py", p.pymod, "protocols.py")).read(), "P") if rc == 0 else None
        return p, res

    for p, r in pmap(hdr, pk, jobs=8):
        if r is None:
            c.note("package %d unusable: %s" % (p.idx, (p.problem or "")[:200]))
            continue
        c.cov["traces_validated_against_impl"] += 1
        c.count(("pkg", p.idx), nontrivial=True)
        model = open(os.path.join(p.root, "model", "model.yml")).read()
        if r["cpp"] != r["python"]:
            c.violation("C04:universe:languages-differ", "C++ and Python embed different schema texts for the same protocol", {"model": model, "schemas": r})
        elif not r["python_stream_header_ok"]:
            c.violation("C04:universe:header", "the stream opened by the generated Python writer does not start with magic, version and the schema literal", {"model": model})
        elif r["with_unrelated"] != r["python"]:
            c.violation("C04:universe:unrelated-definition", "adding an unrelated record and protocol changed the schema of protocol P", {"model": model, "schemas": r})
    # ---- large protocols: the schema of a protocol whose closure holds many records is tens of kilobytes long (beyond the string
    #      literal limits of some compilers, beyond 64 KiB); it must still be the same text in every language and in the stream
    def big_model(n):
        recs = []
        for i in range(n):
            recs.append("Rec%d: !record\n  fields:\n    identifier%d: int\n    label%d: string?\n    samples%d: !array {items: float, dimensions: [2, 3]}\n"
                        "    lookup%d: !map {keys: string, values: int}\n    choice%d: [int, string, float]\n%s" % (
                            i, i, i, i, i, i, ("    previous%d: !vector {items: Rec%d}\n" % (i, i - 1)) if i else ""))
        return "".join(recs) + "P: !protocol\n  sequence:\n    first: int\n    all: !stream {items: Rec%d}\n" % (n - 1)

    def bigwork(n):
        root = os.path.join(sc, "big%d" % n)
        rc, err = generate(yardl, home, root, {"model.yml": big_model(n)})
        if rc != 0:
            return n, None, err
        s = extract_all(root)
        f = os.path.join(root, "hdr.bin")
        pyd = os.path.join(root, "out", "py")
        mod = [d for d in os.listdir(pyd) if os.path.isdir(os.path.join(pyd, d))][0]
        drivers.run_calls([PY, PYCALLS, pyd, mod, "P"], "wcalls", "binary", f, ["close"])
        data = open(f, "rb").read() if os.path.exists(f) else b""
        s["python_stream_header_ok"] = bool(s.get("python")) and data.startswith(wirelib.binary_header(s["python"]))
        try:
            json.loads(s.get("cpp") or "")
            s["cpp_is_json"] = True
        except ValueError:
            s["cpp_is_json"] = False
        return n, s, ""

    for n, s, err in pmap(bigwork, [3, 25, 60, 110, 200] if c.tier != "thorough" else [3, 25, 40, 60, 85, 110, 150, 200, 400], jobs=5):
        if s is None:
            raise Inconclusive("the large model with %d records is not generated: %s" % (n, err))
        c.count(("big", n), nontrivial=True)
        c.cov["traces_validated_against_impl"] += 1
        size = len(s.get("python") or "")
        c.cov.setdefault("large_schema_bytes", []).append(size)
        key = "C04:large:%s" % ("<16K" if size < 16000 else "<64K" if size < 65536 else ">=64K")
        brief = {k: (v[:80] + "..." + str(len(v))) if isinstance(v, str) else v for k, v in s.items()}
        if not s.get("python") or s.get("cpp") != s["python"] or s.get("matlab") != s["python"]:
            diff = next((i for i, (x, y) in enumerate(zip(s.get("cpp") or "", s.get("python") or "")) if x != y), None)
            c.violation(key + ":languages-differ", "protocol with %d records (schema of %d bytes): the schema literal differs between target languages (C++ vs Python first differ at offset %s; lengths cpp=%d python=%d matlab=%d)" % (
                n, size, diff, len(s.get("cpp") or ""), size, len(s.get("matlab") or "")), {"records": n, "schemas": brief})
        elif not s["cpp_is_json"]:
            c.violation(key + ":not-json", "protocol with %d records: the embedded schema is not valid JSON" % n, {"records": n, "schemas": brief})
        elif not s["python_stream_header_ok"]:
            c.violation(key + ":header", "protocol with %d records: the stream opened by the generated Python writer does not start with magic, version and the schema literal" % n, {"records": n})
    for x in cases[:3]:
        c.sample({k: v for k, v in x.items() if k != "positions"})
    c.assumptions += ["MATLAB is checked by reading the generated text only", "'free' edits (aliases, renames through aliases, uint64 <-> size) are not constrained by the property"]
    c.finish(rule="Schema.tla classifies edits: type-level edits by *computing* from Wire.tla whether value sets or encodings differ (22 edits x 8 "
                  "positions), definition-level edits by the table of what the property lists as neutral; each pair of models is generated and the "
                  "schema literal extracted from the C++, Python and MATLAB sources (must agree); affecting => text differs, neutral => text identical; "
                  "plus header and closure checks on packages of the wire universe; distinct = (edit, position) and packages")


main_wrapper(main)
