#!/usr/bin/env python3
"""C07 - protocol step order is enforced by generated readers and writers.  See DESIGN.md section 3 (C07)."""
import os, sys, json
sys.path.insert(0, os.path.join(os.path.dirname(os.path.abspath(__file__)), "..", "lib"))
from common import *
import drivers

PYCALLS = os.path.join(VERIF, "drivers", "pycalls.py")


class ShapePkg:
    def __init__(self, shape, root, idx):
        self.shape, self.idx = shape, idx
        self.root = os.path.join(root, "shape%d" % idx)
        self.ns = "Sm%d" % idx
        self.ok = False
        self.problem = None

    def prepare(self, yardl, home, want_cpp=True):
        os.makedirs(os.path.join(self.root, "model"), exist_ok=True)
        seq = "\n".join("    s%d: %s" % (i, "!stream {items: int}" if st else "int") for i, st in enumerate(self.shape))
        open(os.path.join(self.root, "model", "model.yml"), "w").write("P: !protocol\n  sequence:\n%s\n" % seq)
        open(os.path.join(self.root, "model", "_package.yml"), "w").write(
            "namespace: %s\ncpp:\n  sourcesOutputDir: ../cpp\n  generateHDF5: false\n  generateCMakeLists: false\n  generateNDJson: false\n"
            "  overrideArrayHeader: yardl_shim_ndarray.h\npython:\n  outputDir: ../py\n" % self.ns)
        rc, out, err = run([yardl, "generate"], cwd=os.path.join(self.root, "model"), env=yardl_env(home), timeout=120)
        if rc != 0:
            self.problem = "yardl generate failed: " + err[-800:]
            return self
        self.pymod = [d for d in os.listdir(os.path.join(self.root, "py")) if os.path.isdir(os.path.join(self.root, "py", d))][0]
        m = re.search(r"namespace ([A-Za-z0-9_]+) \{", open(os.path.join(self.root, "cpp", "protocols.h")).read())
        self.ns_cpp = m.group(1)
        if want_cpp:
            self.exe = os.path.join(self.root, "calls")
            ok, log, steps = drivers.cpp_build_calls(os.path.join(self.root, "cpp"), self.ns_cpp, "P", self.exe, ndjson=False)
            if not ok:
                self.problem = "generated C++ / call driver does not compile: " + log[-1500:]
                return self
        # a well-formed stream (value 7 / two items per stream) written by the generated Python writer
        self.stream = os.path.join(self.root, "valid.bin")
        script = ["write %d %s 2" % (i, "list" if st else "value") for i, st in enumerate(self.shape)] + ["close"]
        rc, lines, se = self.py("wcalls", self.stream, script)
        if rc != 0 or any(l.startswith("EXC") for l in lines):
            self.problem = "cannot produce the reference stream with the generated Python writer: %s %s" % (lines[-2:], se[-300:])
            return self
        self.ok = True
        return self

    def py(self, cmd, file, script):
        return drivers.run_calls([PY, PYCALLS, os.path.join(self.root, "py"), self.pymod, "P"], cmd, "binary", file, script)

    def cpp(self, cmd, file, script):
        return drivers.run_calls([self.exe], cmd, "binary", file, script)


def to_script(api, hist):
    lines = ["keepgoing"]               # a rejected call does not end the history (ProtocolSM.tla errs)
    for h in hist:
        c = h["call"]
        op, i, n = c["op"], c["i"], c["n"]
        if op == "close":
            lines.append("close")
        elif api == "cppw":
            lines.append({"write": "write %d" % i, "wbatch": "wbatch %d %d" % (i, n), "end": "end %d" % i}[op])
        elif api == "cppr":
            lines.append("one %d" % i if op == "one" else "batch %d %d" % (i, n))
        elif api == "pyw":
            lines.append("write %d %s %d" % (i, "MODE", n))
        elif api == "pyr":
            lines.append({"read": "read %d" % i, "take": "take %d %d" % (i, n), "drop": "drop %d" % i}[op])
    return lines


def judge(api, case, lines, shape):
    """Compare the real outcome of every call with the requirement.  Returns (violation message or None, drift flag)."""
    outs = [l for l in lines if l.startswith(("OK", "EXC"))]
    if not lines or not lines[0].startswith("OPEN"):
        return "could not open: %s" % lines[:1], False
    drift = False
    for k, h in enumerate(case["hist"]):
        if k >= len(outs):
            return "call %d (%s) produced no outcome" % (k, h["call"]), drift
        ok = outs[k].startswith("OK")
        if ok != h["model"]:
            drift = True
        if h["allowed"] == "accept" and not ok:
            return "call %d %s must be accepted in this state but raised: %s" % (k, json.dumps(h["call"]), outs[k][:160]), drift
        if h["allowed"] == "reject" and ok:
            return "call %d %s is out of order in this state but was accepted (%s)" % (k, json.dumps(h["call"]), outs[k]), drift
        if not ok:
            if h["allowed"] == "reject":
                continue                # rejected as required: the history goes on with further out-of-order calls (ProtocolSM.tla errs)
            return None, drift          # an "either" call that the code refused: the sequence ends here
        # results of accepted reader calls
        f = outs[k].split()
        if api == "cppr" and h["call"]["op"] in ("one", "batch") and len(f) >= 3:
            more, cnt = f[1] == "1", int(f[2])
            if shape[h["call"]["i"]]:
                if cnt != h["count"] or (h["count"] > 0 and not more) or (h["count"] == 0 and more):
                    return "call %d %s delivered %d item(s), more=%s; the stream holds %d more item(s) at this point" % (
                        k, json.dumps(h["call"]), cnt, more, h["count"]), drift
        if api == "pyr" and h["call"]["op"] == "take" and len(f) >= 4:
            cnt, end = int(f[2]), f[3] == "end"
            if cnt != h["count"] or end != (not h["more"]):
                return "call %d %s consumed %d item(s) (exhausted=%s), expected %d (exhausted=%s)" % (
                    k, json.dumps(h["call"]), cnt, end, h["count"], not h["more"]), drift
    return None, drift


def main():
    c = Check("C07", "model_checking")
    sc = scratch("verif-c07-")
    yardl = build_yardl(sc)
    home = os.path.join(sc, "home")
    thorough = c.tier == "thorough"
    res = tlc("ProtocolSM", cfg="MCProtocolSM4.cfg" if thorough else "MCProtocolSM3.cfg", timeout=1800, workers=NCPU)
    if res.invariant_violated:
        c.note("TLC: %s violated (model-level): the implementation-shaped machine contradicts the requirement" % res.violated_names())
    c.add_tlc(res)
    cases = tlc_cases(res.out)
    # design-level: the generated uint8_t counter
    try:
        wrap = tlc("ProtocolSM", cfg="MCProtocolSMWrap.cfg", timeout=600)
        c.add_tlc(wrap)
        c.cov["design_counter_wraparound_refuted_by_tlc"] = bool(wrap.invariant_violated)
    except Inconclusive as e:
        c.note("wrap-around design run inconclusive: %s" % str(e)[:200])

    shapes = sorted(set(tuple(x["shape"]) for x in cases))
    pkgs = {s: ShapePkg(list(s), sc, i) for i, s in enumerate(shapes)}
    pmap(lambda p: p.prepare(yardl, home), list(pkgs.values()), jobs=max(2, NCPU // 4))
    bad = [p for p in pkgs.values() if not p.ok]
    for p in bad:
        c.note("shape %s unusable: %s" % (p.shape, (p.problem or "")[:500]))
    if len(bad) > len(pkgs) // 4:
        raise Inconclusive("too many unusable shape packages: %s" % [p.problem for p in bad][:2])

    def work(case):
        p = pkgs[tuple(case["shape"])]
        if not p.ok:
            return case, None, False, []
        api = case["api"]
        script = to_script(api, case["hist"])
        tmp = os.path.join(p.root, "out-%d.bin" % (abs(hash(json.dumps(case))) % 10**9))
        try:
            if api == "cppw":
                rc, lines, se = p.cpp("wcalls", tmp, script)
            elif api == "cppr":
                rc, lines, se = p.cpp("rcalls", p.stream, script)
            elif api == "pyw":
                mode = "list" if len(script) % 2 else "gen"
                script = [l.replace("MODE", mode if p.shape[int(l.split()[1])] else "value") if l.startswith("write") else l for l in script]
                rc, lines, se = p.py("wcalls", tmp, script)
            else:
                rc, lines, se = p.py("rcalls", p.stream, script)
        finally:
            if os.path.exists(tmp):
                os.remove(tmp)
        msg, drift = judge(api, case, lines, p.shape)
        return case, msg, drift, lines

    results = pmap(work, cases)
    drift = 0
    for case, msg, d, lines in results:
        if lines == [] and msg is None:
            continue
        c.cov["traces_validated_against_impl"] += 1
        last = case["hist"][-1]
        c.count((case["api"], json.dumps(case["shape"]), len(case["hist"]), json.dumps(last["call"]), last["allowed"]),
                nontrivial=len(case["hist"]) > 1)
        drift += 1 if d else 0
        if msg:
            # re-run once
            _, msg2, _, _ = work(case)
            if msg2:
                c.violation("C07:%s:%s:%s" % (case["api"], last["call"]["op"], last["allowed"]), msg,
                            {"api": case["api"], "shape_stream_flags": case["shape"], "calls": [h["call"] for h in case["hist"]],
                             "requirement": [h["allowed"] for h in case["hist"]], "observed": lines})
    if drift:
        print("MODEL-DRIFT: %d call sequences where the real code takes the other allowed branch than ProtocolSM.tla's implementation-shaped machine" % drift)
    c.cov["model_drift"] = drift

    # ---- long protocols: the happy path through 130 steps (the generated C++ keeps the step in a uint8_t)
    long_shape = [i % 5 == 2 for i in range(130)]
    lp = ShapePkg(long_shape, sc, 999).prepare(yardl, home)
    if not lp.ok:
        c.note("130-step package unusable: %s" % (lp.problem or "")[:400])
    else:
        wscript = []
        for i, st in enumerate(long_shape):
            wscript += (["write %d" % i, "wbatch %d 2" % i, "end %d" % i] if st else ["write %d" % i])
        wscript.append("close")
        out = os.path.join(lp.root, "long.bin")
        rc, lines, se = lp.cpp("wcalls", out, wscript)
        c.cov["traces_validated_against_impl"] += 1
        c.count(("long", "cppw"))
        exc = [l for l in lines if l.startswith("EXC")]
        if exc:
            k = len([l for l in lines if l.startswith("OK")])
            c.violation("C07:cppw:long-protocol", "in-order call %d (%s) of a 130-step protocol was rejected: %s" % (k, wscript[k], exc[0]),
                        {"shape_stream_flags": long_shape, "calls": wscript[:k + 1], "observed": lines[-3:]})
        rscript = []
        for i, st in enumerate(long_shape):
            rscript += (["one %d" % i, "batch %d 5" % i, "one %d" % i] if st else ["one %d" % i])
        rscript.append("close")
        rc, lines, se = lp.cpp("rcalls", lp.stream, rscript)
        c.cov["traces_validated_against_impl"] += 1
        c.count(("long", "cppr"))
        exc = [l for l in lines if l.startswith("EXC")]
        if exc:
            k = len([l for l in lines if l.startswith("OK")])
            c.violation("C07:cppr:long-protocol", "in-order call %d (%s) of a 130-step protocol was rejected: %s" % (k, rscript[k], exc[0]),
                        {"shape_stream_flags": long_shape, "calls": rscript[:k + 1], "observed": lines[-3:]})
        # and an out-of-order call far into the protocol must still be rejected
        bad = rscript[:140] + ["one 5"]
        rc, lines, se = lp.cpp("rcalls", lp.stream, bad)
        if not any(l.startswith("EXC") for l in lines):
            c.violation("C07:cppr:long-protocol-out-of-order", "re-reading step 5 after %d in-order calls was accepted" % 140,
                        {"calls": bad[-3:], "observed": lines[-3:]})
    for x in cases[:2] + cases[-2:]:
        c.sample({"api": x["api"], "shape": x["shape"], "calls": [h["call"] for h in x["hist"]], "requirement": [h["allowed"] for h in x["hist"]]})
    c.assumptions += ["post-error behaviour is not examined (a sequence ends at its first rejected call)",
                      "'either' verdicts: a fully delivered stream whose end the caller has not observed; a Python stream step never written",
                      "MATLAB code is not executed"]
    c.finish(rule="TLC explores every protocol shape up to the bound x every API call in every reachable state of four API models (C++ writer/"
                  "reader, Python writer/reader), checking Refines; one shortest call history per (state, call) is exported and performed on the "
                  "generated code; distinct = (api, shape, history length, last call, required verdict)", exhaustive=True)


main_wrapper(main)
