#!/usr/bin/env python3
"""C18 - package imports resolve correctly for every import graph.

TLC enumerates every configuration (import lists with order, namespace labelling) within the bound,
runs the implementation-shaped loader of spec/tool/Imports.tla on it, checks OutcomeMatches /
LoadedExactlyReach / Terminates, and exports each terminal state.  Every exported configuration is
concretised as sibling package directories and run through the real `yardl generate`; the verdict is
taken from the tool's observable behaviour only (exit status, model.json), compared with what the
abstract layer of the spec requires.  Hook traces of collectPackages are compared with the behaviour
the spec produced (MODEL-DRIFT diagnostics only)."""
import json, os, sys, shutil, threading, itertools
sys.path.insert(0, os.path.join(os.path.dirname(os.path.abspath(__file__)), "..", "lib"))
from common import *


def concretise(case, root):
    imports, ns = case["imports"], case["ns"]
    n = len(imports)
    for d in range(1, n + 1):
        pd = os.path.join(root, "p%d" % d)
        os.makedirs(pd, exist_ok=True)
        man = "namespace: Ns%d\n" % ns[d - 1]
        if imports[d - 1]:
            man += "imports:\n" + "".join("  - ../p%d\n" % j for j in imports[d - 1])
        if d == 1:
            man += "json:\n  outputDir: out\n"
            if case.get("py"):
                man += "python:\n  outputDir: pyout\n"
        with open(os.path.join(pd, "_package.yml"), "w") as f:
            f.write(man)
        fields = "    x: int\n" + "".join("    f%d: Ns%d.R%d\n" % (j, ns[j - 1], j) for j in imports[d - 1] if j != d)
        model = "R%d: !record\n  fields:\n%s" % (d, fields)
        if d == 1:
            model += "P: !protocol\n  sequence:\n    s: R1\n"
        with open(os.path.join(pd, "model.yml"), "w") as f:
            f.write(model)


def run_case(case, yardl, workdir, home):
    shutil.rmtree(workdir, ignore_errors=True)
    os.makedirs(workdir)
    concretise(case, workdir)
    env = yardl_env(home)
    trace = os.path.join(workdir, "trace.ndjson")
    env["YARDL_VERIF_TRACE"] = trace
    rc, out, err = run([yardl, "generate"], cwd=os.path.join(workdir, "p1"), env=env, timeout=20)
    obs = {"rc": rc, "stderr": err[-600:]}
    mj = os.path.join(workdir, "p1", "out", "model.json")
    if rc == 0 and os.path.exists(mj):
        m = json.load(open(mj))
        obs["namespaces"] = [x["name"] for x in m["namespaces"]]
        obs["types"] = {x["name"]: sorted(t["record"]["name"] for t in x.get("types", []) if "record" in t)
                        for x in m["namespaces"]}
        obs["fields"] = {x["name"]: sorted((f["name"], json.dumps(f["type"])) for t in x.get("types", []) if "record" in t
                                           for f in t["record"]["fields"]) for x in m["namespaces"]}
    if rc == 0 and case.get("py"):
        # "its types are usable under their namespace from every package that imports it": the generated
        # package of the root must import, and a default-constructed root record reaches every imported record type
        pyout = os.path.join(workdir, "p1", "pyout")
        mods = [d for d in os.listdir(pyout) if os.path.isdir(os.path.join(pyout, d))] if os.path.isdir(pyout) else []
        if len(mods) == 1:       # the top-level module name is the tool's choice; anything else is not judged here
            code = ("import sys; sys.path.insert(0, 'pyout'); import %s as m; r = m.R1(); "
                    "print('USABLE', type(r).__name__)" % mods[0])
            prc, pout, perr = run([PY, "-c", code], cwd=os.path.join(workdir, "p1"), timeout=120)
            obs["py_rc"], obs["py_err"] = prc, (perr or pout)[-400:]
    ev = []
    if os.path.exists(trace):
        for line in open(trace):
            r = json.loads(line)
            if r["event"] in ("CollectEnter", "CollectNew"):
                ev.append({"event": r["event"], "dir": int(os.path.basename(r["dir"])[1:]), "depth": r["depth"]})
    obs["log"] = ev
    return obs


def judge(case, obs):
    """Return list of (key, what) property violations for one configuration."""
    bad = []
    exp = case["expected"]
    rc = obs["rc"]
    if rc not in (0, 1):
        bad.append(("crash", "exit status %s (neither success nor a reported error): %s" % (rc, obs["stderr"][-300:])))
        return bad
    if exp == "error" and rc == 0:
        why = "cycle" if case["cycle"] else "conflict" if case["conflict"] else "depth"
        bad.append(("accepted-" + why, "configuration with a reachable %s (longest chain %d) was accepted" % (why, case["depth"])))
    if exp == "ok" and rc != 0:
        bad.append(("rejected-valid", "loadable configuration rejected: " + obs["stderr"][-300:]))
    if rc == 0 and exp != "error" and case.get("py") and obs.get("py_rc") not in (0, None):
        bad.append(("generated-code-unusable", "generated Python package of the root does not import/construct: " + obs.get("py_err", "")[-300:]))
    if rc == 0 and exp != "error":
        want = sorted("Ns%d" % case["ns"][d - 1] for d in case["reach"])
        got = obs.get("namespaces")
        if got is None:
            bad.append(("no-output", "exit 0 but no model.json"))
        else:
            if sorted(got) != want:
                bad.append(("loaded-set", "loaded namespaces %s, reachable %s" % (got, want)))
            for d in case["reach"]:
                nsn = "Ns%d" % case["ns"][d - 1]
                if obs["types"].get(nsn) != ["R%d" % d]:
                    bad.append(("loaded-content", "namespace %s holds %s, expected [R%d]" % (nsn, obs["types"].get(nsn), d)))
                for j in case["imports"][d - 1]:
                    if nsn in got and "Ns%d" % case["ns"][j - 1] in got and got.index("Ns%d" % case["ns"][j - 1]) > got.index(nsn):
                        bad.append(("dependency-order", "%s listed before its import" % nsn))
                    ref = ("f%d" % j, json.dumps("Ns%d.R%d" % (case["ns"][j - 1], j)))
                    if ref not in obs["fields"].get(nsn, []):
                        bad.append(("cross-namespace-reference", "%s: field %s not resolved as written" % (nsn, ref)))
    return bad


def canon(case):
    return json.dumps([[sorted(l) for l in case["imports"]], case["ns"]])


def main():
    c = Check("C18", "model_checking")
    sc = scratch("verif-c18-")
    yardl = build_yardl(sc)
    home = os.path.join(sc, "home")
    limit_src = open(os.path.join(REPO, "tooling/pkg/packaging/packageinfo.go")).read()
    m = re.search(r"MaxImportRecursionDepth\s*=\s*(\d+)", limit_src)
    if not m:
        raise Inconclusive("cannot read MaxImportRecursionDepth from packageinfo.go")
    limit = int(m.group(1))

    replay = sys.argv[sys.argv.index("--replay") + 1] if "--replay" in sys.argv else None
    if replay:
        rec = json.load(open(replay))["replay"]
        obs = run_case(rec["case"], yardl, os.path.join(sc, "replay"), home)
        print(json.dumps({"case": rec["case"], "observed": obs, "judgement": judge(rec["case"], obs)}, indent=1))
        sys.exit(1 if judge(rec["case"], obs) else 0)

    # ---- TLC: exhaustive configuration spaces
    runs = [("MCImports2.cfg", {}, None), ("MCImports3.cfg", {}, None if c.tier == "thorough" else 3000), ("MCImportsChain.cfg", {}, None)]
    if c.tier == "thorough":
        # TLC exhaustive over all 4-directory configurations; replaying all of them took more than an hour, so a large seeded sample
        runs.append(("MCImports4.cfg", {}, 20000))
    else:
        runs.append(("MCImports4q.cfg", {}, 1500))    # TLC exhaustive (distinct namespaces); replay a seeded sample
    cases = []
    for cfg, env, sample in runs:
        wd = scratch("verif-c18-tlc-")
        # the spec constants carry the code's limit; if the constant changed, rescale the chain family
        res = tlc("Imports", cfg=cfg, workdir=wd, timeout=3000, workers=NCPU)
        if res.invariant_violated:
            # the implementation-shaped model disagrees with the abstract layer: a design-level alarm.
            # It is not a verdict on the code; the exported cases below decide that.
            c.note("TLC: invariant %s violated in %s (model-level)" % (res.violated_names(), cfg))
        c.add_tlc(res)
        cs = tlc_cases(res.out)
        for x in cs:
            x["cfg"] = cfg
        if sample and len(cs) > sample:
            groups = {}
            for x in cs:
                groups.setdefault(canon(x), []).append(x)
            keys = sorted(groups)
            c.rng.shuffle(keys)
            # loadable graphs in which some package is imported by two others (diamonds etc.) are always included,
            # they are the ones where "loaded once, usable from every importer" has something to say
            def is_shared(x):
                return (x["expected"] == "ok" and len(x["reach"]) >= 3 and
                        any(sum(1 for a in x["reach"] if d in x["imports"][a - 1]) >= 2 for d in x["reach"]))
            sk = [k for k in keys if is_shared(groups[k][0])]
            picked, seen = [], set()
            for k in sk + keys:
                if len(picked) >= sample:
                    break
                if k not in seen:
                    seen.add(k)
                    picked += groups[k]       # whole order-classes, so order independence is checkable
            cs = picked
        cases += cs
        shutil.rmtree(wd, ignore_errors=True)
    # design-only run (small Limit): how many configurations does the *algorithm* get wrong / order-dependent?
    res = tlc("Imports", cfg="MCImportsDesign.cfg" if c.tier == "thorough" else "MCImportsDesignq.cfg", timeout=1800, workers=NCPU)
    c.add_tlc(res)
    dcs = tlc_cases(res.out)
    dg = {}
    for x in dcs:
        dg.setdefault(canon(x), set()).add(x["model"] == "ok")
    c.cov["design_limit2"] = {
        "configurations": len(dcs),
        "model_contradicts_requirement": sum(1 for x in dcs if (x["expected"] == "error") == (x["model"] == "ok") and x["expected"] != "either"),
        "order_dependent_classes": sum(1 for v in dg.values() if len(v) > 1)}
    if limit != 10:
        c.note("MaxImportRecursionDepth is %d, spec constant is 10: depth cases are re-derived from the real constant" % limit)
        for x in cases:
            x["expected"] = "error" if (x["cycle"] or x["conflict"] or x["depth"] > limit) else ("ok" if x["depth"] < limit else "either")

    # ---- a seeded subset of loadable configurations with a shared dependency also generates Python and imports it
    shared = [x for x in cases if x["expected"] == "ok" and len(x["reach"]) >= 3 and
              any(sum(1 for a in x["reach"] if d in x["imports"][a - 1]) >= 2 for d in x["reach"])]
    c.rng.shuffle(shared)
    for x in shared[:(3000 if c.tier == "thorough" else 700)]:
        x["py"] = True
    c.cov["generated_python_imported"] = min(len(shared), 3000 if c.tier == "thorough" else 700)

    # ---- replay every exported configuration on the real tool
    tl = threading.local()
    counter = itertools.count()

    def work(case):
        if not hasattr(tl, "dir"):
            tl.dir = os.path.join(sc, "w%d" % next(counter))
        obs = run_case(case, yardl, tl.dir, home)
        return case, obs

    results = pmap(work, cases)
    drift = 0
    by_class = {}
    for case, obs in results:
        kind = "%s/%s%s%s/d%s" % (case["cfg"][2:-4], "c" if case["cycle"] else "", "k" if case["conflict"] else "",
                                   "", min(case["depth"], 99))
        c.count(canon(case), nontrivial=len(case["reach"]) > 1)
        bad = judge(case, obs)
        if bad:
            # re-run once to rule out harness flakiness
            obs2 = run_case(case, yardl, os.path.join(sc, "recheck"), home)
            again = set(k for k, _ in judge(case, obs2))
            bad = [b for b in bad if b[0] in again]
        for key, what in bad:
            fam = "chain" if "Chain" in case["cfg"] else "graph"
            c.violation("C18:%s:%s" % (fam, key), what, {"case": case, "observed": obs})
        if obs["log"] != [{"event": e["event"], "dir": e["dir"], "depth": e["depth"]} for e in case["log"]]:
            drift += 1
        by_class.setdefault(canon(case), []).append((case, obs))
        if case["model"] != "ok" or len(case["reach"]) > 2:
            c.sample({"imports": case["imports"], "ns": case["ns"], "required": case["expected"], "model": case["model"],
                      "tool_exit": obs["rc"], "tool_namespaces": obs.get("namespaces")})
    c.cov["traces_validated_against_impl"] = len(results)
    # ---- order independence on the real tool: same graph, different list orders => same verdict, same loaded set
    for k, lst in by_class.items():
        sigs = set((o["rc"] == 0, tuple(sorted(o.get("namespaces") or []))) for _, o in lst)
        if len(sigs) > 1:
            case, obs = lst[0]
            other = [x for x in lst if (x[1]["rc"] == 0) != (obs["rc"] == 0)] or lst[1:]
            fam = "chain" if "Chain" in case["cfg"] else "graph"
            c.violation("C18:%s:order-dependent" % fam,
                        "same import graph, different import-list order, different result",
                        {"case": case, "observed": obs, "other_case": other[0][0], "other_observed": other[0][1]})
    # ---- ImportLayouts.tla: directory trees that are not flat; the same relative import string names different directories for
    #      different importers, so every import must be resolved against the directory of its own importer
    fl = os.path.join(sc, "layouts.ndjson")
    tlc_eval("ImportLayouts", timeout=600, workdir=scratch("verif-c18-tlcl-"), env={"VERIF_OUT": fl})
    layouts = [json.loads(l) for l in open(fl) if l.strip()]
    c.cov["tlc_nested_layouts"] = len(layouts)
    c.cov["tlc_nested_layouts_ambiguous_strings"] = sum(1 for x in layouts if x["ambiguous"])

    def layout_work(arg):
        li, x, rev = arg
        root = os.path.join(sc, "lay%d-%d" % (li, rev))
        for d in x["dirs"]:
            pd = os.path.join(root, d["path"])
            os.makedirs(pd, exist_ok=True)
            edges = sorted([e for e in x["edges"] if e["from"] == d["path"]], key=lambda e: e["str"], reverse=bool(rev))
            man = "namespace: %s\n" % d["ns"]
            if edges:
                man += "imports:\n" + "".join("  - %s\n" % e["str"] for e in edges)
            if d["path"] == "app":
                man += "json:\n  outputDir: out\n"
            open(os.path.join(pd, "_package.yml"), "w").write(man)
            fields = "".join("    f%d: %s.T%s\n" % (k, e["to_ns"], e["to_ns"]) for k, e in enumerate(edges))
            open(os.path.join(pd, "m.yml"), "w").write("T%s: !record\n  fields:\n    x: int\n%s" % (d["ns"], fields))
        rc, out, err = run([yardl, "generate"], cwd=os.path.join(root, "app"), env=yardl_env(home), timeout=30)
        names = None
        mj = os.path.join(root, "app", "out", "model.json")
        if rc == 0 and os.path.exists(mj):
            names = [n["name"] for n in json.load(open(mj))["namespaces"]]
        shutil.rmtree(root, ignore_errors=True)
        return x, rev, rc, err[-400:], names

    for x, rev, rc, err, names in pmap(layout_work, [(i, x, r) for i, x in enumerate(layouts) for r in (0, 1)]):
        c.cov["traces_validated_against_impl"] += 1
        c.count(("layout", json.dumps(x["edges"], sort_keys=True), rev), nontrivial=x["ambiguous"])
        replay = {"layout": x, "import_lists_reversed": bool(rev), "exit": rc, "stderr": err, "namespaces": names}
        desc = ", ".join("%s imports %s" % (e["from"], e["str"]) for e in sorted(x["edges"], key=lambda e: (e["from"], e["str"])))
        if rc not in (0, 1):
            c.violation("C18:layout:crash", "exit status %s on the directory layout [%s]" % (rc, desc), replay)
        elif rc != 0:
            c.violation("C18:layout:rejected-valid", "a valid package tree [%s] is rejected: %s" % (desc, err[-200:]), replay)
        elif names is None or sorted(names) != sorted(x["loaded"]) or len(names) != len(set(names)):
            c.violation("C18:layout:wrong-packages", "directory layout [%s]: loaded namespaces %s, reachable packages %s" % (desc, names, sorted(x["loaded"])), replay)
    if drift:
        print("MODEL-DRIFT: %d of %d hook traces of collectPackages differ from the behaviour of Imports.tla "
              "(spec needs updating; not a verdict)" % (drift, len(results)))
    c.cov["model_drift_traces"] = drift
    c.cov["order_classes"] = len(by_class)
    c.assumptions += ["packages are local sibling directories (git/https imports need a network)",
                      "verdict read from exit status and model.json only; error wording is not asserted",
                      "a longest chain of exactly MaxImportRecursionDepth edges may be accepted or rejected (boundary left to the tool)"]
    c.finish(rule="TLC enumerates every (import lists with order, namespace labelling) configuration in the bound; each terminal "
                  "state is concretised and run through `yardl generate`; distinct = distinct unordered graphs+labelling with >1 reachable package",
             exhaustive=(c.tier == "thorough"))


main_wrapper(main)
