#!/usr/bin/env python3
"""C03 - streams are portable across target languages and formats.  See DESIGN.md section 3 (C03)."""
import os, sys, itertools
sys.path.insert(0, os.path.join(os.path.dirname(os.path.abspath(__file__)), "..", "lib"))
from common import *
import wireengine as we

FMT = {"b": "binary", "j": "ndjson"}


def main():
    c = Check("C03", "model_checking")
    sc = scratch("verif-c03-")
    yardl = build_yardl(sc)
    home = os.path.join(sc, "home")
    thorough = c.tier == "thorough"
    cases, res = we.export_cases(1, tier=c.tier)
    m = 7 if thorough else 60
    cases2, res2 = we.export_cases(2, mod=m, rem=(c.seed + 11) % m, tier=c.tier)
    types = we.group_types(cases + cases2)
    # chains of two container levels over an optional / a union (WireCases.tla Stacked): all of them in the thorough tier, a seeded dozen otherwise
    cases3, _ = we.export_cases(3, tier=c.tier)
    stacked = we.group_types(cases3)
    c.rng.shuffle(stacked)
    types += stacked if thorough else stacked[:12]
    c.cov["tlc_cases_depth3_stacked"] = sum(len(cs) for t, cs in (stacked if thorough else stacked[:12]))
    c.rng.shuffle(types)
    pkgs = [p for p in we.make_packages(types, 24, sc) if "cpp" in p.langs]     # two languages needed
    for p in pkgs:      # records spelled as instances of generic records, defined locally or in an imported package
        p.style = {"generics": ["none", "local", "imported"][p.idx % 3], "shorthand": p.idx % 2 == 1, "optional": "question", "prim_alias": p.idx % 4 == 1,
                   "generic_unions": p.idx % 5 == 2}
        if p.style["generic_unions"] and p.style["generics"] == "none":
            p.style["generics"] = "local"
    notes = []
    good, bad = we.prepare(pkgs, yardl, home, notes=notes)
    for n in notes:
        c.note(n)
    if len(bad) > len(pkgs) // 4:
        raise Inconclusive("%d of %d packages unusable: %s" % (len(bad), len(pkgs), notes[:2]))
    runs_cap = 8 if thorough else 4
    # chain: spec input in format f0 -> language A writes f1 -> language B writes binary (checked against Enc)
    chains = [(a, b, f0, f1) for a in ("py", "cpp") for b in ("py", "cpp") for f0 in "bj" for f1 in "bj" if not (a == b and f0 == f1 == "b")]

    def work(p):
        out = []
        for r in range(1, p.n_runs(runs_cap) + 1):
            jvals = p.run_values(r, True)
            vals = p.run_values(r, False)
            for (a, b, f0, f1) in chains:
                allbin = f0 == "b" and f1 == "b"
                v = vals if allbin else jvals
                if v is None:
                    continue
                tag = "r%d-%s%s%s%s" % (r, a, f0, b, f1)
                # Python writers are fed lazily (generator), from a materialised list, or item by item (+ an empty batch)
                gu = p.style.get("generic_unions")
                if gu and f0 == "j":
                    continue        # the NDJSON form of a generic union instance is not specified: only produced by the code itself
                l1 = we.leg(p, a, FMT[f0], FMT[f1], v, tag + "-1", block=[None, 1, 2][r % 3], mode=["copy", "list", "items"][r % 3],
                            check_output=not (gu and f1 == "j"))
                if not l1["ok"]:
                    out.append((p, r, (a, b, f0, f1), 1, v, l1))
                    continue
                # the *actual* output of A (not the spec's canonical form) is what B must accept
                l2 = we.leg(p, b, FMT[f1], "binary", v, tag + "-2", inbytes=l1["outbytes"], bufsize=[1, 3][r % 2])
                out.append((p, r, (a, b, f0, f1), 2, v, l2))
        return out

    results = [x for lst in pmap(work, good) for x in lst]
    for p, r, ch, hop, vals, rr in results:
        c.cov["traces_validated_against_impl"] += 1
        a, b, f0, f1 = ch
        name = "%s:%s->%s | %s:%s->b" % (a, f0, f1, b, f1)
        for s in p.steps:
            c.count((we.type_class(s["t"]), name), nontrivial=True)
        if not rr["ok"]:
            st = we.blame_step(p, rr["msg"])
            shape = we.type_class(st["t"]) if st else "?"
            gu = ":generic-union-spelling" if p.style.get("generic_unions") else ""
            if "cpp" in name and st is not None:
                us = []
                we._unions(st["t"], us)
                if any(we.type_class(u) in we.cpp_variant_tag_clash(p) for u in us):
                    gu += ":one-cpp-variant-two-tag-sets"
            c.violation("C03:%s:hop%d:%s%s" % (name.replace(" ", ""), hop, shape, gu), rr["msg"],
                        {"package_model": open(os.path.join(p.root, "model", "model.yml")).read(), "run": r, "chain": name, "hop": hop,
                         "stderr": rr.get("stderr"), "input_hex": open(rr["in"], "rb").read().hex()[-6000:] if "in" in rr else None,
                         "output_hex": (rr.get("outbytes") or b"").hex()[-6000:]})
    # ---- large payloads (WireBig.tla, as in C01): the 2-hop chains over streams longer than the 64 KiB buffers of both runtimes
    pads = [0, 7] if not thorough else [0, 3, 7, 9]
    bigrecs = pmap(we.export_big, pads, jobs=4)
    bp = we.BigPackage(sc, bigrecs[0])
    bg, bb = we.prepare([bp], yardl, home, notes=notes)
    if not bg:
        c.note("large-payload package unusable: %s" % (bp.problem or "")[:500])
    else:
        bigchains = [("py", "cpp", "b", "b"), ("cpp", "py", "b", "b"), ("py", "cpp", "b", "j"), ("cpp", "py", "b", "j"), ("py", "py", "b", "j"), ("py", "cpp", "j", "b")]

        def bigwork(args):
            pad, recs, (a, b, f0, f1) = args
            vals = bp.vals_for(recs)
            tag = "big%d-%s%s%s%s" % (pad, a, f0, b, f1)
            l1 = we.leg(bp, a, FMT[f0], FMT[f1], vals, tag + "-1", block=[None, 7, 1][pad % 3], mode=["copy", "list", "items"][pad % 3])
            if not l1["ok"]:
                return pad, (a, b, f0, f1), 1, l1
            return pad, (a, b, f0, f1), 2, we.leg(bp, b, FMT[f1], "binary", vals, tag + "-2", inbytes=l1["outbytes"], bufsize=[1, 3][pad % 2])
        for pad, ch, hop, rr in pmap(bigwork, [(pad, recs, ch) for pad, recs in zip(pads, bigrecs) for ch in bigchains], jobs=6):
            a, b, f0, f1 = ch
            name = "%s:%s->%s | %s:%s->b" % (a, f0, f1, b, f1)
            c.cov["traces_validated_against_impl"] += 1
            c.count(("big", pad, name), nontrivial=True)
            if not rr["ok"]:
                st = we.blame_step(bp, rr["msg"])
                c.violation("C03:%s:hop%d:big:%s" % (name.replace(" ", ""), hop, st["name"] if st else "?"), rr["msg"],
                            {"pad": pad, "chain": name, "hop": hop, "stderr": rr.get("stderr"), "note": "values: spec/wire/WireBig.tla with VERIF_PAD=%d" % pad})
        c.cov["large_payload_chains"] = len(pads) * len(bigchains)
    # ---- stream / non-stream patterns (NdjsonReader.tla) as cross-language chains: NDJSON -> binary by one language, binary -> NDJSON
    #      by the other; adjacent and empty streams included
    import patterns
    patterns.run_chains(c, sc, yardl, home, thorough, "C03")
    c.cov["packages"] = len(good)
    c.cov["chains"] = ["%s:%s->%s then %s:%s->binary" % (a, FMT[f0], FMT[f1], b, FMT[f1]) for a, b, f0, f1 in chains]
    c.cov["states"] = len(cases) + len(cases2)
    c.cov["transitions"] = len(cases) + len(cases2)
    c.sample({"chain": c.cov["chains"][0], "types_per_package": [we.type_class(s["t"]) for s in good[0].steps[:6]]} if good else {})
    c.assumptions += ["MATLAB is not executed (C14 checks its serialization plan statically)", "C++ uses /verif's shims"]
    c.finish(rule="for every exported case and every chain (language A reads the spec's stream in format f0 and writes format f1; language B reads "
                  "A's actual output and writes binary): both outputs must lie in the spec's admissible sets (Enc up to block boundaries and "
                  "map order; documented JSON); distinct = (type shape, chain)")


main_wrapper(main)
