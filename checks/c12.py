#!/usr/bin/env python3
"""C12 - output is a deterministic, idempotent function of the package.  See DESIGN.md section 3 (C12)."""
import os, sys, json, shutil, hashlib
sys.path.insert(0, os.path.join(os.path.dirname(os.path.abspath(__file__)), "..", "lib"))
from common import *
import cliutil as cu

TARGETS = ["cpp", "python", "json", "matlab"]

# additions to the main model of the base project (lib/cliutil.py) that make the tool iterate over maps
RICH = """
U2: [int, string]
U3: [int, string, float]
U4: [null, int, string, float, Imp1.T1]
E1: !enum
  values: [a, b, c]
E2: !enum
  base: uint8
  values: {x: 1, y: 2, z: 7}
F1: !flags
  values: [r, w, x]
G<T1, T2>: !record
  fields:
    t1: T1
    t2: T2*
    u: [T1, T2]
A1: G<int, string>
A2: G<E1, R2>
R2: !record
  fields:
    m: string->U3
    arr: double[x, y]
    o: Rec?
  computedFields:
    n: size(m)
Q1: !protocol
  sequence:
    a: U4
    b: !stream
      items: A2
Q2: !protocol
  sequence:
    c: R2
Q3: !protocol
  sequence:
    d: E2
"""

# many independent occasions for an unordered iteration to show: unions that are still open over several type parameters (one
# converter / template parameter list each), named types holding several different nested unions (one class file each), several
# instantiations of every generic, maps of all of them
MANY = """
Ei2<L, R>: [L, R]
Ei2n<L, R>: [null, L, R]
Ei3<A, B, C>: [A, B, C]
Ei4<A, B, C, D>: [A, B, C, D]
Fb<P, S>: !union
  primary: P
  secondary: S
Tri<X, Y, Z>: !record
  fields:
    xy: [X, Y]
    yz: [null, Y, Z]
    all: Ei3<X, Y, Z>
    m: string->Ei2<Z, X>
Nest: !union
  ints: !vector {items: [int, float]}
  strs: !vector {items: [string, float]}
  maps: !map {keys: string, values: [bool, int]}
NestRec: !record
  fields:
    a: !vector {items: [int, string]}
    b: !vector {items: [float, bool]}
    c: !array {items: [long, string], dimensions: 2}
NestVec: !vector
  items: !map {keys: string, values: [int, double]}
Volumes: !record
  fields:
    axis: string
    v1: float[z, y, x]
    v2: float[y, x]
    v3: float[t, z, y, x]
    v4: int[x, y]
  computedFields:
    axisSum: dimensionIndex(v1, axis) + dimensionIndex(v2, axis) + dimensionIndex(v3, axis) + dimensionIndex(v4, axis)
    extents: size(v1, axis) * size(v2, axis) + size(v3, axis)
I1: Ei2<int, string>
I2: Ei2<string, int>
I3: Ei3<int, string, float>
I4: Ei4<int, string, float, bool>
I5: Tri<int, string, float>
I6: Tri<E1, R2, U2>
I7: Fb<int, R2>
I8: Ei2n<R2, E1>
QM: !protocol
  sequence:
    s1: I1
    s2: I2
    s3: !stream
      items: I3
    s4: I4
    s5: I5
    s6: I6*
    s7: I7?
    s8: I8
    s9: Nest
    s10: NestRec
    s11: NestVec
    s12: Ei2<Nest, NestRec>
    s13: Volumes
"""

# unchanged aliases of named types, used in nested positions of protocol steps that did change between the versions: the
# evolution analysis has several candidate partners for each of them (the alias itself and its target)
ALIASES = """
RA: !record
  fields:
    x: int
RB: !record
  fields:
    y: string
EA: !enum
  values: [p, q]
AL1: RA
AL2: RA
AL3: EA
AL4: RB
AL5: EA
AL6: RB
AL7: RA
AL8: AL1
Frame: !record
  fields:
    f1: AL1
    f2: AL2*
    f3: AL3
    f4: AL4?
    f5: AL5*2
    f6: string->AL6
    f7: [AL7, int]
    f8: AL8
PV: !protocol
  sequence:
    frame: Frame
    frames: !stream
      items: Frame
    more: AL2*
"""
ALIASES_NEW = ALIASES.replace("    frame: Frame\n", "    frame: Frame?\n").replace("      items: Frame\n", "      items: [Frame, int]\n")

# invalid additions: several diagnostics, some at one position, in one run
BAD_ENUM = """
Dup: !enum
  values: {a: 1, b: 1, c: 2, d: 2, e: 3, f: 3, g: 4}
Dup2: !flags
  values: {p: 1, q: 1, r: 2, s: 2}
Bad1: !record
  fields:
    z: NoSuch1
    y: NoSuch2
    x: [int, int]
badName: int
"""


def norm(text, root):
    return text.replace(root, "<ROOT>")


def tree_hash(dirs):
    h = {}
    for t, d in dirs.items():
        for k, v in snapshot_tree(d).items():
            h[t + "/" + k] = v[0]
    return h


def main():
    c = Check("C12", "model_checking")
    sc = scratch("verif-c12-")
    yardl = build_yardl(sc)
    home = os.path.join(sc, "home")
    thorough = c.tier == "thorough"
    nruns = 30 if thorough else 10

    for cfg in ("MCDeterminism.cfg", "MCDeterminismPosOnly.cfg"):
        res = tlc("Determinism", cfg=cfg, timeout=300)
        c.add_tlc(res)
        if cfg == "MCDeterminism.cfg" and res.invariant_violated:
            c.note("TLC: the sort key modelled from errorsink.go does not make output independent of collection order (model-level)")
        if cfg != "MCDeterminism.cfg":
            c.cov["design_position_only_sort_refuted_by_tlc"] = bool(res.invariant_violated)

    # scenario -> (description, project writer)
    def proj(root, extra="", loc="none", kind="semantic", v0_extra=""):
        cwd, args = cu.write_project(root, TARGETS, False, loc, kind, extra_main_model=extra)
        if v0_extra:
            with open(os.path.join(root, "v0", "model.yml"), "a") as f:
                f.write(v0_extra)
        return cwd, args

    V0_MORE = RICH.replace("Imp1.T1", "Imp1.T1")      # the previous version had all of it: removing it now yields several warnings
    scenarios = [
        ("valid-rich", "generate", lambda r: proj(r, RICH)),
        ("valid-many-open-unions", "generate", lambda r: proj(r, RICH + MANY)),
        ("valid-rich-validate", "validate", lambda r: proj(r, RICH)),
        ("removed-protocols-and-types", "generate", lambda r: proj(r, "", v0_extra=V0_MORE)),
        ("changed-definitions", "generate", lambda r: proj(r, RICH.replace("t2: T2*", "t2: T2*\n    t3: T1?").replace("values: [a, b, c]", "values: [a, b, c]").replace("[int, string, float]", "[int, string, float, bool]"), v0_extra=V0_MORE)),
        ("aliases-in-changed-steps", "generate", lambda r: proj(r, ALIASES_NEW, v0_extra=ALIASES)),
        ("invalid-many-errors", "validate", lambda r: proj(r, RICH + BAD_ENUM)),
        ("invalid-many-errors-generate", "generate", lambda r: proj(r, BAD_ENUM)),
        ("invalid-import-and-main", "validate", lambda r: proj(r, BAD_ENUM, "import2", "semantic")),
        ("invalid-version", "validate", lambda r: proj(r, RICH, "version", "semantic")),
        ("breaking-evolution", "validate", lambda r: proj(r, RICH, "evolution")),
    ]

    trace_lines = []
    config_line = lambda cmd: {"event": "Config", "closure": ["Main", "Imp1", "Imp2"], "labels": ["v0"], "cmd": cmd}

    def work(sc_):
        name, cmd, writer = sc_
        root = os.path.join(sc, "s-" + name)
        os.makedirs(root, exist_ok=True)
        cwd, args = writer(root)
        outs = cu.out_dirs(root, TARGETS, False)
        runs, lines = [], []
        for k in range(nruns):
            shutil.rmtree(os.path.join(root, "out"), ignore_errors=True)
            rc, o, e, ev = cu.run_yardl(yardl, cmd, cwd, home, args, os.path.join(root, "trace.ndjson"))
            runs.append({"rc": rc, "stdout": norm(o, root), "stderr": norm(e, root), "tree": tree_hash(outs)})
            lines += cu.trace_lines(config_line(cmd), ev, rc)
        idem = None
        if cmd == "generate" and runs[-1]["rc"] == 0:
            before = {t: snapshot_tree(d) for t, d in outs.items()}
            rc, o, e, ev = cu.run_yardl(yardl, cmd, cwd, home, args, os.path.join(root, "trace.ndjson"))
            after = {t: snapshot_tree(d) for t, d in outs.items()}
            lines += cu.trace_lines(config_line(cmd), ev, rc, second_run=True)
            idem = {"rc": rc, "touched": sorted(t + "/" + k for t in outs for k in set(before[t]) | set(after[t]) if before[t].get(k) != after[t].get(k)),
                    "rewrites": sum(1 for x in ev if x["event"] == "WriteFile" and x.get("wrote"))}
        return name, cmd, runs, idem, lines

    results = pmap(work, scenarios, jobs=len(scenarios))
    for name, cmd, runs, idem, lines in results:
        trace_lines += lines
        c.cov["traces_validated_against_impl"] += len(runs) + (1 if idem else 0)
        c.count(name, nontrivial=True)
        first = runs[0]
        if name.startswith(("valid-", "aliases-")) and first["rc"] != 0:
            raise Inconclusive("scenario %s is meant to be a valid package but `yardl %s` rejects it: %s" % (name, cmd, first["stderr"][-300:]))
        if any(r["rc"] not in (0, 1) for r in runs):
            c.violation("C12:%s:crash" % name, "exit status outside {0,1}: %s" % sorted(set(r["rc"] for r in runs)), {"scenario": name, "stderr": runs[0]["stderr"][-500:]})
            continue
        for what in ("rc", "stdout", "stderr", "tree"):
            vals = [json.dumps(r[what], sort_keys=True) for r in runs]
            if len(set(vals)) > 1:
                a, b = sorted(set(vals))[:2]
                diff = ""
                if what in ("stderr", "stdout"):
                    la, lb = json.loads(a).splitlines(), json.loads(b).splitlines()
                    d = [i for i in range(min(len(la), len(lb))) if la[i] != lb[i]]
                    diff = " first differing line: %r vs %r" % (la[d[0]][-160:], lb[d[0]][-160:]) if d else " (different length)"
                elif what == "tree":
                    ta, tb = json.loads(a), json.loads(b)
                    diff = " differing files: %s" % sorted(k for k in set(ta) | set(tb) if ta.get(k) != tb.get(k))[:5]
                c.violation("C12:%s:nondeterministic-%s" % (name, what), "%d runs of `yardl %s` on the same package gave %d different %s.%s" % (
                    len(runs), cmd, len(set(vals)), {"rc": "exit codes", "stdout": "standard outputs", "stderr": "diagnostics", "tree": "generated trees"}[what], diff),
                    {"scenario": name, "variants": sorted(set(vals))[:2]})
                break
        if idem and (idem["touched"] or idem["rc"] != 0):
            c.violation("C12:%s:not-idempotent" % name, "regenerating the unchanged package touched %s (exit %s, %d rewrites)" % (idem["touched"][:5], idem["rc"], idem["rewrites"]),
                        {"scenario": name, "idem": idem})

    # ---- in-place regeneration after an edit equals a fresh generation of the edited package
    edits = [("remove-last-protocol", RICH, RICH[:RICH.index("Q3: !protocol")]),
             ("remove-field", RICH, RICH.replace("    o: Rec?\n", "")),
             ("shorten-enum", RICH, RICH.replace("values: [a, b, c]", "values: [a, b]")),
             ("add-protocol", RICH[:RICH.index("Q3: !protocol")], RICH)]

    def editwork(ed):
        name, a, b = ed
        r1, r2 = os.path.join(sc, "e1-" + name), os.path.join(sc, "e2-" + name)
        for r in (r1, r2):
            os.makedirs(r, exist_ok=True)
        cwd, args = proj(r1, a)
        rc, o, e, ev = cu.run_yardl(yardl, "generate", cwd, home, args)
        cwd, args = proj(r1, b)
        rc1, o, e1, ev = cu.run_yardl(yardl, "generate", cwd, home, args)
        cwd2, args2 = proj(r2, b)
        rc2, o, e2, ev = cu.run_yardl(yardl, "generate", cwd2, home, args2)
        t1, t2 = tree_hash(cu.out_dirs(r1, TARGETS, False)), tree_hash(cu.out_dirs(r2, TARGETS, False))
        differ = sorted(k for k in t2 if t1.get(k) != t2[k])
        extra = sorted(k for k in t1 if k not in t2)
        return name, rc, rc1, rc2, differ, extra, e1[-300:]

    for name, rc, rc1, rc2, differ, extra, err in pmap(editwork, edits, jobs=len(edits)):
        c.cov["traces_validated_against_impl"] += 3
        c.count("edit-" + name, nontrivial=True)
        if (rc, rc1, rc2) != (0, 0, 0):
            c.violation("C12:edit-%s:exit" % name, "generation of a valid package failed (%s,%s,%s): %s" % (rc, rc1, rc2, err), {"edit": name})
        elif differ:
            c.violation("C12:edit-%s:stale-content" % name, "after editing the model and regenerating in place, %d generated files differ from a fresh generation of the same package: %s" % (
                len(differ), differ[:6]), {"edit": name, "differ": differ})
        elif extra:
            c.note("edit %s: files left over from the previous model (not asserted): %s" % (name, extra[:5]))

    # ---- idempotence at the level of hook events: the second run's trace has no wrote=true (PipelineTrace.tla, Exit.second_run)
    tdir = scratch("verif-c12-trace-")
    tf = os.path.join(tdir, "trace.ndjson")
    with open(tf, "w") as f:
        for x in trace_lines:
            f.write(json.dumps(x) + "\n")
    tres = tlc("PipelineTrace", cfg="PipelineTrace.cfg", timeout=1800, workers=1, env={"VERIF_TRACE": tf})
    c.add_tlc(tres)
    m = re.search(r'<<"HWM", (\d+), "OF", (\d+)>>', tres.out)
    if not m:
        raise Inconclusive("trace validation produced no high-water mark")
    if m.group(1) != m.group(2):
        hwm = int(m.group(1))
        c.violation("C12:trace:%s" % trace_lines[hwm].get("event"), "hook trace rejected by PipelineTrace.tla at line %d: %s" % (hwm, json.dumps(trace_lines[max(0, hwm - 2):hwm + 1])),
                    {"lines": trace_lines[max(0, hwm - 30):hwm + 2]})
    c.cov["trace_events"] = len(trace_lines)
    c.sample({"scenario": "removed-protocols-and-types", "runs": nruns, "compared": ["exit status", "stdout", "stderr", "sha256 of every generated file"]})
    c.sample({"scenario": "invalid-many-errors", "model_addition": BAD_ENUM})
    c.assumptions += ["each run is a fresh process (Go randomises map iteration per process)", "absolute paths in diagnostics are normalised"]
    c.finish(rule="Determinism.tla: TLC explores every collection order of diagnostics sharing a position and checks that the modelled sort makes "
                  "the printed order unique; binding: %d fresh-process runs of validate/generate on %d packages built to populate the tool's maps "
                  "(union arities, enums with duplicate values, many removed/changed definitions across versions, unchanged aliases inside changed steps, errors in several files) must agree "
                  "byte for byte; an unchanged package regenerated in place rewrites nothing; a package edited and regenerated in place equals its "
                  "fresh generation; distinct = scenarios" % (nruns, len(scenarios)))


main_wrapper(main)
