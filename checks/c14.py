#!/usr/bin/env python3
"""C14 - all target languages follow the same serialization plan.  See DESIGN.md section 3 (C14)."""
import os, sys, json
sys.path.insert(0, os.path.join(os.path.dirname(os.path.abspath(__file__)), "..", "lib"))
from common import *
import wireengine as we, wirelib, planx


def main():
    c = Check("C14", "model_checking")
    sc = scratch("verif-c14-")
    yardl = build_yardl(sc)
    home = os.path.join(sc, "home")
    thorough = c.tier == "thorough"
    cases, _ = we.export_cases(1, tier=c.tier)
    m = 7 if thorough else 40
    cases2, _ = we.export_cases(2, mod=m, rem=(c.seed + 13) % m, tier=c.tier)
    c.cov["states"] = len(cases) + len(cases2)
    c.cov["transitions"] = len(cases) + len(cases2)
    types = we.group_types(cases + cases2)
    c.rng.shuffle(types)
    pkgs = []
    for i in range(0, len(types), 24):
        p = we.Package(len(pkgs), types[i:i + 24], sc, ndjson=False)
        p.style = {"generics": ["none", "local", "imported"][p.idx % 3], "shorthand": p.idx % 2 == 1, "optional": "question", "prim_alias": p.idx % 4 == 1}
        pkgs.append(p)

    def prep(p):
        # python + matlab only: this check reads generated text
        os.makedirs(os.path.join(p.root, "model"), exist_ok=True)
        p.write_model()
        man = os.path.join(p.root, "model", "_package.yml")
        txt = open(man).read()
        txt = txt[:txt.index("cpp:")] + "python:\n  outputDir: ../py\nmatlab:\n  outputDir: ../matlab\n"
        open(man, "w").write(txt)
        rc, o, e = run([yardl, "generate"], cwd=os.path.join(p.root, "model"), env=yardl_env(home), timeout=120)
        if rc != 0:
            p.problem = "yardl generate failed: " + e[-500:]
            return p
        p.ok = True
        return p
    pmap(prep, pkgs, jobs=NCPU)
    bad = [p for p in pkgs if not p.ok]
    for p in bad:
        c.note("package %d unusable: %s" % (p.idx, (p.problem or "")[:300]))
    if len(bad) > len(pkgs) // 4:
        raise Inconclusive("too many unusable packages")

    extract_failures = 0
    for p in pkgs:
        if not p.ok:
            continue
        model = open(os.path.join(p.root, "model", "model.yml")).read()
        try:
            pyroot = os.path.join(p.root, "py")
            mod = [d for d in os.listdir(pyroot) if os.path.isdir(os.path.join(pyroot, d))][0]
            imported = {}
            for sub in os.listdir(os.path.join(pyroot, mod)):
                bp = os.path.join(pyroot, mod, sub, "binary.py")
                if os.path.isdir(os.path.join(pyroot, mod, sub)) and os.path.exists(bp):
                    imported[sub] = planx.PyPlans(open(bp).read())
            pyp = planx.PyPlans(open(os.path.join(pyroot, mod, "binary.py")).read(), imported)
            py_steps = pyp.step_exprs("BinaryPWriter")
            mroot = os.path.join(p.root, "matlab")
            nsdir = [d for d in os.listdir(mroot) if d.startswith("+") and d not in ("+yardl", "+lib")]
            mp = planx.MatlabPlans(os.path.join(mroot, nsdir[0]))
            m_steps = mp.step_exprs(os.path.join(mroot, nsdir[0], "+binary", "PWriter.m"))
        except (planx.ExtractError, IndexError, KeyError, ValueError, OSError) as e:
            extract_failures += 1
            c.note("package %d: extraction failed (%s)" % (p.idx, str(e)[:200]))
            continue
        for s in p.steps:
            spec = s["cases"][0]["plan"]
            if s["stream"]:
                spec = {"n": "Stream", "a": [spec], "k": []}
            for lang, steps, norm in (("python", py_steps, pyp.norm), ("matlab", m_steps, mp.norm)):
                c.count((we.type_class(s["t"]), lang), nontrivial=True)
                c.cov["traces_validated_against_impl"] += 1
                expr = steps.get(s["name"])
                if expr is None:
                    extract_failures += 1
                    continue
                try:
                    got = norm(planx.parse(expr))
                except planx.ExtractError as e:
                    extract_failures += 1
                    c.note("package %d step %s (%s): %s" % (p.idx, s["name"], lang, str(e)[:160]))
                    continue
                d = planx.diff(spec, got)
                if d:
                    c.violation("C14:%s:%s" % (lang, we.type_class(s["t"])), "%s backend, step of type %s: %s" % (lang, we.type_class(s["t"]), d),
                                {"language": lang, "step": s["name"], "expression": expr[:1500], "spec_plan": spec, "extracted_plan": got, "model": model[:3000]})
    # ---- the Python backend is also *executed* on spec-composed streams: a plan is not only what the construction expressions say
    #      (union indices, array headers and the like are decided inside the runtime classes)
    def execwork(p):
        out = []
        if not p.ok:
            return out
        p.langs = ("py",)
        p.pymod = [d for d in os.listdir(os.path.join(p.root, "py")) if os.path.isdir(os.path.join(p.root, "py", d))][0]
        p.schema = wirelib.extract_schema_py(open(os.path.join(p.root, "py", p.pymod, "protocols.py")).read(), p.proto)
        for r in range(1, p.n_runs(6 if thorough else 4) + 1):
            vals = p.run_values(r, False)
            out.append((p, r, we.leg(p, "py", "binary", "binary", vals, "plan-r%d" % r, block=[None, 1, 2][r % 3])))
            # ... and the JSON plan (JsonPlan of Ndjson.tla: which unions carry tags, which record fields are omitted, maps as objects
            # or pair lists): the spec's NDJSON text read and re-written by the generated Python NDJSON code
            jvals = p.run_values(r, True)
            if jvals is not None:
                out.append((p, -r, we.leg(p, "py", "ndjson", "ndjson", jvals, "jplan-r%d" % r)))
        return out
    for p, r, rr in [x for lst in pmap(execwork, pkgs) for x in lst]:
        c.cov["traces_validated_against_impl"] += 1
        c.count(("exec", p.idx, r), nontrivial=True)
        if not rr["ok"]:
            st = we.blame_step(p, rr["msg"])
            c.violation("C14:python-%sexec:%s" % ("json-" if r < 0 else "", we.type_class(st["t"]) if st else "?"),
                        ("the Python NDJSON backend does not follow the JSON plan: " if r < 0 else "the Python backend does not lay out the value as the plan prescribes: ") + rr["msg"][:300],
                        {"run": r, "model": open(os.path.join(p.root, "model", "model.yml")).read()[:3000], "stderr": rr.get("stderr")})
    # ---- the C++ backend decides part of its plan in generated code that cannot be read off a construction expression: whether a record
    #      (and containers of it) is copied as raw memory or field by field.  Records and containers of records are therefore executed in C++.
    rec_types = [(t, cs) for t, cs in types if "rec(" in we.type_class(t) and not we.cpp_unbuildable(t)]
    rec_types = rec_types[:(120 if thorough else 40)]
    cpkgs = we.make_packages(rec_types, 20, os.path.join(sc, "cpp"), ndjson=False) if rec_types else []
    for i, q in enumerate(cpkgs):
        q.style = {"generics": "none", "shorthand": i % 2 == 1, "optional": "question"}
    cnotes = []
    we.prepare(cpkgs, yardl, home, langs=("cpp",), notes=cnotes)
    for n in cnotes:
        c.note(n)

    def cppwork(q):
        out = []
        if not q.ok:
            return out
        for r in range(1, q.n_runs(4) + 1):
            vals = q.run_values(r, False)
            out.append((q, r, we.leg(q, "cpp", "binary", "binary", vals, "cplan-r%d" % r, block=[None, 1, 2][r % 3], bufsize=[1, 2][r % 2])))
        return out
    for q, r, rr in [x for lst in pmap(cppwork, cpkgs) for x in lst]:
        c.cov["traces_validated_against_impl"] += 1
        c.count(("cpp-exec", q.idx, r), nontrivial=True)
        if not rr["ok"]:
            st = we.blame_step(q, rr["msg"])
            c.violation("C14:cpp-exec:%s" % (we.type_class(st["t"]) if st else "?"), "the C++ backend does not lay out the value as the plan prescribes: " + rr["msg"][:300],
                        {"run": r, "model": open(os.path.join(q.root, "model", "model.yml")).read()[:3000], "stderr": rr.get("stderr")})
    c.cov["cpp_executed_record_types"] = len(rec_types)
    c.cov["extraction_failures"] = extract_failures
    if extract_failures > max(5, c.cov["traces_validated_against_impl"] // 10):
        raise Inconclusive("the extractor does not understand the generated code any more (%d failures)" % extract_failures)
    for t, cs in types[:3]:
        c.sample({"type": we.type_class(t), "plan": cs[0]["plan"]})
    c.assumptions += ["Python and MATLAB backends are compared by reading the serializer construction expressions in the generated text (MATLAB cannot be "
                      "executed here); the C++ and Python backends are additionally *executed* against the same specification by C01/C03",
                      "MATLAB lists fixed array dimensions in reverse (column-major storage); the extractor reverses them back"]
    c.finish(rule="Plan.tla: TLC computes Plan(t) for every type of the bounded universe and checks PlanMatchesEnc (interpreting the plan reproduces "
                  "Wire.tla's bytes); for every protocol step the serializer construction expression of the generated Python binary module and of "
                  "the generated MATLAB classes (record serializers expanded, generic parameters substituted) is normalised and compared with the "
                  "plan; distinct = (type shape, backend)")


main_wrapper(main)
