#!/usr/bin/env python3
"""C09 - the language rules are enforced wherever a violation occurs.  See DESIGN.md section 3 (C09)."""
import os, sys, json, shutil, threading, itertools
sys.path.insert(0, os.path.join(os.path.dirname(os.path.abspath(__file__)), "..", "lib"))
from common import *
import cliutil as cu

HOST = """HostG<T>: !record
  fields:
    g: T
HostRec: !record
  fields:
    plain: int
HostProto: !protocol
  sequence:
    ok: int
"""

BAD = {
    "unknown_type": "NoSuchType",
    "generic_too_many_args": "HostG<int, int>",
    "generic_missing_args": "HostG",
    "stream_outside_step": "!stream {items: int}",
    "map_key_record": "!map {keys: HostRec, values: int}",
    "map_key_vector": "!map {keys: !vector {items: int}, values: int}",
    "union_nested": "[int, [float, string]]",
    "union_null_not_first": "[int, null]",
    "union_duplicate_case": "[int, int32]",
    "union_only_null": "[null]",
    "union_empty": "[]",
    "union_bad_tag": "!union {BadTag: int, ok: float}",
    "array_partial_lengths": "!array {items: int, dimensions: {x: 2, y: }}",
    "array_duplicate_dim": "!array {items: int, dimensions: [x, x]}",
    "array_bad_dim_name": "!array {items: int, dimensions: [BadDim]}",
    "reference_to_protocol": "HostProto",
}

POS = {
    "field": "V%(k)s: !record {fields: {f: %(bad)s}}",
    "generic_argument": "V%(k)s: !generic {name: HostG, args: [%(bad)s]}",
    "vector_item": "V%(k)s: !vector {items: %(bad)s}",
    "map_value": "V%(k)s: !map {keys: string, values: %(bad)s}",
    "union_case": "V%(k)s: !union {a: int, b: %(bad)s}",
    "protocol_step": "V%(k)s: !protocol {sequence: {s: %(bad)s}}",
    "stream_item": "V%(k)s: !protocol {sequence: {s: !stream {items: %(bad)s}}}",
    "alias": "V%(k)s: %(bad)s",
    "array_item": "V%(k)s: !array {items: %(bad)s}",
    "optional": "V%(k)s: [null, %(bad)s]",
}

DEF = {
    "duplicate_type_name": "HostRec: float",
    "type_name_casing": "badType%(k)s: int",
    "field_name_casing": "D%(k)s: !record {fields: {BadField: int}}",
    "duplicate_field": "D%(k)s: !record {fields: {a: int, a: float}}",
    "step_name_casing": "D%(k)s: !protocol {sequence: {BadStep: int}}",
    "duplicate_step": "D%(k)s: !protocol {sequence: {s: int, s: float}}",
    "enum_symbol_casing": "D%(k)s: !enum {values: [BadSym]}",
    "enum_duplicate_symbol": "D%(k)s: !enum {values: [a, a]}",
    "enum_duplicate_value": "D%(k)s: !enum {values: {a: 1, b: 1}}",
    "enum_value_out_of_range": "D%(k)s: !enum {base: uint8, values: {a: 256}}",
    "enum_base_not_integer": "D%(k)s: !enum {base: float, values: [a]}",
    "flags_value_out_of_range": "D%(k)s: !flags {base: uint8, values: {a: 256}}",
    "cyclic_reference": "Cya%(k)s: !record {fields: {c: Cyb%(k)s}}\nCyb%(k)s: !record {fields: {c: Cya%(k)s}}",
    "cyclic_alias": "Caa%(k)s: Cab%(k)s\nCab%(k)s: Caa%(k)s",
    "cyclic_via_generic_argument": "Cyg%(k)s: !record {fields: {child: !generic {name: HostG, args: [[null, Cyg%(k)s]]}}}",
    "cyclic_via_imported_generic": "Cyi%(k)s: !record {fields: {child: !generic {name: %(imp)s.HostG, args: [[null, Cyi%(k)s]]}}}",
    "unused_type_parameter": "D%(k)s<T>: !record {fields: {x: int}}",
    "type_parameter_casing": "D%(k)s<t>: !record {fields: {x: t}}",
    "computed_unknown_name": "D%(k)s: !record {fields: {x: int}, computedFields: {c: nosuch + 1}}",
    "computed_type_error": "D%(k)s: !record {fields: {x: int, s: string}, computedFields: {c: x + s}}",
    "computed_duplicate_name": "D%(k)s: !record {fields: {x: int}, computedFields: {x: 1}}",
    "generic_enum": "D%(k)s<T>: !enum {values: [a]}",
    "generic_protocol": "D%(k)s<T>: !protocol {sequence: {s: T}}",
    "reserved_type_name": "int32: float",
    "type_parameter_out_of_scope": "Tpa%(k)s<Q>: !record {fields: {x: Q}}\nTpb%(k)s<W>: !record {fields: {y: W, z: Q}}",
    "type_parameter_out_of_scope_nested": "Tpc%(k)s<Q>: !record {fields: {x: Q}}\nTpd%(k)s<W>: !map {keys: W, values: !generic {name: HostG, args: [!vector {items: Q}]}}",
    "type_parameter_out_of_scope_plain": "Tpe%(k)s<Q>: !record {fields: {x: Q}}\nTpf%(k)s: !record {fields: {z: Q}}",
    "field_names_not_distinct": "D%(k)s: !record {fields: {xAB: int, xAb: float}}",
    "computed_field_not_distinct": "D%(k)s: !record {fields: {x2B: int}, computedFields: {x2b: 1}}",
    "step_names_not_distinct": "D%(k)s: !protocol {sequence: {sAB: int, sAb: float}}",
    "enum_symbols_not_distinct": "D%(k)s: !flags {values: [vAB, vAb]}",
}

LOC_FILE = {"main": ("main", "model.yml"), "main_second_file": ("main", "extra.yml"), "import1": ("imp1", "model.yml"),
            "import2": ("imp2", "model.yml"), "version": ("v0", "model.yml"), "version_import": ("v0imp", "model.yml")}


IMPORTED_NS = {"main": "Imp1", "import1": "Imp2", "version": "Imp1", "version_import": "Imp2"}


def fragment(v, k):
    if v["pos"] == "definition":
        return DEF[v["rule"]] % {"k": k, "imp": IMPORTED_NS.get(v["loc"], "Imp1")}
    return POS[v["pos"]] % {"k": k, "bad": BAD[v["rule"]]}


def write_case(root, violations):
    cwd, args = cu.write_project(root, ["json"], False)
    # every package gets the host definitions; main gets a second file
    extra = {loc: [] for loc in LOC_FILE}
    for k, v in enumerate(violations):
        extra[v["loc"]].append(fragment(v, "x%d" % k))
    for loc, (d, f) in LOC_FILE.items():
        p = os.path.join(root, d, f)
        host = HOST.replace("Host", "Host" + d.capitalize().replace("0", "Zero")) if False else HOST
        if f == "extra.yml":
            text = "ExtraRec: !record\n  fields:\n    e: int\n"
            open(p, "w").write(text + "\n".join(extra[loc]) + "\n")
        else:
            with open(p, "a") as fh:
                fh.write(host + "\n".join(extra[loc]) + "\n")
    return cwd, args


def main():
    c = Check("C09", "model_checking")
    sc = scratch("verif-c09-")
    yardl = build_yardl(sc)
    home = os.path.join(sc, "home")
    res = tlc("Rules", cfg="MCRules.cfg", timeout=900, workers=NCPU)
    c.add_tlc(res)
    cases = tlc_cases(res.out)
    singles = [x for x in cases if len(x["violations"]) <= 1]
    doubles = [x for x in cases if len(x["violations"]) == 2]
    c.rng.shuffle(doubles)
    cases = singles + doubles[:(6000 if c.tier == "thorough" else 400)]

    tl = threading.local()
    counter = itertools.count()

    def work(case):
        if not hasattr(tl, "dir"):
            tl.dir = os.path.join(sc, "w%d" % next(counter))
        root = tl.dir
        shutil.rmtree(root, ignore_errors=True)
        os.makedirs(root)
        cwd, args = write_case(root, case["violations"])
        res = {}
        frag_lines = []
        if len(case["violations"]) == 1:
            v0 = case["violations"][0]
            d, fname = LOC_FILE[v0["loc"]]
            text = open(os.path.join(root, d, fname)).read().split("\n")
            frag = fragment(v0, "x0").split("\n")
            frag_lines = [i + 1 for i, l in enumerate(text) if l in frag]
        for cmd in ("validate", "generate"):
            rc, o, e, ev = cu.run_yardl(yardl, cmd, cwd, home, args)
            res[cmd] = {"frag_lines": frag_lines, "rc": rc, "stderr": e.replace(root + "/", "")[-1500:], "wrote": os.path.exists(os.path.join(root, "out", "json", "model.json"))}
            shutil.rmtree(os.path.join(root, "out"), ignore_errors=True)
        return case, res

    for case, res in pmap(work, cases):
        vs = case["violations"]
        c.count(json.dumps(vs, sort_keys=True), nontrivial=bool(vs))
        c.cov["traces_validated_against_impl"] += 1
        desc = "; ".join("%s at %s in %s" % (v["rule"], v["pos"], v["loc"]) for v in vs) or "no violation"
        for cmd, r in res.items():
            key = "C09:%s" % ("+".join(sorted("%s:%s:%s" % (v["rule"], v["pos"], "imported" if v["loc"].startswith("import") else "version" if v["loc"].startswith("version") else "main") for v in vs)) or "valid")
            replay = {"violations": vs, "command": cmd, "observed": r, "fragments": [fragment(v, "x%d" % k) for k, v in enumerate(vs)]}
            if r["rc"] not in (0, 1):
                c.violation(key + ":crash", "`yardl %s` exit status %s on a package with [%s]: %s" % (cmd, r["rc"], desc, r["stderr"][:200]), replay)
                break
            if case["required"] == "accept":
                if r["rc"] != 0:
                    c.violation(key + ":rejected", "the valid base closure was rejected by `yardl %s`: %s" % (cmd, r["stderr"][-300:]), replay)
                    break
            else:
                if r["rc"] == 0:
                    c.violation(key + ":accepted", "`yardl %s` accepted a package closure with [%s]%s" % (cmd, desc, " and wrote output" if r["wrote"] else ""), replay)
                    break
                errs = [l for l in r["stderr"].splitlines() if "ERR" in l or l.strip().startswith(tuple(case["files"]))]
                # ... with the line of the offending construct (each fragment occupies known lines of its file)
                if len(vs) == 1 and any(f in r["stderr"] for f in case["files"]):
                    lines_ok = r["frag_lines"]
                    import re as _re
                    got = [int(m.group(1)) for m in _re.finditer(_re.escape(case["files"][0]) + r":(\d+):", r["stderr"])]
                    if got and lines_ok and not any(g in lines_ok for g in got):
                        c.violation(key + ":wrong-line", "`yardl %s` reports [%s] at line(s) %s of %s; the construct is on line %s" % (
                            cmd, desc, sorted(set(got)), case["files"][0], lines_ok), replay)
                        break
                if not any(f in r["stderr"] for f in case["files"]):
                    c.violation(key + ":file-not-named", "`yardl %s` rejected [%s] but no error names %s: %s" % (cmd, desc, case["files"], r["stderr"][-300:]), replay)
                    break
    # ---- Cross.tla: a type that breaks one rule, at every kind of use site (record field, container argument, union case, generic
    # argument written as a string or as a node, alias, protocol step and below it, stream item); must be rejected wherever it is used
    fcross = os.path.join(sc, "cross.ndjson")
    tlc_eval("Cross", timeout=600, workdir=scratch("verif-c09-tlcx-"), env={"VERIF_OUT": fcross})
    cross = [json.loads(l) for l in open(fcross) if l.strip()]
    cross = [x for x in cross if x["must_reject"] or x["must_accept"]]
    c.cov["tlc_cross_must_reject"] = sum(1 for x in cross if x["must_reject"])

    def workx(x):
        if not hasattr(tl, "dir"):
            tl.dir = os.path.join(sc, "w%d" % next(counter))
        root = tl.dir
        shutil.rmtree(root, ignore_errors=True)
        os.makedirs(os.path.join(root, "main"))
        open(os.path.join(root, "main", "_package.yml"), "w").write("namespace: Cross\njson:\n  outputDir: ../out/json\n")
        open(os.path.join(root, "main", "m.yml"), "w").write(x["text"])
        rc, o, e, ev = cu.run_yardl(yardl, "validate", os.path.join(root, "main"), home, [])
        return x, rc, e.replace(root + "/", "")[-800:]

    for x, rc, err in pmap(workx, cross):
        c.count("cross:%s@%s" % (x["what"], x["site"]), nontrivial=True)
        key = "C09:cross:%s@%s" % (x["what"], x["site"])
        replay = {"model": x["text"], "rule": x["rule"], "command": "validate", "exit": rc, "stderr": err}
        if x["must_accept"] and rc != 0:
            raise Inconclusive("Cross.tla control %s@%s is rejected by yardl: %s" % (x["what"], x["site"], err[-300:]))
        if x["must_reject"]:
            if rc == 0:
                c.violation(key + ":accepted", "`yardl validate` accepted a model whose type breaks the '%s' rule (%s) used at site '%s'" % (x["rule"], x["what"], x["site"]), replay)
            elif rc == 1 and "m.yml" not in err:
                c.violation(key + ":file-not-named", "`yardl validate` rejected %s at %s but no error names m.yml: %s" % (x["what"], x["site"], err[-200:]), replay)
    for x in singles[1:4]:
        c.sample({"violations": x["violations"], "fragment": [fragment(v, "x%d" % k) for k, v in enumerate(x["violations"])], "must_name": x["files"]})
    c.assumptions += ["each (rule, position) has one concrete YAML fragment (checks/c09.py tables); a rule could be violated by other spellings too",
                      "verdict read from exit status and from the file names on stderr, never from message wording"]
    c.finish(rule="Rules.tla enumerates (rule x type position x package location) for %d rules, 10 type positions and 6 locations (main file, second "
                  "file, import level 1/2, previous version, import of a previous version), singly (all) and in pairs (seeded sample); each closure is "
                  "concretised and given to `yardl validate` and `yardl generate`; Cross.tla: every rule-breaking type expression x every use site of a type must be rejected; distinct = violation sets" % (len(BAD) + len(DEF)),
             exhaustive=False)


main_wrapper(main)
