#!/usr/bin/env python3
"""C11 - generation is all-or-nothing with respect to validation.  See DESIGN.md section 3 (C11)."""
import os, sys, json, shutil, threading, itertools
sys.path.insert(0, os.path.join(os.path.dirname(os.path.abspath(__file__)), "..", "lib"))
from common import *
import cliutil as cu


def main():
    c = Check("C11", "model_checking")
    sc = scratch("verif-c11-")
    yardl = build_yardl(sc)
    home = os.path.join(sc, "home")
    res = tlc("Pipeline", cfg="MCPipeline.cfg", timeout=600)
    if res.invariant_violated:
        c.note("TLC: %s violated in Pipeline (model-level)" % res.violated_names())
    c.add_tlc(res)
    cases = tlc_cases(res.out)
    if c.tier != "thorough":
        # quick: every (location, kind, command, output state) with a seeded choice of target sets
        groups = {}
        for x in cases:
            k = (x["cfg"]["loc"], x["cfg"]["kind"], x["cfg"]["cmd"], x["cfg"]["out"], x["cfg"]["uses"], x["cfg"]["nver"])
            groups.setdefault(k, []).append(x)
        cases = []
        for k in sorted(groups):
            g = sorted(groups[k], key=lambda x: json.dumps(x["cfg"]["targets"]))
            c.rng.shuffle(g)
            cases += g[:3]

    tl = threading.local()
    counter = itertools.count()

    def work(case):
        if not hasattr(tl, "dir"):
            tl.dir = os.path.join(sc, "w%d" % next(counter))
        root = tl.dir
        shutil.rmtree(root, ignore_errors=True)
        os.makedirs(root)
        cfg = case["cfg"]
        targets = cfg["targets"]
        inside = cfg["out"] == "inside_pkg"
        trace = os.path.join(root, "trace.ndjson")
        lines = []
        config_line = {"event": "Config", "closure": ["Main", "Imp1", "Imp2"], "labels": ["v0", "v1"][:cfg["nver"]], "cmd": cfg["cmd"]}
        outs = cu.out_dirs(root, targets, inside)
        if cfg["out"] == "populated":
            # a previous good run populates the output directories (plus a stale file that a later run must not touch either)
            cwd, args = cu.write_project(root, targets, inside, uses=cfg["uses"], nver=cfg["nver"])
            rc0, o, e, ev = cu.run_yardl(yardl, "generate", cwd, home, args, trace)
            lines += cu.trace_lines(config_line, ev, rc0)
            if rc0 != 0:
                return case, {"base_rejected": "exit %s: %s" % (rc0, e[-400:])}, lines
            for d in outs.values():
                open(os.path.join(d, "stale.txt"), "w").write("left over\n")
        cwd, args = cu.write_project(root, targets, inside, cfg["loc"], cfg["kind"], uses=cfg["uses"], nver=cfg["nver"])
        before = {t: snapshot_tree(d) for t, d in outs.items()}
        pkg_before = snapshot_tree(os.path.join(root, "main")) if inside else None
        rc, o, e, ev = cu.run_yardl(yardl, cfg["cmd"], cwd, home, args, trace)
        after = {t: snapshot_tree(d) for t, d in outs.items()}
        if cfg["loc"] in ("reserved_namespace", "import_reserved_namespace"):       # the renamed package appears under its new name in the trace
            ren = {"Main": "Yardl"} if cfg["loc"] == "reserved_namespace" else {"Imp2": "Yardl"}
            config_line = dict(config_line, closure=[ren.get(n, n) for n in config_line["closure"]])
        lines += cu.trace_lines(config_line, ev, rc)
        obs = {"rc": rc, "stderr": e[-500:], "changed": sorted(t for t in outs if before[t] != after[t]),
               "exists_after": sorted(t for t in outs if after[t])}
        if rc != 0 and inside and pkg_before is not None:
            pkg_after = snapshot_tree(os.path.join(root, "main"))
            obs["pkg_changed"] = sorted(set(k for k in set(pkg_before) | set(pkg_after) if pkg_before.get(k) != pkg_after.get(k)) - {"trace.ndjson"})
        return case, obs, lines

    results = pmap(work, cases)
    all_lines = []
    for case, obs, lines in results:
        cfg = case["cfg"]
        all_lines += lines
        if "base_rejected" in obs:
            # the same valid project is accepted in the loc="none" configurations; here it was refused (or the tool crashed)
            c.violation("C11:generate:none:valid-rejected", "the valid project (targets %s) was not generated: %s" % (cfg["targets"], obs["base_rejected"][-300:]),
                        {"cfg": dict(cfg, loc="none"), "observed": obs})
            continue
        c.count(json.dumps(cfg, sort_keys=True), nontrivial=cfg["loc"] != "none")
        key = "C11:%s:%s:%s" % (cfg["cmd"], cfg["loc"], cfg["kind"])
        replay = {"cfg": cfg, "observed": obs}
        if obs["rc"] not in (0, 1):
            c.violation(key + ":crash", "exit status %s: %s" % (obs["rc"], obs["stderr"][-200:]), replay)
        elif case["exit"] == "1":
            if obs["rc"] == 0:
                c.violation(key + ":exit-zero", "package with an error in [%s] (%s) was accepted (exit 0)%s" % (
                    cfg["loc"], cfg["kind"], "; files written for " + ",".join(obs["exists_after"]) if cfg["cmd"] == "generate" and obs["exists_after"] else ""), replay)
            elif obs["changed"] or obs.get("pkg_changed"):
                c.violation(key + ":output-touched", "exit %s but output directories changed: %s %s" % (obs["rc"], obs["changed"], obs.get("pkg_changed", "")), replay)
        else:
            if obs["rc"] != 0:
                c.violation(key + ":valid-rejected", "valid package rejected: " + obs["stderr"][-200:], replay)
            elif cfg["cmd"] == "generate" and sorted(obs["exists_after"]) != sorted(cfg["targets"]):
                c.violation(key + ":not-written", "exit 0 but outputs exist only for %s of %s" % (obs["exists_after"], cfg["targets"]), replay)

    # ---- trace validation: every run's hook trace must be a behaviour of PipelineTrace.tla
    tdir = scratch("verif-c11-trace-")
    tf = os.path.join(tdir, "trace.ndjson")
    with open(tf, "w") as f:
        for x in all_lines:
            f.write(json.dumps(x) + "\n")
    tres = tlc("PipelineTrace", cfg="PipelineTrace.cfg", timeout=1800, workers=1, env={"VERIF_TRACE": tf})
    c.add_tlc(tres)
    m = re.search(r'<<"HWM", (\d+), "OF", (\d+)>>', tres.out)
    c.cov["traces_validated_against_impl"] = len(results)
    c.cov["trace_events"] = len(all_lines)
    if not m:
        raise Inconclusive("trace validation produced no high-water mark:\n" + tres.out[-1500:])
    hwm, total = int(m.group(1)), int(m.group(2))
    if hwm != total:
        ev = all_lines[hwm] if hwm < len(all_lines) else None
        # find the run the rejected event belongs to
        start = max(i for i in range(hwm + 1) if all_lines[i]["event"] == "Config")
        c.violation("C11:trace:%s" % (ev or {}).get("event"), "hook trace rejected by PipelineTrace.tla at event %d of its run: %s is not enabled after %s" % (
            hwm - start, json.dumps(ev), json.dumps(all_lines[max(start, hwm - 3):hwm])), {"run_trace": all_lines[start:hwm + 3]})
    # self-test of the binding: a write moved before validation must be rejected
    bad = list(all_lines)
    wi = next((i for i, x in enumerate(bad) if x["event"] == "WriteFile"), None)
    if wi is not None:
        vi = max(i for i in range(wi) if bad[i]["event"] == "Validated")
        bad.insert(vi, bad.pop(wi))
        tf2 = os.path.join(tdir, "bad.ndjson")
        with open(tf2, "w") as f:
            for x in bad:
                f.write(json.dumps(x) + "\n")
        t2 = tlc("PipelineTrace", cfg="PipelineTrace.cfg", timeout=1800, workers=1, env={"VERIF_TRACE": tf2})
        m2 = re.search(r'<<"HWM", (\d+), "OF", (\d+)>>', t2.out)
        c.cov["binding_selftest_corrupted_trace_rejected"] = bool(m2 and int(m2.group(1)) != int(m2.group(2)))
        if not c.cov["binding_selftest_corrupted_trace_rejected"]:
            raise Inconclusive("trace spec accepted a trace with a write before validation: the binding is vacuous")
    for x in cases[:3]:
        c.sample(x)
    c.assumptions += ["local directory imports and versions only", "snapshots compare path, sha256, mtime and mode of every file under every configured output directory"]
    c.finish(rule="TLC enumerates (error location x error kind x enabled targets x output directory state x command) and checks the pipeline "
                  "invariants; every configuration is concretised (main package, two nested imports, one or two previous versions with their own imports) and "
                  "run through the real CLI: exit status and before/after snapshots decide, and the hook trace of every run is validated "
                  "against PipelineTrace.tla; distinct = configurations with an injected error", exhaustive=(c.tier == "thorough"))


main_wrapper(main)
