#!/usr/bin/env python3
"""C19 - computed fields: operand-order independent static types, same exact value in every target language.
See DESIGN.md section 3 (C19)."""
import os, sys, json, re, shutil
from fractions import Fraction
sys.path.insert(0, os.path.join(os.path.dirname(os.path.abspath(__file__)), "..", "lib"))
from common import *
import drivers

PER_RECORD = 120
PER_PACKAGE = 960

YARDL_PRIM = {"int8": "int8", "int16": "int16", "int32": "int", "int64": "long", "uint8": "uint8", "uint16": "uint16", "uint32": "uint",
              "uint64": "ulong", "size": "size", "float32": "float", "float64": "double", "complexfloat32": "complexfloat",
              "complexfloat64": "complexdouble"}
PY_ANN = {"yardl.Int8": "int8", "yardl.Int16": "int16", "yardl.Int32": "int32", "yardl.Int64": "int64", "yardl.UInt8": "uint8",
          "yardl.UInt16": "uint16", "yardl.UInt32": "uint32", "yardl.UInt64": "uint64", "yardl.Size": "size", "yardl.Float32": "float32",
          "yardl.Float64": "float64", "yardl.ComplexFloat": "complexfloat32", "yardl.ComplexDouble": "complexfloat64"}


def fmt(e, fields, top=True):
    """yardl source text of a specification expression; every binary sub-expression is parenthesised explicitly"""
    k = e["k"]
    if k == "field":
        return fields[e["i"] - 1]["name"]
    if k == "lit":
        return str(e["n"])
    if k == "neg":
        inner = fmt(e["e"], fields, False)
        s = "-" + (inner if e["e"]["k"] in ("field",) else "(" + fmt(e["e"], fields, True) + ")")
        return s if top else "(" + s + ")"
    s = "%s %s %s" % (fmt(e["l"], fields, False), e["op"], fmt(e["r"], fields, False))
    return s if top else "(" + s + ")"


def shape(e, fields):
    k = e["k"]
    if k == "field":
        p = fields[e["i"] - 1]["p"]
        return "c" if p.startswith("complex") else "f" if p.startswith("float") else "u" if p.startswith("u") or p == "size" else "i"
    if k == "lit":
        return "n"
    if k == "neg":
        return "neg(%s)" % shape(e["e"], fields)
    return "(%s%s%s)" % (shape(e["l"], fields), e["op"], shape(e["r"], fields))


def ekey(e):
    return json.dumps(e, sort_keys=True)


def swap(e):
    if e["k"] != "bin":
        return e
    return {"k": "bin", "op": e["op"], "l": e["r"], "r": e["l"]}


CPP_DRIVER_HEAD = r'''
#include "types.h"
#include <cstdio>
#include <complex>
#include <type_traits>
template <class T> struct TN;
template <> struct TN<int8_t> { static constexpr const char* n = "int8"; };
template <> struct TN<int16_t> { static constexpr const char* n = "int16"; };
template <> struct TN<int32_t> { static constexpr const char* n = "int32"; };
template <> struct TN<int64_t> { static constexpr const char* n = "int64"; };
template <> struct TN<uint8_t> { static constexpr const char* n = "uint8"; };
template <> struct TN<uint16_t> { static constexpr const char* n = "uint16"; };
template <> struct TN<uint32_t> { static constexpr const char* n = "uint32"; };
template <> struct TN<uint64_t> { static constexpr const char* n = "uint64"; };
template <> struct TN<float> { static constexpr const char* n = "float32"; };
template <> struct TN<double> { static constexpr const char* n = "float64"; };
template <> struct TN<std::complex<float>> { static constexpr const char* n = "complexfloat32"; };
template <> struct TN<std::complex<double>> { static constexpr const char* n = "complexfloat64"; };
template <class T> void show(const char* id, T v) {
  if constexpr (std::is_floating_point_v<T>) std::printf("%s %s %.17g 0\n", id, TN<T>::n, (double)v);
  else if constexpr (std::is_signed_v<T>) std::printf("%s %s %lld 0\n", id, TN<T>::n, (long long)v);
  else std::printf("%s %s %llu 0\n", id, TN<T>::n, (unsigned long long)v);
}
template <class T> void show(const char* id, std::complex<T> v) {
  std::printf("%s %s %.17g %.17g\n", id, TN<std::complex<T>>::n, (double)v.real(), (double)v.imag());
}
template <class T> void show_type(const char* id) { std::printf("%s %s ? ?\n", id, TN<T>::n); }
int main() {
'''

PY_DRIVER = r'''
import sys, json, inspect, importlib
from fractions import Fraction
import numpy as np
sys.path.insert(0, sys.argv[1])
mod = importlib.import_module(sys.argv[2])
spec = json.load(open(sys.argv[3]))
NP = {"int8": np.int8, "int16": np.int16, "int32": np.int32, "int64": np.int64, "uint8": np.uint8, "uint16": np.uint16, "uint32": np.uint32,
      "uint64": np.uint64, "size": np.uint64, "float32": np.float32, "float64": np.float64, "complexfloat32": np.complex64,
      "complexfloat64": np.complex128}
out = []
for vi, variant in [(vi, variant) for vi in range(len(spec["valuations"])) for variant in ("native", "numpy")]:
    kw = {}
    for f in spec["valuations"][vi]:
        v = Fraction(f["n"], f["d"])
        if f["p"].startswith("complex"):
            x = complex(float(v), 0.0)
        elif f["p"].startswith("float"):
            x = float(v)
        else:
            x = int(v)
        kw[f["name"]] = NP[f["p"]](x) if variant == "numpy" else x
    for rec, ids in spec["records"].items():
        cls = getattr(mod, rec)
        obj = cls(**kw)
        src = inspect.getsource(cls)
        for cid in ids:
            if cid not in spec["run"][vi]:
                continue
            m = getattr(obj, cid)
            ann = None
            import re
            mm = re.search(r"def %s\(self\) -> ([\w\.\[\]]+):" % cid, src)
            ann = mm.group(1) if mm else "?"
            try:
                import warnings
                with warnings.catch_warnings():
                    warnings.simplefilter("error")
                    v = m()
                if isinstance(v, (complex, np.complexfloating)):
                    re_, im_ = Fraction(float(v.real)), Fraction(float(v.imag))
                elif isinstance(v, (float, np.floating)):
                    re_, im_ = Fraction(float(v)), Fraction(0)
                else:
                    re_, im_ = Fraction(int(v)), Fraction(0)
                out.append({"val": vi, "variant": variant, "id": cid, "ann": ann, "n": str(re_.numerator), "d": str(re_.denominator), "imag0": im_ == 0,
                            "pytype": type(v).__name__})
            except Exception as ex:
                out.append({"val": vi, "variant": variant, "id": cid, "ann": ann, "error": "%s: %s" % (type(ex).__name__, ex)})
json.dump(out, open(sys.argv[4], "w"))
'''


# ---- a reader for the MATLAB expressions (MATLAB cannot be executed here): precedence and associativity as MATLAB defines them
class MatlabExpr:
    CONV = {"int8", "int16", "int32", "int64", "uint8", "uint16", "uint32", "uint64", "single", "double"}

    def __init__(self, text, fieldvals):
        self.toks = re.findall(r"\s*(\d+\.\d+|\d+|self\.\w+|\w+|\.\*|\./|\^|[-+()])", text)
        self.i = 0
        self.fv = fieldvals

    def peek(self):
        return self.toks[self.i] if self.i < len(self.toks) else None

    def take(self):
        t = self.peek()
        self.i += 1
        return t

    def parse(self):
        v = self.additive()
        if self.peek() is not None:
            raise ValueError("trailing %r" % self.peek())
        return v

    def additive(self):
        v = self.mult()
        while self.peek() in ("+", "-"):
            op = self.take()
            r = self.mult()
            v = v + r if op == "+" else v - r
        return v

    def mult(self):
        v = self.unary()
        while self.peek() in (".*", "./"):
            op = self.take()
            r = self.unary()
            v = v * r if op == ".*" else v / r
        return v

    def unary(self):
        # MATLAB: unary minus binds weaker than ^
        if self.peek() == "-":
            self.take()
            return -self.unary()
        return self.power()

    def power(self):
        v = self.atom()
        while self.peek() == "^":          # left associative; the exponent may carry its own unary minus
            self.take()
            neg = False
            if self.peek() == "-":
                self.take()
                neg = True
            r = self.atom()
            if neg:
                r = -r
            if r.denominator != 1 or abs(r) > 16:
                raise OverflowError("exponent")
            v = v ** int(r)
        return v

    def atom(self):
        t = self.take()
        if t == "(":
            v = self.additive()
            if self.take() != ")":
                raise ValueError("expected )")
            return v
        if t in self.CONV:
            if self.take() != "(":
                raise ValueError("expected ( after conversion")
            v = self.additive()
            if self.take() != ")":
                raise ValueError("expected )")
            return v
        if t is not None and t.startswith("self."):
            return self.fv[t[5:]]
        if t is not None and re.fullmatch(r"\d+(\.\d+)?", t):
            return Fraction(t)
        raise ValueError("unexpected token %r" % t)


# ---------------------------------------------------------------- second family: containers, members, casts, switch (Computed2.tla)
def fmt2(e):
    k = e["k"]
    if k == "fld":
        return e["n"]
    if k == "lit":
        return str(e["v"])
    if k == "str":
        return '"%s"' % e["s"]
    if k == "mem":
        return "%s.%s" % (fmt2(e["e"]), e["n"])
    if k == "size":
        return "size(%s)" % fmt2(e["e"])
    if k == "sizedim":
        return "size(%s, %s)" % (fmt2(e["e"]), fmt2(e["a"]))
    if k == "dimindex":
        return "dimensionIndex(%s, %s)" % (fmt2(e["e"]), fmt2(e["a"]))
    if k == "dimcount":
        return "dimensionCount(%s)" % fmt2(e["e"])
    if k == "idx":
        return "%s[%s]" % (fmt2(e["e"]), ", ".join(("%s:%s" % (a["name"], fmt2(a["e"]))) if a["name"] else fmt2(a["e"]) for a in e["args"]))
    if k == "cast":
        inner = fmt2(e["e"])
        return "%s as %s" % (inner if e["e"]["k"] != "bin" else "(" + inner + ")", e["p"])
    if k == "bin":
        def side(x):
            t = fmt2(x)
            return "(" + t + ")" if x["k"] in ("bin", "cast") else t
        return "%s %s %s" % (side(e["l"]), e["op"], side(e["r"]))
    raise ValueError(k)


def field_yaml(name, e, indent="    "):
    if e["k"] != "switch":
        return ["%s%s: %s" % (indent, name, fmt2(e))]
    out = ["%s%s:" % (indent, name), "%s  !switch %s:" % (indent, fmt2(e["t"]))]
    for cs in e["cases"]:
        pat = cs["pat"] + ((" " + cs["var"]) if cs["var"] else "")
        if cs["body"]["k"] == "switch":
            sub = field_yaml(pat, cs["body"], indent + "    ")
            out += sub
        else:
            out.append("%s    %s: %s" % (indent, pat, fmt2(cs["body"])))
    return out


def spec_number(v):
    if "i" in v:
        return Fraction(v["i"])
    if "h" in v:
        return Fraction(v["h"], 2)
    raise ValueError(v)


PY2_DRIVER = r"""
import sys, json, importlib
from fractions import Fraction
import numpy as np
sys.path.insert(0, sys.argv[1])
mod = importlib.import_module(sys.argv[2])
spec = json.load(open(sys.argv[3]))
U = mod.Int32OrFloat32
def conv(name, v):
    if "null" in v:
        return None
    if "tag" in v:
        return U.Int32(v["v"]["i"]) if v["tag"] == "int" else U.Float32(v["v"]["h"] / 2)
    if "i" in v:
        return v["i"]
    if "h" in v:
        return v["h"] / 2
    raise ValueError(v)
objs = []
for val in spec["valuations"]:
    objs.append(mod.R2(arr=np.array([[1, 2, 3], [4, 5, 6]], dtype=np.int32), vec=[4, 5, 6], vv=[[1], [2, 3]], ni=1, ns="y",
                       inner=mod.Inner(q=11, w=1), mp={"a": 1, "b": 2}, f=1.5, i=7, k=40, two=2.0,
                       opt=conv("opt", val["opt"]), un=conv("un", val["un"]), nun=conv("nun", val["nun"]),
                       fa=np.array([[1, 2, 3], [4, 5, 6]], dtype=np.int32), fv=[7, 8, 9], da=np.array([[1, 2], [3, 4]], dtype=np.int32),
                       tr=np.arange(1, 21, dtype=np.int32).reshape(4, 5), nx="x", ga=mod.Gen(x=11), gb=mod.Gen(x=2.5), cnt=300, sm=20000, cv=[300, 250]))
out = []
for j, o in enumerate(objs):
    row = {}
    for cid in spec["ids"]:
        try:
            v = getattr(o, cid)()
            fr = Fraction(float(v)) if isinstance(v, (float, np.floating)) else Fraction(int(v))
            row[cid] = [str(fr.numerator), str(fr.denominator)]
        except Exception as ex:
            row[cid] = "%s: %s" % (type(ex).__name__, ex)
    out.append(row)
with mod.BinaryP2Writer(sys.argv[4]) as w:
    w.write_r(objs)
json.dump(out, open(sys.argv[5], "w"))
"""

CPP2_HEAD = r"""
#include "binary/protocols.h"
#include <cstdio>
#include <type_traits>
template <class T> void show(const char* id, int item, T v) {
  if constexpr (std::is_floating_point_v<T>) std::printf("%d %s %.17g F\n", item, id, (double)v);
  else if constexpr (std::is_signed_v<T>) std::printf("%d %s %lld I\n", item, id, (long long)v);
  else std::printf("%d %s %llu I\n", item, id, (unsigned long long)v);
}
int main(int argc, char** argv) {
  cg::binary::P2Reader reader(argv[1]);
  cg::R2 r;
  int item = 0;
  while (reader.ReadR(r)) {
"""


def second_family(c, sc, yardl, home):
    wd = os.path.join(sc, "tlc2")
    os.makedirs(wd)
    env = {"VERIF_OUT": wd + "/c.ndjson", "VERIF_OUT_VALS": wd + "/v.ndjson", "VERIF_OUT_BASE": wd + "/b.ndjson"}
    res = tlc_eval("Computed2", timeout=900, workdir=wd, env=env)
    c.add_tlc(res)
    cases = [json.loads(l) for l in open(env["VERIF_OUT"]) if l.strip()]
    vals = [json.loads(l) for l in open(env["VERIF_OUT_VALS"]) if l.strip()]
    cases.sort(key=lambda x: json.dumps(x["e"], sort_keys=True))
    c.cov["states"] += len(cases) * len(vals)
    root = os.path.join(sc, "fam2")
    mdir = os.path.join(root, "model")
    os.makedirs(mdir)
    open(os.path.join(mdir, "_package.yml"), "w").write(
        "namespace: Cg\ncpp:\n  sourcesOutputDir: ../cpp\n  generateHDF5: false\n  generateCMakeLists: false\n  generateNDJson: false\n"
        "  overrideArrayHeader: yardl_shim_ndarray.h\npython:\n  outputDir: ../py\n  generateNDJson: false\nmatlab:\n  outputDir: ../matlab\n")
    lines = ["Count: uint16", "Small: int16", "Gen<T>: !record", "  fields:", "    x: T", "  computedFields:", "    val: x", "    again: val",
             "Inner: !record", "  fields:", "    q: int", "    w: int", "R2: !record", "  fields:", "    arr: int[x, y]", "    vec: int*", "    vv: int**",
             "    ni: int", "    ns: string", "    inner: Inner", "    mp: string->int", "    f: float", "    i: int", "    k: long", "    two: float",
             "    opt: int?", "    un: [int, float]", "    nun: [null, int, float]", "    fa: int[x:2, y:3]", "    fv: int*3", "    da: int[]", "    tr: int[y, x]", "    nx: string", "    ga: Gen<int>", "    gb: Gen<double>", "    cnt: Count", "    sm: Small", "    cv: Count*", "  computedFields:"]
    for n, x in enumerate(cases):
        x["id"] = "d%d" % n
        x["text"] = "\n".join(field_yaml(x["id"], x["e"]))
        lines += field_yaml(x["id"], x["e"])
    lines += ["P2: !protocol", "  sequence:", "    r: !stream", "      items: R2"]
    model = "\n".join(lines) + "\n"
    open(os.path.join(mdir, "model.yml"), "w").write(model)
    rc, o, e = run([yardl, "generate"], cwd=mdir, env=yardl_env(home), timeout=300)
    if rc != 0:
        txt = re.sub(r"\x1b\[[0-9;]*m", "", e + o)
        c.violation("C19:containers:rejected", "yardl rejects a model whose computed fields use only documented expression forms: " + txt[-400:],
                    {"model": model, "output": txt[-3000:]})
        return
    # Python: evaluate and write the stream
    specf = os.path.join(root, "spec.json")
    json.dump({"valuations": vals, "ids": [x["id"] for x in cases]}, open(specf, "w"))
    drv = os.path.join(root, "py2.py")
    open(drv, "w").write(PY2_DRIVER)
    binf, pyout = os.path.join(root, "items.bin"), os.path.join(root, "py.json")
    rc, o, e = run([PY, drv, os.path.join(root, "py"), "cg", specf, binf, pyout], timeout=300)
    if rc != 0:
        c.violation("C19:containers:python", "the generated Python for the container expressions cannot be used: " + (e or o)[-400:], {"model": model, "error": (e or o)[-3000:]})
        return
    pyres = json.load(open(pyout))
    # C++: read the stream, evaluate
    gen = os.path.join(root, "cpp")
    shutil.copy(os.path.join(drivers.SHIMS, "yardl_shim_ndarray.h"), os.path.join(gen, "yardl", "yardl_shim_ndarray.h"))
    body = [CPP2_HEAD] + ['    show("%s", item, r.%s());' % (x["id"], "D" + x["id"][1:]) for x in cases] + ["    item++;", "  }", "  reader.Close();", "  return 0;", "}"]
    open(os.path.join(gen, "eval2.cc"), "w").write("\n".join(body))
    exe = os.path.join(root, "eval2")
    rc, o, e = run(["g++", "-std=c++17", "-O0", "-I", drivers.SHIMS, "-I", drivers.THIRD, "-I", gen, os.path.join(gen, "eval2.cc"), os.path.join(gen, "types.cc"),
                    os.path.join(gen, "protocols.cc"), os.path.join(gen, "binary", "protocols.cc"), "-o", exe], timeout=1800)
    cpp, cpp_class = {}, {}
    if rc != 0:
        c.violation("C19:containers:cpp_compile", "the generated C++ for the container expressions does not compile: " + e[-500:], {"model": model, "error": e[-4000:]})
    else:
        rc, o, e = run([exe, binf], timeout=120)
        if rc != 0:
            c.violation("C19:containers:cpp_run", "the C++ evaluation of the container expressions fails (rc=%s): %s" % (rc, (e or "")[-300:]), {"model": model, "error": e})
        for line in o.splitlines():
            p = line.split()
            if len(p) == 4:
                cpp[(int(p[0]), p[1])] = p[2]
                cpp_class[(int(p[0]), p[1])] = p[3]
    for x in cases:
        kind = x["e"]["k"] + (":" + x["e"]["t"]["n"] if x["e"]["k"] == "switch" else "")
        for j, expv in enumerate(x["values"]):
            exp = spec_number(expv)
            c.cov["traces_validated_against_impl"] += 1
            c.count(("fam2", kind), nontrivial=True)
            pv = pyres[j][x["id"]]
            if isinstance(pv, str) or Fraction(int(pv[0]), int(pv[1])) != exp:
                c.violation("C19:value:py-containers:%s" % kind, "Python evaluates computed field\n%s\nto %s for valuation %s; the specification gives %s" % (
                    x["text"], pv if isinstance(pv, str) else Fraction(int(pv[0]), int(pv[1])), json.dumps(vals[j]), exp),
                    {"field": x["text"], "valuation": vals[j], "expected": str(exp), "python": pv})
            if cpp:
                cv = cpp.get((j, x["id"]))
                try:
                    got = Fraction(cv) if cv is not None and "." not in cv and "e" not in cv else (Fraction(float(cv)) if cv is not None else None)
                except ValueError:
                    got = None
                # static result type of the generated accessor: an integer-valued expression of the catalogue has an integer type, a
                # floating-point valued one a floating-point type (Computed2.tla distinguishes [i |-> n] from [h |-> n])
                want_class = "F" if "h" in expv else "I" if "i" in expv else None
                # (a !switch has the common type of its branches, which the value of one branch does not determine)
                if got == exp and want_class and x["e"]["k"] != "switch" and cpp_class.get((j, x["id"])) not in (None, want_class):
                    c.violation("C19:type:cpp-containers:%s" % kind, "the generated C++ accessor of computed field\n%s\nhas a %s result type; the expression is %s" % (
                        x["text"], "floating-point" if want_class == "I" else "integer", "integer-valued (%s)" % exp if want_class == "I" else "floating-point valued (%s)" % exp),
                        {"field": x["text"], "valuation": vals[j], "expected": str(exp), "cpp": cv, "cpp_static_type_class": cpp_class.get((j, x["id"]))})
                if got != exp:
                    c.violation("C19:value:cpp-containers:%s" % kind, "C++ evaluates computed field\n%s\nto %s for valuation %s; the specification gives %s" % (
                        x["text"], cv, json.dumps(vals[j]), exp), {"field": x["text"], "valuation": vals[j], "expected": str(exp), "cpp": cv})
    c.cov["container_expressions"] = len(cases)


def main():
    c = Check("C19", "model_checking")
    sc = scratch("verif-c19-")
    yardl = build_yardl(sc)
    home = os.path.join(sc, "home")
    thorough = c.tier == "thorough"
    wd = os.path.join(sc, "tlc")
    os.makedirs(wd)
    out = os.path.join(wd, "cases.ndjson")
    fpath = os.path.join(wd, "fields.ndjson")
    fpath2 = os.path.join(wd, "fields2.ndjson")
    res = tlc_eval("Computed", timeout=900, workdir=wd, env={"VERIF_OUT": out, "VERIF_FIELDS": fpath, "VERIF_FIELDS2": fpath2})
    c.add_tlc(res)
    fields = [json.loads(l) for l in open(fpath) if l.strip()]
    fields2 = [json.loads(l) for l in open(fpath2) if l.strip()]
    valuations = [fields, fields2]
    cases = [json.loads(l) for l in open(out) if l.strip()]
    c.cov["states"] = len(cases)
    c.cov["transitions"] = len(cases)
    bykey = {ekey(x["e"]): x for x in cases}
    # generation and evaluation of all ~9,600 expressions takes seconds, so both tiers run all of them
    cases.sort(key=lambda x: ekey(x["e"]))
    c.rng.shuffle(cases)
    for n, x in enumerate(cases):
        x["id"] = "c%d" % n
        x["text"] = fmt(x["e"], fields)
    fieldvals = {f["name"]: Fraction(f["n"], f["d"]) for f in fields}
    fieldvals2 = {f["name"]: Fraction(f["n"], f["d"]) for f in fields2}

    def fieldtext(fl):
        return ", ".join("%s=%s" % (f["name"], Fraction(f["n"], f["d"])) for f in fl if not f["p"].startswith(("uint", "complex", "size")))
    pkgs = [cases[i:i + PER_PACKAGE] for i in range(0, len(cases), PER_PACKAGE)]

    def work(arg):
        pi, pcases = arg
        root = os.path.join(sc, "p%d" % pi)
        ns = "cf" + "abcdefghijklmnopqrstuvwxyz"[pi]
        mdir = os.path.join(root, "model")
        os.makedirs(mdir)
        with open(os.path.join(mdir, "_package.yml"), "w") as f:
            f.write("namespace: %s\ncpp:\n  sourcesOutputDir: ../cpp\n  generateHDF5: false\n  generateCMakeLists: false\n  generateNDJson: false\n"
                    "  overrideArrayHeader: yardl_shim_ndarray.h\npython:\n  outputDir: ../py\nmatlab:\n  outputDir: ../matlab\n" % ns.capitalize())
        info = {"pi": pi, "rejected": {}, "other_errors": [], "cpp": {}, "py": [], "matlab": {}, "problem": None}

        def write_model(active):
            lines, linemap, records = [], {}, {}
            for ri in range(0, len(active), PER_RECORD):
                rname = "R%d" % (ri // PER_RECORD)
                records[rname] = []
                lines.append("%s: !record" % rname)
                lines.append("  fields:")
                for fl in fields:
                    lines.append("    %s: %s" % (fl["name"], YARDL_PRIM[fl["p"]]))
                lines.append("  computedFields:")
                for x in active[ri:ri + PER_RECORD]:
                    lines.append("    %s: %s" % (x["id"], x["text"]))
                    linemap[len(lines)] = x
                    records[rname].append(x["id"])
            lines.append("P: !protocol\n  sequence:\n    r: R0")
            with open(os.path.join(mdir, "model.yml"), "w") as f:
                f.write("\n".join(lines) + "\n")
            return linemap, records
        active = list(pcases)
        defined = {x["id"]: x["defined"] for x in pcases}
        linemap, records = write_model(active)
        rc, o, e = run([yardl, "validate"], cwd=mdir, env=yardl_env(home), timeout=300)
        if rc != 0:
            txt = re.sub(r"\x1b\[[0-9;]*m", "", e + o)
            for m in re.finditer(r"model\.yml:(\d+):(\d+): ([^\n]*)", txt):
                x = linemap.get(int(m.group(1)))
                msg = m.group(3)
                if x is not None and "operator not defined between operands" in msg:
                    info["rejected"][x["id"]] = msg
                else:
                    info["other_errors"].append((x["id"] if x else None, x["text"] if x else None, msg))
                    if x is not None:
                        info["rejected"].setdefault(x["id"], msg)
            if not info["rejected"]:
                info["problem"] = "yardl validate failed without a usable message: " + txt[-600:]
                return info
            active = [x for x in active if x["id"] not in info["rejected"]]
            linemap, records = write_model(active)
        rc, o, e = run([yardl, "generate"], cwd=mdir, env=yardl_env(home), timeout=300)
        if rc != 0:
            info["problem"] = "yardl generate failed after removing rejected expressions: " + (e + o)[-800:]
            return info
        info["model"] = os.path.join(mdir, "model.yml")
        # ---- C++
        gen = os.path.join(root, "cpp")
        shutil.copy(os.path.join(drivers.SHIMS, "yardl_shim_ndarray.h"), os.path.join(gen, "yardl", "yardl_shim_ndarray.h"))
        body = [CPP_DRIVER_HEAD]
        runs = [set(x["id"] for x in pcases if x["defined"] or x["defined_floor"] or x["signdiv"]), set(x["id"] for x in pcases if x["defined2"])]
        for vi, rname, ids in [(vi, rname, ids) for vi in (0, 1) for rname, ids in records.items()]:
            body.append("  { %s::%s r;" % (ns, rname))
            for fl in valuations[vi]:
                v = Fraction(fl["n"], fl["d"])
                if fl["p"].startswith("complex"):
                    lit = "{%s, 0}" % repr(float(v))
                elif fl["p"] == "float32":
                    lit = repr(float(v)) + "f"
                elif fl["p"] == "float64":
                    lit = repr(float(v))
                else:
                    lit = str(int(v))
                body.append("    r.%s = %s;" % (fl["name"], lit))
            for cid in ids:
                # an expression without a defined value (division by zero, overflow) is only typed, never run
                if cid in runs[vi]:
                    body.append('    show("%s%s", r.%s());' % (cid, "@2" if vi else "", "C" + cid[1:]))
                elif vi == 0:
                    body.append('    show_type<decltype(r.%s())>("%s");' % ("C" + cid[1:], cid))
            body.append("  }")
        body.append("  return 0;\n}\n")
        with open(os.path.join(gen, "verif_eval.cc"), "w") as f:
            f.write("\n".join(body))
        exe = os.path.join(root, "eval")
        rc, o, e = run(["g++", "-std=c++17", "-O0", "-I", drivers.SHIMS, "-I", drivers.THIRD, "-I", gen, os.path.join(gen, "verif_eval.cc"),
                        os.path.join(gen, "types.cc"), "-o", exe], timeout=1200)
        if rc != 0:
            info["cpp_compile_error"] = e[-3000:]
        else:
            rc, o, e = run([exe], timeout=120)
            if rc != 0:
                info["cpp_run_error"] = (e or "")[-500:] + " rc=%s" % rc
            for line in o.splitlines():
                p = line.split()
                if len(p) == 4:
                    info["cpp"][p[0]] = (p[1], p[2], p[3])
        # ---- Python
        specf = os.path.join(root, "pyspec.json")
        json.dump({"valuations": valuations, "records": records, "run": [sorted(runs[0] | set(x["id"] for x in pcases)), sorted(runs[1])],
                   "evaluate": [sorted(runs[0]), sorted(runs[1])]}, open(specf, "w"))
        drv = os.path.join(root, "pyeval.py")
        open(drv, "w").write(PY_DRIVER)
        pyout = os.path.join(root, "pyout.json")
        rc, o, e = run([PY, drv, os.path.join(root, "py"), ns, specf, pyout], timeout=600)
        if rc != 0:
            info["py_error"] = (e or o)[-1500:]
        else:
            info["py"] = json.load(open(pyout))
        # ---- MATLAB (text)
        mroot = os.path.join(root, "matlab", "+" + ns)
        for rname in records:
            try:
                txt = open(os.path.join(mroot, rname + ".m")).read()
            except OSError as ex:
                info["matlab_error"] = str(ex)
                continue
            for m in re.finditer(r"function res = (c\d+)\(self\)\s*\n\s*res = ([^\n]*);", txt):
                info["matlab"][m.group(1)] = m.group(2)
        return info

    infos = pmap(work, list(enumerate(pkgs)), jobs=min(NCPU, 8))
    byid = {x["id"]: x for x in cases}
    rejected, types_py, types_cpp = {}, {}, {}
    unusable = 0
    for info in infos:
        if info["problem"]:
            unusable += 1
            c.note("package %d unusable: %s" % (info["pi"], info["problem"][:400]))
            continue
        for cid, text, msg in info["other_errors"]:
            x = byid.get(cid)
            c.violation("C19:rejected:%s" % (shape(x["e"], fields) if x else "?"),
                        "a well-typed arithmetic expression is rejected with an unexpected message: %s: %s" % (text, msg),
                        {"expression": text, "message": msg})
        rejected.update(info["rejected"])
        for k in ("cpp_compile_error", "cpp_run_error", "py_error", "matlab_error"):
            if info.get(k):
                c.violation("C19:%s" % k, "generated code for accepted computed fields is unusable (%s): %s" % (k, info[k][-400:]),
                            {"package_model": open(info["model"]).read()[:4000], "error": info[k]})
        # values
        def expected(x, vi):
            """(value the executed back ends must produce, kind) for valuation vi, or (None, None) when the expression is only typed there"""
            if vi == 0:
                if x["defined"]:
                    return Fraction(x["value"]["n"], x["value"]["d"]), "exact"
                if x["defined_floor"]:
                    return Fraction(x["value_floor"]["n"], x["value_floor"]["d"]), "rounded-down quotient of non-negative integers"
                return None, None
            if x["defined2"]:
                return Fraction(x["value2"]["n"], x["value2"]["d"]), "positive valuation"
            return None, None
        cppval = {}
        for cid2, (tname, re_, im_) in info["cpp"].items():
            cid, vi = (cid2[:-2], 1) if cid2.endswith("@2") else (cid2, 0)
            x = byid[cid]
            if vi == 0:
                types_cpp[cid] = tname
            c.cov["traces_validated_against_impl"] += 1
            exp, kind = expected(x, vi)
            try:
                got = Fraction(re_) if "." not in re_ and "e" not in re_ and "n" not in re_ else Fraction(float(re_))
                okim = Fraction(float(im_)) == 0
            except (ValueError, OverflowError):
                got, okim = None, False
            cppval[(cid, vi)] = got
            if exp is not None:
                c.count(("cpp", vi, shape(x["e"], fields)), nontrivial=True)
                if got != exp or not okim:
                    c.violation("C19:value:cpp:%s" % shape(x["e"], fields), "C++ evaluates '%s' to %s for %s, the value (%s) is %s" % (
                        x["text"], got if got is not None else re_, fieldtext(valuations[vi]), kind, exp),
                                {"expression": x["text"], "fields": valuations[vi], "expected": str(exp), "cpp": [tname, re_, im_]})
        for r in info["py"]:
            x = byid[r["id"]]
            vi = r.get("val", 0)
            if r["variant"] == "native" and vi == 0:
                types_py[r["id"]] = PY_ANN.get(r["ann"], r["ann"])
            c.cov["traces_validated_against_impl"] += 1
            exp, kind = expected(x, vi)
            if exp is not None:
                c.count(("py", vi, r["variant"], shape(x["e"], fields)), nontrivial=True)
                if "error" in r:
                    c.violation("C19:value:py-%s:%s" % (r["variant"], shape(x["e"], fields)),
                                "Python (%s field values) fails to evaluate '%s': %s" % (r["variant"], x["text"], r["error"]),
                                {"expression": x["text"], "fields": valuations[vi], "expected": str(exp), "python": r})
                    continue
                got = Fraction(int(r["n"]), int(r["d"]))
                if got != exp or not r["imag0"]:
                    c.violation("C19:value:py-%s:%s" % (r["variant"], shape(x["e"], fields)),
                                "Python (%s field values) evaluates '%s' to %s for %s, the value (%s) is %s" % (r["variant"], x["text"], got, fieldtext(valuations[vi]), kind, exp),
                                {"expression": x["text"], "fields": valuations[vi], "expected": str(exp), "python": r})
            elif vi == 0 and x["signdiv"] and "error" not in r and cppval.get((r["id"], 0)) is not None:
                # no mathematical integer value: the property only asks that every target language gives the same one
                c.count(("signdiv", r["variant"], shape(x["e"], fields)), nontrivial=True)
                got = Fraction(int(r["n"]), int(r["d"]))
                if got != cppval[(r["id"], 0)]:
                    c.violation("C19:intdiv:negative-inexact", "the inexact integer quotient '%s' (%s) is %s in the generated C++ and %s in the generated Python (%s field values)" % (
                        x["text"], fieldtext(valuations[0]), cppval[(r["id"], 0)], got, r["variant"]),
                                {"expression": x["text"], "fields": valuations[0], "cpp": str(cppval[(r["id"], 0)]), "python": r})
        for cid, text, vi in [(cid, text, vi) for cid, text in info["matlab"].items() for vi in (0, 1)]:
            x = byid[cid]
            # (MATLAB rounds integer quotients to nearest: only exact quotients have a language-independent value there)
            if not (x["defined"] if vi == 0 else (x["defined2"] and x["exact2"])):
                continue
            exp = Fraction(x["value"]["n"], x["value"]["d"]) if vi == 0 else Fraction(x["value2"]["n"], x["value2"]["d"])
            c.count(("matlab", vi, shape(x["e"], fields)), nontrivial=True)
            try:
                got = MatlabExpr(text, fieldvals if vi == 0 else fieldvals2).parse()
            except (ValueError, ZeroDivisionError, OverflowError) as ex:
                c.cov["matlab_unread"] = c.cov.get("matlab_unread", 0) + 1
                continue
            c.cov["traces_validated_against_impl"] += 1
            if got != exp:
                c.violation("C19:value:matlab:%s" % shape(x["e"], fields),
                            "the MATLAB expression generated for '%s' is '%s', which under MATLAB's precedence rules is %s, not %s" % (x["text"], text, got, exp),
                            {"expression": x["text"], "matlab": text, "expected": str(exp)})
    if unusable > len(pkgs) // 4:
        raise Inconclusive("too many unusable packages")
    if c.cov.get("matlab_unread", 0) > len(cases) // 10:
        raise Inconclusive("the MATLAB expression reader does not understand the generated text any more")
    # ---- static types
    drift = []
    for x in cases:
        cid = x["id"]
        e = x["e"]
        rej = cid in rejected
        tp, tc = types_py.get(cid), types_cpp.get(cid)
        if not rej and tp and tc:
            c.count(("type", shape(e, fields)), nontrivial=True)
            if (tp if tp != "size" else "uint64") != tc:
                c.violation("C19:type:languages:%s" % shape(e, fields), "'%s' has type %s in Python and %s in C++" % (x["text"], tp, tc),
                            {"expression": x["text"], "python": tp, "cpp": tc})
            if x["intpow"] and tp != "float64":
                c.violation("C19:type:intpow:%s" % shape(e, fields), "'%s' (** on integers) has type %s, documented: float64" % (x["text"], tp),
                            {"expression": x["text"], "python": tp})
        if e["k"] == "bin":
            y = bykey.get(ekey(swap(e)))
            y = byid.get(y.get("id")) if y and "id" in y else None
            if y is not None and y["id"] > cid:
                rej2 = y["id"] in rejected
                c.count(("swap", shape(e, fields)), nontrivial=True)
                if rej != rej2:
                    c.violation("C19:type:order:%s" % shape(e, fields), "'%s' is %s but '%s' is %s" % (
                        x["text"], "rejected" if rej else "accepted", y["text"], "rejected" if rej2 else "accepted"),
                        {"a": x["text"], "b": y["text"], "messages": [rejected.get(cid), rejected.get(y["id"])]})
                elif not rej:
                    for lang, tt in (("python", types_py), ("cpp", types_cpp)):
                        if tt.get(cid) and tt.get(y["id"]) and tt[cid] != tt[y["id"]]:
                            c.violation("C19:type:order:%s" % shape(e, fields), "static type depends on operand order (%s): '%s' is %s, '%s' is %s" % (
                                lang, x["text"], tt[cid], y["text"], tt[y["id"]]), {"a": x["text"], "b": y["text"], "types": [tt[cid], tt[y["id"]]]})
        model_t = x["type"]
        actual = "none" if rej else tp
        if actual is not None and actual != model_t:
            drift.append((x["text"], model_t, actual))
    c.cov["rejected_expressions"] = len(rejected)
    c.cov["model_type_differences"] = len(drift)
    if drift:
        kinds = {}
        for t, mt, at in drift:
            kinds.setdefault("%s -> %s" % (mt, at), t)
        print("MODEL-DRIFT: %d expressions are typed differently from Computed.tla's numeric tower (not a verdict - the promotion table is "
              "undocumented); kinds: %s" % (len(drift), "; ".join("%s (e.g. %s)" % kv for kv in sorted(kinds.items())[:12])))
        c.cov["model_type_difference_kinds"] = sorted(kinds.items())[:40]
    for x in cases[:4]:
        c.sample({"expression": x["text"], "defined": x["defined"], "value": x["value"], "model_type": x["type"]})
    second_family(c, sc, yardl, home)
    c.assumptions += ["the promotion table is not documented (only '** yields a float64'); Computed.tla's numeric tower is a model, differences are "
                      "reported as MODEL-DRIFT; verdicts come from operand-order independence, agreement between C++ and Python declared types, "
                      "'** on integers is float64' and values",
                      "values are compared only where Computed.tla's Eval is defined: exact dyadic results, exact integer division, unsigned operands "
                      "only with non-negative results, small integer exponents, no complex powers",
                      "MATLAB cannot be executed: the generated expression text is read with MATLAB's documented precedence (^ left associative "
                      "and stronger than unary minus) and evaluated over exact rationals",
                      "Python methods are evaluated twice: with native int/float field values and with numpy scalars of the declared dtype"]
    c.finish(rule="Computed.tla: TLC enumerates expression trees (every operator over every ordered pair of the 16 numeric fields/literals, depth-2 "
                  "trees over integer and float operands with explicit parenthesisation, negations), computes the exact value (Eval) and the model "
                  "type; the harness generates code for all of them, evaluates the generated C++ and Python methods and reads the MATLAB text; "
                  "distinct = (language, operand-kind shape of the expression)", exhaustive=thorough)


def hash_int(s):
    import hashlib
    return int(hashlib.sha1(s.encode()).hexdigest()[:8], 16)


main_wrapper(main)
