"""Helpers for the CLI-level checks: a small multi-package project (main + imports + previous version), error injection,
running yardl with a hook trace, directory snapshots."""
import os, shutil, json
from common import *

BASE = {
    "main": {"ns": "Main", "imports": ["../imp1"], "versions": {"v0": "../v0"},
             "model": "Rec: !record\n  fields:\n    a: int\n    b: Imp1.T1\nP: !protocol\n  sequence:\n    r: Rec\n    s: !stream\n      items: Rec\n"},
    "imp1": {"ns": "Imp1", "imports": ["../imp2"], "model": "T1: !record\n  fields:\n    x: Imp2.T2\n"},
    "imp2": {"ns": "Imp2", "model": "T2: !record\n  fields:\n    y: int\n"},
    "v0": {"ns": "Main", "imports": ["../v0imp"],
           "model": "Rec: !record\n  fields:\n    a: int\n    b: Imp1.T1\nP: !protocol\n  sequence:\n    r: Rec\n    s: !stream\n      items: Rec\n"},
    "v0imp": {"ns": "Imp1", "imports": ["../imp2"], "model": "T1: !record\n  fields:\n    x: Imp2.T2\n"},
}
BASE2 = {   # a second listed version (nver = 2)
    "v1": {"ns": "Main", "imports": ["../v1imp"], "model": BASE["v0"]["model"]},
    "v1imp": {"ns": "Imp1", "imports": ["../imp2"], "model": BASE["v0imp"]["model"]},
}
LOC_DIR = {"main": "main", "import1": "imp1", "import2": "imp2", "version": "v0", "version_import": "v0imp", "version2": "v1", "version2_import": "v1imp"}
OUT_KEYS = {"cpp": "sourcesOutputDir", "python": "outputDir", "json": "outputDir", "matlab": "outputDir"}


def out_dirs(root, targets, inside):
    base = os.path.join(root, "main", "generated") if inside else os.path.join(root, "out")
    return {t: os.path.join(base, t) for t in targets}


# one semantic error per validation pass of dsl.Validate (Pipeline.tla PassKinds)
PASS_KINDS = {
    "type_name": "brokenName: int\n",
    "generic_def": "BrokenG<T>: !enum\n  values: [a, b]\n",
    "field_name": "Broken: !record\n  fields:\n    dup: int\n    dup: float\n",
    "step_name": "BrokenP: !protocol\n  sequence:\n    dup: int\n    dup: float\n",
    "dimensions": "Broken: !array\n  items: int\n  dimensions: [x, x]\n",
    "stream": "Broken: !record\n  fields:\n    s: !stream {items: int}\n",
    "symbol": "Broken: int\nBroken: float\n",
    "union_tag": "BrokenH<T>: !record\n  fields:\n    h: T\nBroken: [int, BrokenH<int>]\n",
    "cycle": "Broken: !record\n  fields:\n    again: Broken\n",
    "generic_arity": "BrokenH<T>: !record\n  fields:\n    h: T\nBroken: BrokenH<int, int>\n",
    "map_key": "BrokenK: !record\n  fields:\n    k: int\nBroken: !map {keys: BrokenK, values: int}\n",
    "union_cases": "Broken: [int, int32]\n",
    "enum": "Broken: !enum\n  values: {a: 1, b: 1}\n",
    "computed": "Broken: !record\n  fields:\n    x: int\n  computedFields:\n    c: nosuch + 1\n",
    "unused_param": "Broken<T>: !record\n  fields:\n    x: int\n",
}


def write_project(root, targets, inside=False, loc="none", kind="semantic", extra_main_model="", uses=True, nver=1):
    """Write the project tree; returns (cwd for yardl, extra CLI args)."""
    shutil.rmtree(os.path.join(root, "main"), ignore_errors=True)
    args = []
    base = dict(BASE)
    if nver == 2:
        base.update(BASE2)
        base["main"] = dict(BASE["main"], versions={"v0": "../v0", "v1": "../v1"})
    else:
        for d in BASE2:
            shutil.rmtree(os.path.join(root, d), ignore_errors=True)
    for d, spec in base.items():
        pd = os.path.join(root, d)
        for f in (os.listdir(pd) if os.path.isdir(pd) else []):
            if f.endswith(".yml"):
                os.remove(os.path.join(pd, f))
        os.makedirs(pd, exist_ok=True)
        ns = spec["ns"]
        if loc == "reserved_namespace" and ns == "Main":
            ns = "Yardl"
        if loc == "import_reserved_namespace" and ns == "Imp2":
            ns = "Yardl"
        man = "namespace: %s\n" % ns
        if spec.get("imports"):
            man += "imports:\n" + "".join("  - %s\n" % i for i in spec["imports"])
        if spec.get("versions"):
            man += "versions:\n" + "".join("  %s: %s\n" % kv for kv in spec["versions"].items())
            if loc == "duplicate_label" and d == "main":
                man += "  v0: ../v0\n"
        if d == "main":
            rel = "generated" if inside else "../out"
            order = [t for t in ("cpp", "python", "json", "matlab") if t in targets]
            for t in sorted(targets):
                if loc == "outdir_missing" and t == order[-1]:
                    man += "%s:\n  %s: \"\"\n" % (t, OUT_KEYS[t])
                    continue
                man += "%s:\n  %s: %s/%s\n" % (t, OUT_KEYS[t], rel, t)
                if t == "cpp":
                    man += "  generateCMakeLists: true\n"
            if loc == "manifest":
                man += "bogusKey: 1\n"
        if loc == "import_manifest" and d == "imp1":
            man += "python:\n  outputDir: \"\"\n"
        model = spec["model"]
        if not uses:
            # importers do not reference anything of what they import
            model = model.replace("    b: Imp1.T1\n", "    b: int\n").replace("    x: Imp2.T2\n", "    x: int\n")
        if loc == "import_reserved_namespace":
            model = model.replace("Imp2.", "Yardl.")
        if d == "main":
            model += extra_main_model
        if LOC_DIR.get(loc) == d:
            if kind == "semantic":
                model += "Broken: !record\n  fields:\n    z: NoSuchType\n"
            elif kind in PASS_KINDS:
                model += PASS_KINDS[kind]
            else:
                model += "Broken: !record\n  fieldz:\n    z: int\n"
        if loc == "evolution" and d == "main":
            model = model.replace("    a: int\n", "    a: int*\n", 1)
        # two listed versions: the current model agrees with one of them and is incompatible with the other
        if (loc == "evolution_first" and d in ("main", "v1")) or (loc == "evolution_last" and d in ("main", "v0")):
            model = model.replace("    a: int\n", "    a: int*\n", 1)
        open(os.path.join(pd, "_package.yml"), "w").write(man)
        open(os.path.join(pd, "model.yml"), "w").write(model)
    if loc == "bad_override":
        args = ["-c", "nosuch.key=1"]
    return os.path.join(root, "main"), args


def run_yardl(yardl, cmd, cwd, home, args=(), trace=None, timeout=60):
    env = yardl_env(home)
    if trace:
        env["YARDL_VERIF_TRACE"] = trace
        if os.path.exists(trace):
            os.remove(trace)
    rc, out, err = run([yardl, cmd] + list(args), cwd=cwd, env=env, timeout=timeout)
    events = []
    if trace and os.path.exists(trace):
        for line in open(trace):
            try:
                events.append(json.loads(line))
            except ValueError:
                pass
    return rc, out, err, events


def trace_lines(config_line, events, rc, second_run=False):
    """One run of PipelineTrace.tla's input: Config, the hook events (normalised), Exit."""
    res = [config_line]
    for e in events:
        x = {"event": e["event"]}
        for k in ("ns", "label", "target", "wrote", "ok"):
            if k in e:
                x[k] = e[k]
        if "path" in e:
            x["path"] = os.path.basename(e["path"])
        res.append(x)
    res.append({"event": "Exit", "code": rc, "second_run": second_run})
    return res
