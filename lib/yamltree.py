"""Tiny YAML tree model shared with spec/lang/Corrupt.tla: build trees in Python, render them as YAML text (flow style)."""
import json


def S(v, tag=""):
    return {"k": "scalar", "v": str(v), "tag": tag}


def Q(items, tag=""):
    return {"k": "seq", "items": list(items), "tag": tag}


def M(entries, tag=""):
    return {"k": "map", "entries": [[k, v] for k, v in entries], "tag": tag}


def _key_text(k):
    # a tagged key such as "!switch u" (computed-field switch expressions) is written as is
    return k if k.startswith("!switch ") else _scalar_text(k)


def _scalar_text(v):
    if v == "" or any(ch in v for ch in ":{}[],&*#?|-<>=!%@`\"'\n") or v.strip() != v or v in ("~", "null", "true", "false") and False:
        if v in ("~",):
            return "~"
        return json.dumps(v)
    return v


def render(n, indent=0, flow=False):
    """Top-level mappings in block style (one definition per line), everything below in flow style."""
    tag = (n["tag"] + " ") if n.get("tag") else ""
    if n["k"] == "scalar":
        return tag + _scalar_text(n["v"])
    if n["k"] == "seq":
        return tag + "[" + ", ".join(render(x, 0, True) for x in n["items"]) + "]"
    if not flow:
        if not n["entries"]:
            return tag + "{}"
        lines = []
        for k, v in n["entries"]:
            lines.append("%s: %s" % (_key_text(k), render(v, 0, True)))
        return ("\n".join(lines) + "\n") if not tag else tag + "{" + ", ".join(lines) + "}"
    return tag + "{" + ", ".join("%s: %s" % (_key_text(k), render(v, 0, True)) for k, v in n["entries"]) + "}"
