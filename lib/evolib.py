"""Concretisation of the edit catalogue of spec/lang/Evolution.tla: (edit, position) -> (previous model text, current model text)."""

TYPE_EDITS = {
    "int_to_long": ("int", "long"),
    "int_to_float": ("int", "float"),
    "int_to_string": ("int", "string"),
    "float_to_double": ("float", "double"),
    "string_to_int": ("string", "int"),
    "make_optional": ("int", "[null, int]"),
    "optional_to_union": ("[null, int]", "[null, int, string]"),
    "add_union_case": ("[int, string]", "[int, string, float]"),
    "remove_union_case": ("[int, string, float]", "[int, string]"),
    "scalar_to_vector": ("int", "!vector {items: int}"),
    "scalar_to_array": ("int", "!array {items: int}"),
    "vector_to_scalar": ("!vector {items: int}", "int"),
    "change_generic_argument": ("G<int>", "G<float>"),
    # used by C05 only (value conversions); C06 takes its edit list from Evolution.tla
    "uint_to_int": ("uint", "int"),
    "ulong_to_long": ("ulong", "long"),
}

BASE_DEFS = """Color: !enum
  values: [red, green, blue]
Perm: !flags
  values: [r, w]
G<T>: !record
  fields:
    g: T
Inner: !record
  fields:
    a: int
    b: string
    opt: float?
"""


def wrap(pos, t):
    """-> (extra definitions, type expression of the protocol step `probe`)"""
    if pos == "step":
        return "", t
    if pos == "stream_item":
        return "", "!stream {items: %s}" % t
    if pos == "field":
        return "ProbeRec: !record\n  fields:\n    k: int\n    p: %s\n" % t, "ProbeRec"
    if pos == "alias":
        return "ProbeAlias: %s\n" % t, "ProbeAlias"
    if pos == "vector_item":
        return "", "!vector {items: %s}" % t
    if pos == "optional":
        return "", "[null, %s]" % t
    if pos == "vector_of_optional":
        return "", "!vector {items: [null, %s]}" % t
    if pos == "stream_of_optional":
        return "", "!stream {items: [null, %s]}" % t
    if pos == "optional_vector":
        return "", "[null, !vector {items: %s}]" % t
    if pos == "vector_of_vector":
        return "", "!vector {items: !vector {items: %s}}" % t
    # ---- the edited type sits in a record that the protocol reaches only through a type argument of a generic
    PR = "ProbeRec: !record\n  fields:\n    k: int\n    p: %s\n" % t
    if pos == "generic_arg":
        return PR, "G<ProbeRec>"
    if pos == "second_instantiation":             # an earlier step instantiates the same generic with another argument
        return PR + "#STEP pre: G<int>\n", "G<ProbeRec>"
    if pos == "third_instantiation":
        return PR + "#STEP pre: G<int>\n#STEP pre2: G<string>\n", "G<ProbeRec>"
    if pos == "nested_generic_arg":
        return PR, "G<G<ProbeRec>>"
    if pos == "generic_alias_arg":
        return PR + "GV<T>: T*\n", "GV<ProbeRec>"
    if pos == "second_instantiation_alias":
        return PR + "GV<T>: T*\n#STEP pre: GV<int>\n", "GV<ProbeRec>"
    if pos == "second_instantiation_in_record":   # both instantiations inside one record, the edited one last
        return PR + "Holder: !record\n  fields:\n    h1: G<int>\n    h2: G<ProbeRec>\n", "Holder"
    if pos == "union_case_record":
        return PR, "[int, ProbeRec]"
    if pos == "map_value_record":
        return PR, "!map {keys: string, values: ProbeRec}"
    PA = "ProbeAlias: %s\n" % t
    only = {"map_key_alias": "!map {keys: ProbeAlias, values: int}", "map_value_alias": "!map {keys: string, values: ProbeAlias}",
            "array_item_alias": "!array {items: ProbeAlias, dimensions: 2}", "fixed_vector_item_alias": "!vector {items: ProbeAlias, length: 2}",
            "union_case_alias": "!union {num: double, probe: ProbeAlias}", "generic_arg_alias": "G<ProbeAlias>",
            "optional_alias": "[null, ProbeAlias]", "stream_item_alias": "!stream {items: ProbeAlias}"}
    if pos in only:
        return PA, only[pos]
    if pos == "field_of_nested_record":
        return "ProbeRec: !record\n  fields:\n    k: int\n    p: %s\nOuterProbe: !record\n  fields:\n    o: ProbeRec\n    z: string\n" % t, "OuterProbe"
    raise KeyError(pos)


def model(defs, probe, steps_before="    first: int\n", steps_after="    last: Color\n", extra=""):
    # "#STEP name: type" lines among the definitions become protocol steps in front of `probe`
    for l in [l for l in defs.split("\n") if l.startswith("#STEP ")]:
        steps_before += "    %s\n" % l[6:]
    defs = "".join(l + "\n" for l in defs.split("\n") if l and not l.startswith("#STEP "))
    return BASE_DEFS + defs + extra + "P: !protocol\n  sequence:\n%s    probe: %s\n%s" % (steps_before, probe, steps_after)


RECORD_EDITS = {
    "add_optional_field": lambda r: r + "    d: string?\n",
    "remove_optional_field": lambda r: r.replace("    c: float?\n", ""),
    "reorder_fields": lambda r: "Data: !record\n  fields:\n    b: string\n    c: float?\n    a: int\n",
    "add_required_field": lambda r: r + "    d: string\n",
    "remove_required_field": lambda r: r.replace("    b: string\n", ""),
    "change_field_type_breaking": lambda r: r.replace("    b: string\n", "    b: !vector {items: string}\n"),
    "change_field_type_partial": lambda r: r.replace("    a: int\n", "    a: long\n"),
}


def wrap_def(pos, name):
    """a named definition `name` used at a position -> (extra definitions, probe type)"""
    if pos == "step":
        return "", name
    if pos == "generic_arg":
        return "", "G<%s>" % name
    if pos == "second_instantiation":
        return "#STEP pre: G<int>\n", "G<%s>" % name
    if pos == "second_instantiation_alias":
        return "GV<T>: T*\n#STEP pre: GV<int>\n", "GV<%s>" % name
    if pos == "second_instantiation_in_record":
        return "Holder: !record\n  fields:\n    h1: G<int>\n    h2: G<%s>\n" % name, "Holder"
    if pos == "vector_item":
        return "", "!vector {items: %s}" % name
    if pos == "field_of_record":
        return "Outer: !record\n  fields:\n    z: string\n    o: %s\n" % name, "Outer"
    if pos == "union_case_record":
        return "", "[int, %s]" % name
    if pos == "optional":
        return "", "[null, %s]" % name
    if pos == "stream_item":
        return "", "!stream {items: %s}" % name
    raise KeyError(pos)


RENAME_KINDS = {
    "record": ("%s: !record\n  fields:\n    a: int\n    b: string\n", "", ""),
    "enum": ("%s: !enum\n  values: [x, y]\n", "", ""),
    "enum_based": ("%s: !enum\n  base: uint8\n  values: {x: 1, y: 5}\n", "", ""),
    "flags": ("%s: !flags\n  values: [r, w]\n", "", ""),
    "generic_record": ("%s<T>: !record\n  fields:\n    g: T\n", "<int>", "<T>"),
    "union_alias": ("%s: [int, string]\n", "", ""),
    "vector_alias": ("%s: !vector {items: int}\n", "", ""),
    "generic_union": ("%s<A, B>: [A, B]\n", "<int, string>", "<A, B>"),
    "map_alias": ("%s: string->int\n", "", ""),
}
RENAME_POS = {"step": '"%s"', "stream_item": '!stream {items: "%s"}', "vector_item": '!vector {items: "%s"}', "optional": '[null, "%s"]',
              "union_case": '[float, "%s"]', "generic_arg": '"W<%s>"', "map_value": '!map {keys: string, values: "%s"}'}


def rename_model(kind, pos, name, alias=None, spell=None):
    d, args, params = RENAME_KINDS[kind]
    t = (spell or name) + args
    s = "W<T>: !record\n  fields:\n    w: T\n" + d % name
    if alias:
        s += "%s%s: %s%s\n" % (alias, params, name, params)
    if pos == "field":
        s += 'Holder: !record\n  fields:\n    k: int\n    h: "%s"\n' % t
        pt = "Holder"
    else:
        pt = RENAME_POS[pos] % t
    return s + "P: !protocol\n  sequence:\n    first: int\n    probe: %s\n    last: string\n" % pt


def make_pair(edit, pos):
    if ":" in edit:
        e, kind = edit.split(":")
        if e == "rename":
            return rename_model(kind, pos, "Old"), rename_model(kind, pos, "Fresh", "Old")
        if e == "rename_keep_spelling":
            return rename_model(kind, pos, "Old"), rename_model(kind, pos, "Fresh", "Old", spell="Old")
        if e == "drop_rename_alias":
            return rename_model(kind, pos, "Fresh", "Old"), rename_model(kind, pos, "Fresh")
        raise KeyError(edit)
    if pos != "definition" and edit in RECORD_EDITS:
        rec = "Data: !record\n  fields:\n    a: int\n    b: string\n    c: float?\n"
        d, pr = wrap_def(pos, "Data")
        return model(rec + d, pr), model(RECORD_EDITS[edit](rec) + d, pr)
    if pos != "definition":
        told, tnew = TYPE_EDITS[edit]
        d0, p0 = wrap(pos, told)
        d1, p1 = wrap(pos, tnew)
        return model(d0, p0), model(d1, p1)
    rec = "Data: !record\n  fields:\n    a: int\n    b: string\n    c: float?\n"
    base = model(rec, "Data")
    e = edit
    if e == "identity":
        return base, base
    if e == "reorder_definitions":
        return base, model("", "Data", extra=rec).replace(BASE_DEFS, "").replace("P: !protocol", "P: !protocol", 1) + BASE_DEFS if False else (
            rec + "P: !protocol\n  sequence:\n    first: int\n    probe: Data\n    last: Color\n" + BASE_DEFS)
    if e == "rename_with_alias":
        return base, model("Renamed: !record\n  fields:\n    a: int\n    b: string\n    c: float?\nData: Renamed\n", "Renamed")
    if e == "add_unused_type":
        return base, base + "Unused: !record\n  fields:\n    q: int\nUnusedE: !enum\n  values: [x, y]\n"
    if e == "add_comments":
        return base, "# a file comment\n" + base.replace("    a: int\n", "    # the a field\n    a: int\n", 1).replace("P: !protocol", "# the protocol\nP: !protocol")
    if e == "add_optional_field":
        return base, model(rec + "    d: string?\n", "Data")
    if e == "remove_optional_field":
        return base, model(rec.replace("    c: float?\n", ""), "Data")
    if e == "reorder_fields":
        return base, model("Data: !record\n  fields:\n    b: string\n    c: float?\n    a: int\n", "Data")
    if e == "add_alias":
        return base, model(rec + "DataAlias: Data\n", "DataAlias")
    if e == "remove_alias":
        return model(rec + "DataAlias: Data\n", "DataAlias"), base
    if e == "add_stream_step":
        return base, model(rec, "Data", steps_after="    last: Color\n    more: !stream {items: int}\n")
    if e == "add_vector_step":
        return base, model(rec, "Data", steps_after="    last: Color\n    more: !vector {items: int}\n")
    if e == "add_optional_step":
        return base, model(rec, "Data", steps_after="    last: Color\n    more: [null, string]\n")
    ADDED = {"add_aliased_vector_step": ("Samples: float*\n", "Samples"), "add_alias_of_alias_vector_step": ("Samples: float*\nSeries: Samples\n", "Series"),
             "add_generic_alias_vector_step": ("SeriesOf<T>: T*\n", "SeriesOf<float>"), "add_aliased_optional_step": ("MaybeNote: string?\n", "MaybeNote"),
             "add_generic_alias_optional_step": ("MaybeOf<T>: T?\n", "MaybeOf<Data>"), "add_vector_of_records_step": ("", "!vector {items: Data}"),
             "add_fixed_vector_step": ("", "!vector {items: int, length: 3}")}
    if e in ADDED:
        defs, ty = ADDED[e]
        return base, model(rec + defs, "Data", steps_after="    last: Color\n    more: %s\n" % ty)
    if e == "add_required_field":
        return base, model(rec + "    d: string\n", "Data")
    if e == "remove_required_field":
        return base, model(rec.replace("    b: string\n", ""), "Data")
    rec4 = "Data: !record\n  fields:\n    a: int\n    b: string\n    c: float?\n    d: long\n"
    if e == "remove_first_required_field":
        return model(rec4, "Data"), model(rec4.replace("    a: int\n", ""), "Data")
    if e == "remove_last_required_field":
        return model(rec4, "Data"), model(rec4.replace("    d: long\n", ""), "Data")
    if e == "remove_last_two_fields":
        return model(rec4, "Data"), model(rec4.replace("    c: float?\n    d: long\n", ""), "Data")
    if e == "add_first_required_field":
        return model(rec4, "Data"), model(rec4.replace("    a: int\n", "    z: double\n    a: int\n"), "Data")
    if e == "remove_last_optional_field":
        return base, model(rec.replace("    c: float?\n", ""), "Data")
    if e == "remove_step":
        return base, model(rec, "Data", steps_before="")
    if e == "reorder_steps":
        return base, BASE_DEFS + rec + "P: !protocol\n  sequence:\n    probe: Data\n    first: int\n    last: Color\n"
    if e == "enum_add_value":
        return base, base.replace("values: [red, green, blue]", "values: [red, green, blue, black]")
    if e == "enum_remove_value":
        return base, base.replace("values: [red, green, blue]", "values: [red, green]")
    if e == "enum_change_value":
        return base, base.replace("values: [red, green, blue]", "values: {red: 0, green: 1, blue: 5}")
    if e in ("flags_add_value", "flags_change_value"):
        b0 = model(rec, "Data", steps_after="    last: Color\n    perm: Perm\n")
        return b0, b0.replace("values: [r, w]", "values: [r, w, x]" if e == "flags_add_value" else "values: {r: 1, w: 4}")
    if e == "generic_add_parameter":
        b0 = model(rec, "G<int>")
        return b0, b0.replace("G<T>: !record\n  fields:\n    g: T\n", "G<T, U>: !record\n  fields:\n    g: T\n    h: U?\n").replace("probe: G<int>", "probe: G<int, int>")
    if e == "generic_remove_parameter":
        b1 = model(rec, "G<int>")
        b0 = b1.replace("G<T>: !record\n  fields:\n    g: T\n", "G<T, U>: !record\n  fields:\n    g: T\n    h: U?\n").replace("probe: G<int>", "probe: G<int, int>")
        return b0, b1
    raise KeyError(e)
