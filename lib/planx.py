"""Extraction of serializer construction expressions from generated Python and MATLAB code and their normalisation to the plan
vocabulary of spec/wire/Plan.tla.  Extraction failure raises ExtractError (an infrastructure problem, never a verdict)."""
import os, re


class ExtractError(Exception):
    pass


# ---- a tiny expression parser: Name(args), [a, b], (a, b), {a, b}, 'str', "str", numbers, @name, dotted names
def tokenize(s):
    toks, i = [], 0
    while i < len(s):
        ch = s[i]
        if ch.isspace():
            i += 1
        elif ch in "()[]{},;=:":
            toks.append(ch)
            i += 1
        elif ch in "'\"":
            j = i + 1
            while j < len(s) and s[j] != ch:
                j += 1
            toks.append(("str", s[i + 1:j]))
            i = j + 1
        else:
            j = i
            while j < len(s) and (s[j].isalnum() or s[j] in "._@"):
                j += 1
            if j == i:
                raise ExtractError("unexpected character %r in %r" % (ch, s[max(0, i - 20):i + 20]))
            toks.append(("id", s[i:j]))
            i = j
    return toks


def parse(s):
    toks = tokenize(s)
    pos = [0]

    def expr():
        t = toks[pos[0]]
        if t in ("[", "(", "{"):
            close = {"[": "]", "(": ")", "{": "}"}[t]
            pos[0] += 1
            items = []
            while toks[pos[0]] != close:
                items.append(expr())
                if toks[pos[0]] in (",", ";"):
                    pos[0] += 1
            pos[0] += 1
            return ("list", items)
        pos[0] += 1
        if isinstance(t, tuple) and t[0] == "str":
            return ("str", t[1])
        if isinstance(t, tuple) and t[0] == "id":
            name = t[1]
            if pos[0] < len(toks) and toks[pos[0]] == "(":
                pos[0] += 1
                args = []
                while toks[pos[0]] != ")":
                    args.append(expr())
                    if toks[pos[0]] == ",":
                        pos[0] += 1
                pos[0] += 1
                return ("call", name, args)
            return ("id", name)
        raise ExtractError("unexpected token %r" % (t,))
    e = expr()
    return e


def balanced(text, start):
    """text[start] is an opening bracket; return the index just after its match."""
    depth, i, q = 0, start, None
    while i < len(text):
        ch = text[i]
        if q:
            if ch == q:
                q = None
        elif ch in "'\"":
            q = ch
        elif ch in "([{":
            depth += 1
        elif ch in ")]}":
            depth -= 1
            if depth == 0:
                return i + 1
        i += 1
    raise ExtractError("unbalanced expression")


def N(n, a=(), k=()):
    return {"n": n, "a": list(a), "k": list(k)}


PRIMS = {"bool": "Bool", "int8": "Int8", "int16": "Int16", "int32": "Int32", "int64": "Int64", "uint8": "Uint8", "uint16": "Uint16",
         "uint32": "Uint32", "uint64": "Uint64", "size": "Size", "float32": "Float32", "float64": "Float64", "complexfloat32": "ComplexFloat32",
         "complexfloat64": "ComplexFloat64", "string": "String", "date": "Date", "time": "Time", "datetime": "DateTime"}


def ints(e):
    if e[0] == "id":
        return [int(e[1])]
    if e[0] == "list":
        return [int(x[1]) for x in e[1]]
    raise ExtractError("expected integers, got %r" % (e,))


# ----------------------------------------------------------------------------- Python
class PyPlans:
    def __init__(self, binary_py_text, imported=None):
        self.text = binary_py_text
        self.imported = imported or {}        # module alias -> PyPlans of an imported namespace
        self.classes = {}
        for m in re.finditer(r"^class (\w+)\((?:typing\.Generic\[[^\]]*\], )?_binary\.RecordSerializer\[.*?\]\):\n    def __init__\(self(.*?)\) -> None:\n(.*?)\n\n", binary_py_text, re.S | re.M):
            name, params, body = m.groups()
            i = body.index("super().__init__(") + len("super().__init__")
            j = balanced(body, i)
            plist = re.findall(r"(\w+): _binary\.TypeSerializer", params)
            self.classes[name] = (plist, body[i + 1:j - 1])

    def step_exprs(self, writer_class):
        m = re.search(r"^class %s\(.*?\n(.*?)(?=^class |\Z)" % re.escape(writer_class), self.text, re.S | re.M)
        if not m:
            raise ExtractError("class %s not found" % writer_class)
        res = {}
        for mm in re.finditer(r"def _write_(\w+)\(self, value.*?\n\s+(.*)\.write\(self\._stream, value\)", m.group(1)):
            res[mm.group(1)] = mm.group(2).strip()
        return res

    def norm(self, e, env=None):
        env = env or {}
        if e[0] == "id":
            name = e[1]
            if name in env:
                return env[name]
            m = re.fullmatch(r"_binary\.(\w+)_serializer", name)
            if m and m.group(1) in PRIMS:
                return N(PRIMS[m.group(1)])
            if name == "_binary.none_serializer":
                return N("None")
            raise ExtractError("unknown python serializer %s" % name)
        if e[0] == "call":
            name, args = e[1], e[2]
            short = name.split(".")[-1]
            if name.startswith("_binary."):
                if short == "OptionalSerializer":
                    return N("Optional", [self.norm(args[0], env)])
                if short == "VectorSerializer":
                    return N("Vector", [self.norm(args[0], env)])
                if short == "FixedVectorSerializer":
                    return N("FixedVector", [self.norm(args[0], env)], ints(args[1]))
                if short == "FixedNDArraySerializer":
                    return N("FixedNDArray", [self.norm(args[0], env)], ints(args[1]))
                if short == "NDArraySerializer":
                    return N("NDArray", [self.norm(args[0], env)], ints(args[1]))
                if short == "DynamicNDArraySerializer":
                    return N("DynamicNDArray", [self.norm(args[0], env)])
                if short == "MapSerializer":
                    return N("Map", [self.norm(args[0], env), self.norm(args[1], env)])
                if short == "StreamSerializer":
                    return N("Stream", [self.norm(args[0], env)])
                if short == "EnumSerializer":
                    base = [a for a in args if a[0] == "id" and a[1].startswith("_binary.")]
                    if len(base) != 1:
                        raise ExtractError("EnumSerializer arguments not understood")
                    return N("Enum", [self.norm(base[0], env)])
                if short == "UnionSerializer":
                    items = args[1][1]
                    nullable = items and items[0] == ("id", "None")
                    cases = [self.norm(x[1][1], env) for x in items if x[0] == "list"]
                    return N("Union", cases, [1 if nullable else 0])
                raise ExtractError("unknown python serializer call %s" % name)
            # a record serializer class of this or an imported namespace
            owner, cls = self, short
            if "." in name:
                mod = name.split(".")[0]
                if mod in self.imported:
                    owner = self.imported[mod]
            if cls in owner.classes:
                plist, body = owner.classes[cls]
                sub = {p: self.norm(a, env) for p, a in zip(plist, args)}
                fields = parse(body)
                return N("Record", [owner.norm(f[1][1], sub) for f in fields[1]])
            raise ExtractError("unknown python serializer class %s" % name)
        raise ExtractError("cannot normalise %r" % (e,))


# ----------------------------------------------------------------------------- MATLAB
class MatlabPlans:
    def __init__(self, pkg_dir):
        """pkg_dir: the +<ns> directory of the generated MATLAB package (its parent holds imported namespaces' +dirs too)."""
        self.root = os.path.dirname(pkg_dir)
        self.ns = os.path.basename(pkg_dir)[1:]

    def record(self, qualified):
        parts = qualified.split(".")          # ns.binary.XSerializer
        path = os.path.join(self.root, "+" + parts[0], "+binary", parts[-1] + ".m")
        if not os.path.exists(path):
            raise ExtractError("MATLAB serializer file for %s not found" % qualified)
        text = open(path).read()
        m = re.search(r"function self = \w+\((.*?)\)", text)
        params = [p.strip() for p in m.group(1).split(",") if p.strip()] if m else []
        fields = re.findall(r"field_serializers\{(\d+)\} = (.*);", text)
        return params, [f[1] for f in sorted(fields, key=lambda x: int(x[0]))]

    def step_exprs(self, writer_file):
        text = open(writer_file).read()
        return {m.group(1): m.group(2) for m in re.finditer(r"self\.(\w+)_serializer = (.*);", text)}

    def norm(self, e, env=None):
        env = env or {}
        if e[0] == "id":
            name = e[1]
            if name in env:
                return env[name]
            m = re.fullmatch(r"yardl\.binary\.(\w+)Serializer", name)
            if m:
                key = m.group(1).lower()
                if key in PRIMS:
                    return N(PRIMS[key])
                if key == "none":
                    return N("None")
            raise ExtractError("unknown MATLAB serializer %s" % name)
        if e[0] == "call":
            name, args = e[1], e[2]
            short = name.split(".")[-1]
            if name.startswith("yardl.binary."):
                if short == "OptionalSerializer":
                    return N("Optional", [self.norm(args[0], env)])
                if short == "VectorSerializer":
                    return N("Vector", [self.norm(args[0], env)])
                if short == "FixedVectorSerializer":
                    return N("FixedVector", [self.norm(args[0], env)], ints(args[1]))
                if short == "FixedNDArraySerializer":
                    return N("FixedNDArray", [self.norm(args[0], env)], list(reversed(ints(args[1]))))     # MATLAB is column-major
                if short == "NDArraySerializer":
                    return N("NDArray", [self.norm(args[0], env)], ints(args[1]))
                if short == "DynamicNDArraySerializer":
                    return N("DynamicNDArray", [self.norm(args[0], env)])
                if short == "MapSerializer":
                    return N("Map", [self.norm(args[0], env), self.norm(args[1], env)])
                if short == "StreamSerializer":
                    return N("Stream", [self.norm(args[0], env)])
                if short == "EnumSerializer":
                    return N("Enum", [self.norm(args[-1], env)])
                if short == "UnionSerializer":
                    sers = [self.norm(x, env) for x in args[1][1]]
                    nullable = bool(sers) and sers[0]["n"] == "None"
                    return N("Union", sers[1:] if nullable else sers, [1 if nullable else 0])
                raise ExtractError("unknown MATLAB serializer call %s" % name)
            params, fields = self.record(name)
            sub = {p: self.norm(a, env) for p, a in zip(params, args)}
            return N("Record", [self.norm(parse(f), sub) for f in fields])
        raise ExtractError("cannot normalise %r" % (e,))


def diff(spec, got, path="plan"):
    """First difference between the spec plan and an extracted plan, or None."""
    if spec["n"] != got["n"]:
        return "%s: the specification prescribes %s, the backend uses %s" % (path, spec["n"], got["n"])
    if list(spec["k"]) != list(got["k"]):
        return "%s (%s): parameters %s prescribed, %s used" % (path, spec["n"], list(spec["k"]), list(got["k"]))
    if len(spec["a"]) != len(got["a"]):
        return "%s (%s): %d sub-plans prescribed, %d used" % (path, spec["n"], len(spec["a"]), len(got["a"]))
    for i, (a, b) in enumerate(zip(spec["a"], got["a"])):
        d = diff(a, b, "%s.%s[%d]" % (path, spec["n"], i))
        if d:
            return d
    return None
