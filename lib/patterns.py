"""Stream / non-stream patterns of NdjsonReader.tla run as cross-language, cross-format chains (used by C03).

NDJSON has no end-of-stream marker; readers look one line ahead.  Every protocol shape x stream lengths exported by TLC
(adjacent and empty streams included) is written as NDJSON text, translated to binary by one language and back to NDJSON by the
other one; the lines that come back must be the lines that were written."""
import os, re, json
from common import *
import wirelib, drivers


def run_chains(c, sc, yardl, home, thorough, prefix):
    pres = tlc("NdjsonReader", cfg="MCNdjsonReader4.cfg" if thorough else "MCNdjsonReader.cfg", timeout=600)
    c.add_tlc(pres)
    pats = tlc_cases(pres.out)
    shapes = sorted(set(tuple(x["shape"]) for x in pats))

    class PatPkg:
        def __init__(self, shape, idx):
            self.shape, self.root, self.ok, self.problem = list(shape), os.path.join(sc, "xpat%d" % idx), False, None
            self.ns = "Xp%d" % idx

        def prepare(self):
            os.makedirs(os.path.join(self.root, "model"), exist_ok=True)
            seq = "\n".join("    s%d: %s" % (i, "!stream {items: int}" if st else "int") for i, st in enumerate(self.shape))
            open(os.path.join(self.root, "model", "model.yml"), "w").write("P: !protocol\n  sequence:\n%s\n" % seq)
            open(os.path.join(self.root, "model", "_package.yml"), "w").write(
                "namespace: %s\ncpp:\n  sourcesOutputDir: ../cpp\n  generateHDF5: false\n  generateCMakeLists: false\n"
                "  overrideArrayHeader: yardl_shim_ndarray.h\npython:\n  outputDir: ../py\n" % self.ns)
            rc, out, err = run([yardl, "generate"], cwd=os.path.join(self.root, "model"), env=yardl_env(home), timeout=120)
            if rc != 0:
                self.problem = "yardl generate failed: " + err[-500:]
                return self
            self.pymod = [d for d in os.listdir(os.path.join(self.root, "py")) if os.path.isdir(os.path.join(self.root, "py", d))][0]
            self.schema = wirelib.extract_schema_py(open(os.path.join(self.root, "py", self.pymod, "protocols.py")).read(), "P")
            m = re.search(r"namespace ([A-Za-z0-9_]+) \{", open(os.path.join(self.root, "cpp", "protocols.h")).read())
            self.exe = os.path.join(self.root, "drv")
            ok, log = drivers.cpp_build(os.path.join(self.root, "cpp"), m.group(1), "P", sum(self.shape), self.exe)
            if not ok:
                self.problem = "generated C++ does not compile: " + log[-800:]
                return self
            self.ok = True
            return self

    ppk = {s: PatPkg(s, i) for i, s in enumerate(shapes)}
    pmap(lambda p: p.prepare(), list(ppk.values()), jobs=max(2, NCPU // 4))
    unusable = [p for p in ppk.values() if not p.ok]
    if len(unusable) > len(ppk) // 2:
        raise Inconclusive("stream pattern packages unusable: %s" % (unusable[0].problem or "")[:400])

    def copy(p, lang, a, b, fi, fo, tag):
        if lang == "py":
            return drivers.py_copy(os.path.join(p.root, "py"), p.pymod, "P", a, b, fi, fo)
        return drivers.cpp_copy(p.exe, a, b, fi, fo, bufsize=1 + len(tag) % 2)

    def work(x):
        p = ppk[tuple(x["shape"])]
        if not p.ok:
            return x, None, None
        lines = [wirelib.ndjson_header(p.schema)]
        v = 0
        for i, st in enumerate(p.shape):
            for k in range(x["lens"][i] if st else 1):
                v += 1
                lines.append(json.dumps({"s%d" % i: v * (-1) ** v}, separators=(",", ":")))
        tag = "".join(str(n) for n in x["lens"])
        infile = os.path.join(p.root, "in-%s.ndjson" % tag)
        open(infile, "w").write("\n".join(lines) + "\n")
        want = [json.loads(l) for l in lines]
        for first, second in (("py", "cpp"), ("cpp", "py")):
            mid = os.path.join(p.root, "mid-%s-%s.bin" % (tag, first))
            back = os.path.join(p.root, "back-%s-%s.ndjson" % (tag, second))
            rc, err = copy(p, first, "ndjson", "binary", infile, mid, tag)
            if rc != 0:
                e = [l for l in err.splitlines() if l.startswith("EXC")]
                return x, "%s ndjson->binary raised on a well-formed stream: %s" % (first, (e[-1] if e else err.strip()[-200:])[:250]), infile
            rc, err = copy(p, second, "binary", "ndjson", mid, back, tag)
            if rc != 0:
                e = [l for l in err.splitlines() if l.startswith("EXC")]
                return x, "%s binary->ndjson raised on the binary stream that %s produced from a well-formed NDJSON stream: %s" % (
                    second, first, (e[-1] if e else err.strip()[-200:])[:250]), infile
            try:
                got = [json.loads(l) for l in open(back).read().split("\n") if l.strip()]
            except Exception:
                got = None
            if got != want:
                return x, "%s ndjson->binary then %s binary->ndjson: value lines %s, written %s" % (
                    first, second, json.dumps((got or [])[1:])[:200], json.dumps(want[1:])[:200]), infile
        return x, None, infile

    for x, bad, infile in pmap(work, pats):
        if infile is None:
            continue
        c.cov["traces_validated_against_impl"] += 1
        c.count(("pattern-chain", json.dumps(x)), nontrivial=sum(x["shape"]) > 0)
        if bad:
            c.violation("%s:pattern-chain:%s" % (prefix, bad.split(" ")[0]), bad,
                        {"shape_stream_flags": x["shape"], "stream_lengths": x["lens"], "input": open(infile).read()[-2000:]})
    c.cov["stream_pattern_chains"] = len(pats)
