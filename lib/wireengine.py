"""Shared engine of the wire checks (C01, C02, C03, ...): export cases from spec/wire/WireCases.tla with TLC, pack them
into packages, generate code with the yardl built from the working tree, build the C++ driver, run the legs."""
import json, os, shutil, hashlib
from common import *
import wirelib, drivers


def export_cases(depth, mod=1, rem=0, timeout=1800, tier="quick"):
    wd = scratch("verif-wc-")
    out = os.path.join(wd, "cases.ndjson")
    res = tlc_eval("WireCases", timeout=timeout, workdir=wd,
                   env={"VERIF_OUT": out, "VERIF_TIER": tier, "VERIF_DEPTH": str(depth), "VERIF_MOD": str(mod), "VERIF_REM": str(rem)})
    if not os.path.exists(out):
        raise Inconclusive("WireCases produced no export:\n" + res.out[-3000:])
    cases = [json.loads(l) for l in open(out) if l.strip()]
    shutil.rmtree(wd, ignore_errors=True)
    # TLC reports no state graph for a constant module; count evaluated cases instead
    return cases, res


def group_types(cases):
    """-> list of (type tree, [case records sorted by i])."""
    by = {}
    for c in cases:
        by.setdefault(json.dumps(c["t"], sort_keys=True), []).append(c)
    res = []
    for k in sorted(by):
        cs = sorted(by[k], key=lambda c: c["i"])
        for c in cs:
            c["enc_b"] = [bytes(e) for e in c["enc"]]
        res.append((cs[0]["t"], cs))
    return res


def type_class(t):
    """Coarse shape class used in violation keys and distinct-case counting."""
    k = t["k"]
    if k == "prim":
        return t["p"]
    if k in ("opt", "vec", "fvec", "farr", "ndarr", "dynarr", "alias"):
        return "%s(%s)" % (k, type_class(t["t"]))
    if k == "map":
        return "map(%s,%s)" % (type_class(t["kt"]), type_class(t["vt"]))
    if k == "union":
        return "union(%s%s)" % ("null," if t["nullable"] else "", ",".join(type_class(c["t"]) for c in t["cases"]))
    if k in ("enum", "flags"):
        return "%s(%s)" % (k, t["base"])
    if k == "rec":
        return "rec(%s)" % ",".join(type_class(f["t"]) for f in t["fields"])
    return k


def _resolve(t):
    while t["k"] == "alias":
        t = t["t"]
    return t


def _deep(t):
    """the type with every alias replaced by what it stands for (what the C++ type system sees)"""
    if isinstance(t, dict):
        if t.get("k") == "alias":
            return _deep(t["t"])
        return {k: _deep(v) for k, v in t.items() if k not in ("name", "tag")}
    if isinstance(t, list):
        return [_deep(x) for x in t]
    return t


def _unions(t, out):
    if isinstance(t, dict):
        if t.get("k") == "union":
            out.append(t)
        for v in t.values():
            _unions(v, out)
    elif isinstance(t, list):
        for x in t:
            _unions(x, out)


def cpp_variant_tag_clash(p):
    """Shape classes of the unions of package p that are ONE std::variant type in C++ (equal after alias resolution) but are spelled
    with different case types, hence carry different NDJSON tags - the generated C++ has one JSON converter per variant type."""
    us = []
    for s in p.steps:
        _unions(s["t"], us)
    groups = {}
    for u in us:
        groups.setdefault(json.dumps(_deep(u), sort_keys=True), set()).add(type_class(u))
    out = set()
    for g in groups.values():
        if len(g) > 1:
            out |= g
    return out


def cpp_unbuildable(t, top=True):
    """Type shapes for which the generated C++ does not compile on the pinned tree (std::vector<bool>: `bool*` and
    streams of bool) - a C08 finding, not something the wire checks can judge.  Such types are exercised through the
    Python backend only."""
    r = _resolve(t)
    k = r["k"]
    if top and k == "prim" and r["p"] == "bool":
        return True                      # could become a stream step: std::vector<bool> in the batch overloads
    if k in ("vec",) and _resolve(r["t"])["k"] == "prim" and _resolve(r["t"])["p"] == "bool":
        return True
    for key in ("t", "kt", "vt"):
        if key in r and cpp_unbuildable(r[key], False):
            return True
    if k == "union":
        return any(cpp_unbuildable(c["t"], False) for c in r["cases"])
    if k == "rec":
        return any(cpp_unbuildable(f["t"], False) for f in r["fields"])
    return False


class Package:
    def __init__(self, idx, types, root, ndjson=True, langs=("py", "cpp")):
        self.langs = langs
        self.idx = idx
        self.ns = "Wp%d" % idx
        self.ns_cpp = "wp%d" % idx          # resolved after generation (directory / namespace actually emitted)
        self.proto = "P"
        self.root = os.path.join(root, "pkg%d" % idx)
        self.steps = []
        for i, (t, cs) in enumerate(types):
            self.steps.append({"name": "s%d" % i, "t": t, "stream": i % 2 == 1, "cases": cs,
                               "jcases": [c for c in cs if c["jsonable"]]})
        self.n_streams = sum(1 for s in self.steps if s["stream"])
        self.ndjson = ndjson
        self.ok = False
        self.problem = None
        self.style = {}        # spelling choices of the concretiser (wirelib.Concretiser), e.g. {"generics": "imported"}

    def write_model(self):
        os.makedirs(os.path.join(self.root, "model"), exist_ok=True)
        c = wirelib.Concretiser(getattr(self, "style", None))
        ptxt = c.protocol(self.proto, [(s["name"], s["t"], s["stream"]) for s in self.steps])
        with open(os.path.join(self.root, "model", "model.yml"), "w") as f:
            f.write(c.model_text(ptxt))
        imports = ""
        if c.lib_defs:
            os.makedirs(os.path.join(self.root, "lib"), exist_ok=True)
            open(os.path.join(self.root, "lib", "_package.yml"), "w").write("namespace: Lib\n")
            open(os.path.join(self.root, "lib", "lib.yml"), "w").write(c.lib_text())
            imports = "imports:\n  - ../lib\n"
        with open(os.path.join(self.root, "model", "_package.yml"), "w") as f:
            f.write(imports)
            f.write("namespace: %s\n"
                    "cpp:\n  sourcesOutputDir: ../cpp\n  generateHDF5: false\n  generateCMakeLists: false\n"
                    "  generateNDJson: %s\n  overrideArrayHeader: yardl_shim_ndarray.h\n"
                    "python:\n  outputDir: ../py\n  generateNDJson: %s\n" % (self.ns, "true" if self.ndjson else "false",
                                                                             "true" if self.ndjson else "false"))

    def generate(self, yardl, home):
        self.write_model()
        rc, out, err = run([yardl, "generate"], cwd=os.path.join(self.root, "model"), env=yardl_env(home), timeout=120)
        if rc != 0:
            self.problem = "yardl generate failed (harness built an invalid package?): " + err[-1500:]
            return False
        mods = [d for d in os.listdir(os.path.join(self.root, "py")) if os.path.isdir(os.path.join(self.root, "py", d))]
        if len(mods) != 1:
            self.problem = "unexpected python output layout %s" % mods
            return False
        self.pymod = mods[0]
        self.schema = wirelib.extract_schema_py(open(os.path.join(self.root, "py", self.pymod, "protocols.py")).read(), self.proto)
        if self.schema is None:
            self.problem = "cannot extract schema literal from generated protocols.py"
            return False
        import re
        hp = os.path.join(self.root, "cpp", "protocols.h")
        if os.path.exists(hp):
            m = re.search(r"namespace ([A-Za-z0-9_]+) \{", open(hp).read())
            self.ns_cpp = m.group(1) if m else self.ns_cpp
        return True

    def build_cpp(self, sanitize=False):
        self.exe = os.path.join(self.root, "drv_san" if sanitize else "drv")
        ok, log = drivers.cpp_build(os.path.join(self.root, "cpp"), self.ns_cpp, self.proto, self.n_streams, self.exe,
                                    ndjson=self.ndjson, sanitize=sanitize)
        if not ok:
            self.problem = "generated C++ does not compile: " + log[-2000:]
        return ok

    # ---- runs
    def n_runs(self, cap):
        return min(cap, max(len(s["cases"]) for s in self.steps))

    def run_values(self, r, jsonable_only):
        """-> per step: ("value", case) or ("stream", [cases])"""
        res = []
        for s in self.steps:
            cs = s["jcases"] if jsonable_only else s["cases"]
            if not cs:
                if not s["stream"]:
                    return None          # no JSON-representable value of this step's type in the universe
                res.append(("stream", []))
                continue
            if s["stream"]:
                res.append(("stream", [cs[(r - 1 + k) % len(cs)] for k in range((r + len(res)) % 4)]))
            else:
                res.append(("value", cs[(r - 1) % len(cs)]))
        return res

    def spec_binary(self, vals, block=None):
        steps = [(k, c["enc_b"][0]) if k == "value" else (k, [x["enc_b"][0] for x in c]) for k, c in vals]
        return wirelib.compose_binary(self.schema, steps, block)

    def spec_ndjson(self, vals):
        steps = [(s["name"], k, c["json"][0]) if k == "value" else (s["name"], k, [x["json"][0] for x in c])
                 for s, (k, c) in zip(self.steps, vals)]
        return wirelib.compose_ndjson(self.schema, steps)

    def check_binary(self, buf, vals):
        steps = [(k, c["enc_b"]) if k == "value" else (k, [x["enc_b"] for x in c]) for k, c in vals]
        return wirelib.match_binary_stream(buf, self.schema, steps)

    def check_ndjson(self, text, vals):
        steps = [(s["name"], k, c["json"]) if k == "value" else (s["name"], k, [x["json"] for x in c])
                 for s, (k, c) in zip(self.steps, vals)]
        return wirelib.match_ndjson(text, self.schema, steps)

    def copy(self, lang, infmt, outfmt, infile, outfile, bufsize=1, mode="copy"):
        if lang == "cpp":
            return drivers.cpp_copy(self.exe, infmt, outfmt, infile, outfile, bufsize)
        return drivers.py_copy(os.path.join(self.root, "py"), self.pymod, self.proto, infmt, outfmt, infile, outfile, mode)


def make_packages(types, per_pkg, root, ndjson=True):
    pkgs = []
    both = [x for x in types if not cpp_unbuildable(x[0])]
    pyonly = [x for x in types if cpp_unbuildable(x[0])]
    for lst, langs in ((both, ("py", "cpp")), (pyonly, ("py",))):
        for i in range(0, len(lst), per_pkg):
            pkgs.append(Package(len(pkgs), lst[i:i + per_pkg], root, ndjson, langs))
    return pkgs


def prepare(pkgs, yardl, home, langs=("py", "cpp"), sanitize=False, notes=None):
    """Generate and build all packages in parallel.  Returns the usable ones."""
    def prep(p):
        if not p.generate(yardl, home):
            return p
        if "cpp" in langs and "cpp" in p.langs and not p.build_cpp(sanitize):
            return p
        p.ok = True
        return p
    pmap(prep, pkgs, jobs=max(2, NCPU // 4))
    bad = [p for p in pkgs if not p.ok]
    for p in bad:
        if notes is not None:
            notes.append("package %d unusable: %s" % (p.idx, (p.problem or "")[:600]))
    return [p for p in pkgs if p.ok], bad


def leg(p, lang, infmt, outfmt, vals, tag, block=None, bufsize=1, mode="copy", inbytes=None, check_output=True):
    """Run one copy leg; returns dict(ok, msg, out)."""
    wd = os.path.join(p.root, "io")
    os.makedirs(wd, exist_ok=True)
    infile = os.path.join(wd, "%s.in.%s" % (tag, "bin" if infmt == "binary" else "ndjson"))
    outfile = os.path.join(wd, "%s.out.%s" % (tag, "bin" if outfmt == "binary" else "ndjson"))
    if inbytes is None:
        inbytes = p.spec_binary(vals, block) if infmt == "binary" else p.spec_ndjson(vals).encode("utf-8")
    with open(infile, "wb") as f:
        f.write(inbytes)
    if os.path.exists(outfile):
        os.remove(outfile)
    rc, err = p.copy(lang, infmt, outfmt, infile, outfile, bufsize, mode)
    res = {"rc": rc, "stderr": err[-800:], "in": infile, "out": outfile}
    if rc != 0:
        import re
        exc = [l for l in err.splitlines() if l.startswith("EXC:")]
        m = re.findall(r"_(?:read|write)_s(\d+)\b", err)
        where = (" (step %s)" % m[-1]) if m else ""
        res.update(ok=False, msg="%s %s->%s: generated code failed on a well-formed stream%s: %s" % (
            lang, infmt, outfmt, where, (exc[-1] if exc else "exit status %s %s" % (rc, err.strip()[-200:]))[:300]))
        return res
    try:
        data = open(outfile, "rb").read()
    except OSError:
        res.update(ok=False, msg="no output written")
        return res
    res["outbytes"] = data
    if not check_output:
        res.update(ok=True, msg="")
        return res
    if outfmt == "binary":
        ok, msg = p.check_binary(data, vals)
    else:
        try:
            ok, msg = p.check_ndjson(data.decode("utf-8"), vals)
        except UnicodeDecodeError as e:
            ok, msg = False, "output is not UTF-8: %s" % e
    res.update(ok=ok, msg=("%s %s->%s: " % (lang, infmt, outfmt)) + msg if not ok else "")
    return res


def blame_step(p, msg):
    """Find the step a message refers to ("step N" / "(sN)"), to key violations by type shape."""
    import re
    m = re.search(r"step (\d+)", msg) or re.search(r"\(s(\d+)\)", msg)
    if m and int(m.group(1)) < len(p.steps):
        return p.steps[int(m.group(1))]
    return None


# ----------------------------------------------------------------------------- large payloads / buffer boundaries (WireBig.tla)

def export_big(pad, timeout=900):
    wd = scratch("verif-wb-")
    out = os.path.join(wd, "big.ndjson")
    tlc_eval("WireBig", timeout=timeout, workdir=wd, env={"VERIF_OUT": out, "VERIF_PAD": str(pad), "VERIF_SCALE": "1"})
    if not os.path.exists(out):
        raise Inconclusive("WireBig produced no export")
    recs = [json.loads(l) for l in open(out) if l.strip()]
    shutil.rmtree(wd, ignore_errors=True)
    return recs


class BigPackage(Package):
    """One protocol whose steps are the records of WireBig.tla; the values of a run come from the export for one pad length."""

    def __init__(self, root, recs):
        self.langs = ("py", "cpp")
        self.idx = 0
        self.ns, self.ns_cpp, self.proto = "Wbig", "wbig", "P"
        self.root = os.path.join(root, "pkgbig")
        self.steps = [{"name": r["name"], "t": r["t"], "stream": r["stream"], "cases": [], "jcases": []} for r in recs]
        self.n_streams = sum(1 for s in self.steps if s["stream"])
        self.ndjson = True
        self.ok = False
        self.problem = None

    def vals_for(self, recs):
        vals = []
        for r in recs:
            if r["stream"]:
                vals.append(("stream", [{"enc_b": [bytes(e)], "json": [j]} for e, j in zip(r["enc"], r["json"])]))
            else:
                vals.append(("value", {"enc_b": [bytes(r["enc"][0])], "json": [r["json"][0]]}))
        return vals
