"""Concretiser and type-agnostic comparators for the wire properties.

 * type tree (as exported by spec/wire/WireCases.tla) -> yardl YAML text
 * spec JSON tree -> Python JSON value (leaf tokens through lib/tokens.py), and leaf-kind-aware matching of actual JSON
 * stream framing around spec-provided encodings (header; blocks) and the generic matcher that checks an actual binary
   stream against per-step / per-item sets of admissible encodings.
None of this knows how any yardl type is encoded: all encodings come from the specification's export.
"""
import hashlib, json, math, struct
import tokens

PRIM_SPELL = {}


def tname(prefix, t):
    return prefix + hashlib.sha1(json.dumps(t, sort_keys=True).encode()).hexdigest()[:8].upper().replace("0", "G")


ALIAS_SPELLING = {"int32": "int", "uint32": "uint", "int64": "long", "uint64": "ulong", "float32": "float", "float64": "double",
                  "complexfloat32": "complexfloat", "complexfloat64": "complexdouble", "uint8": "byte"}


class Concretiser:
    """Collects named type definitions while rendering type expressions.

    style (spelling choices, see spec/lang/Spelling.tla):
      shorthand   use the string syntax (T?, T*, T*3, T[], T[,], T[2,3], K->V, [A, B]) wherever it can express the type
      prim_alias  spell primitives by their aliases (int for int32, ...)
      optional    "question" (T? / [null, T] as the shorthand chooses) or "union" (always [null, T])
    The default is the fully expanded syntax with canonical primitive names."""

    def __init__(self, style=None):
        self.defs = {}      # name -> yaml text of the definition
        self.order = []
        self.style = dict(shorthand=False, prim_alias=False, optional="union", generics="none", generic_unions=False)
        self.style.update(style or {})
        self.lib_defs = {}      # definitions that live in the imported package "Lib" (generics == "imported")
        self.lib_order = []

    def _define(self, name, text):
        if name not in self.defs:
            self.defs[name] = text
            self.order.append(name)

    def prim(self, p):
        return ALIAS_SPELLING.get(p, p) if self.style["prim_alias"] else p

    def short(self, t):
        """Shorthand string for t, or None if the string syntax cannot express it."""
        k = t["k"]
        if k == "prim":
            return self.prim(t["p"])
        if k == "rec" and self.style["generics"] != "none" and t["fields"]:
            n = self.node(t)
            return n.strip('"') if not n.startswith("!") else None      # G<a, b> if every argument has a shorthand
        if k in ("enum", "flags", "rec", "alias"):
            return self.node(t)          # a name
        inner = self.short(t["t"]) if "t" in t else None
        def atom(x, node):
            # postfix operators bind to a simple name, an already postfixed type or a parenthesised type
            return x if node["k"] in ("prim", "enum", "flags", "rec", "alias", "opt", "vec", "fvec", "farr", "ndarr", "dynarr") else "(" + x + ")"
        if k == "opt":
            if inner is None or self.style["optional"] != "question":
                return None
            return atom(inner, t["t"]) + "?"
        if k == "vec":
            return None if inner is None else atom(inner, t["t"]) + "*"
        if k == "fvec":
            return None if inner is None else atom(inner, t["t"]) + "*%d" % t["n"]
        if k == "farr":
            return None if inner is None else atom(inner, t["t"]) + "[" + ", ".join(str(d) for d in t["dims"]) + "]"
        if k == "ndarr":
            return None if inner is None else atom(inner, t["t"]) + "[" + "," * (t["r"] - 1) + "]" if t["r"] > 1 else (None if inner is None else atom(inner, t["t"]) + "[()]" if False else None)
        if k == "dynarr":
            return None if inner is None else atom(inner, t["t"]) + "[]"
        if k == "map":
            a, b = self.short(t["kt"]), self.short(t["vt"])
            if a is None or b is None or t["vt"]["k"] == "map":
                return None
            return atom(a, t["kt"]) + "->" + (b if t["vt"]["k"] != "union" else "(" + b + ")")
        return None

    def node(self, t):
        k = t["k"]
        if self.style["shorthand"] and k not in ("enum", "flags", "rec", "alias", "union", "prim"):
            s = self.short(t)
            if s is not None:
                return json.dumps(s) if any(ch in s for ch in "[]{},*?&!|>") or s.startswith("(") else s
        if k == "prim":
            return self.prim(t["p"])
        if k == "opt":
            return "[null, %s]" % self.node(t["t"])
        if k == "vec":
            return "!vector {items: %s}" % self.node(t["t"])
        if k == "fvec":
            return "!vector {items: %s, length: %d}" % (self.node(t["t"]), t["n"])
        if k == "farr":
            return "!array {items: %s, dimensions: [%s]}" % (self.node(t["t"]), ", ".join(str(d) for d in t["dims"]))
        if k == "ndarr":
            return "!array {items: %s, dimensions: %d}" % (self.node(t["t"]), t["r"])
        if k == "dynarr":
            return "!array {items: %s}" % self.node(t["t"])
        if k == "map":
            return "!map {keys: %s, values: %s}" % (self.node(t["kt"]), self.node(t["vt"]))
        if k == "union" and self.style["generic_unions"] and len(t["cases"]) >= 2:
            # the union is spelled as an instance of a generic union alias GU<T1, .., Tn>: [T1, .., Tn] (same thing on the wire;
            # its NDJSON form uses the parameter names as tags and is not described by the reference)
            # only the first case is a type parameter: GU<T1>: [T1, <the other cases as written>]
            rest = [self.node(c["t"]) for c in t["cases"][1:]]
            gname = tname("U", [rest, t["nullable"]])
            tags_ok = all(c["t"]["k"] in ("prim", "enum", "flags", "alias") for c in t["cases"][1:])
            if tags_ok:
                self._define(gname, "%s<T1>: [%sT1, %s]" % (gname, "null, " if t["nullable"] else "", ", ".join(rest)))
                return "!generic {name: %s, args: [%s]}" % (gname, self.node(t["cases"][0]["t"]))
        if k == "union":
            cases = t["cases"]
            simple = all(c["t"]["k"] == "prim" and c["tag"] == c["t"]["p"] for c in cases)
            if simple:
                return "[%s%s]" % ("null, " if t["nullable"] else "", ", ".join(self.prim(c["t"]["p"]) for c in cases))
            parts = (["null: null"] if t["nullable"] else []) + ["%s: %s" % (c["tag"], self.node(c["t"])) for c in cases]
            return "!union {%s}" % ", ".join(parts)
        if k == "enum" or k == "flags":
            name = tname("E" if k == "enum" else "F", t)
            vals = ", ".join("%s: %d" % (s["s"], tokens.from_digits(s["v"]["neg"], s["v"]["mag"])) for s in t["syms"])
            base = self.prim(t["base"])
            if t.get("balias"):
                # the base type is named through an alias of the primitive
                base = "B" + t["base"].capitalize()
                self._define(base, "%s: %s" % (base, self.prim(t["base"])))
            self._define(name, "%s: !%s {base: %s, values: {%s}}" % (name, k, base, vals))
            return name
        if k == "rec" and self.style["generics"] != "none" and t["fields"]:
            # the record is spelled as an instance of a generic record whose fields are its type parameters
            # (defined locally or in the imported package Lib); on the wire this is the same record
            # a field that is a union of a first case and primitive further cases keeps the union in the generic definition with only
            # the first case as parameter (u: [T3, int32]); every other field type is a parameter as a whole
            def open_union(ft):
                return (self.style["generic_unions"] and ft["k"] == "union" and len(ft["cases"]) >= 2 and all(c["t"]["k"] == "prim" and c["tag"] == c["t"]["p"] for c in ft["cases"][1:])
                        and ft["cases"][0]["t"]["k"] == "prim" and ft["cases"][0]["tag"] == ft["cases"][0]["t"]["p"])
            params = ["T%d" % (i + 1) for i in range(len(t["fields"]))]
            fdefs, argl = [], []
            for f, p_ in zip(t["fields"], params):
                if open_union(f["t"]):
                    fdefs.append("%s: [%s%s, %s]" % (f["n"], "null, " if f["t"]["nullable"] else "", p_, ", ".join(self.prim(c["t"]["p"]) for c in f["t"]["cases"][1:])))
                    argl.append(self.node(f["t"]["cases"][0]["t"]))
                else:
                    fdefs.append("%s: %s" % (f["n"], p_))
                    argl.append(self.node(f["t"]))
            gname = tname("G", fdefs)
            gdef = "%s<%s>: !record {fields: {%s}}" % (gname, ", ".join(params), ", ".join(fdefs))
            args = ", ".join(argl)
            qual = "Lib." + gname if self.style["generics"] == "imported" else gname
            if self.style["generics"] == "imported":
                if gname not in self.lib_defs:
                    self.lib_defs[gname] = gdef
                    self.lib_order.append(gname)
            else:
                self._define(gname, gdef)
            if self.style["shorthand"]:
                shorts = [self.short(f["t"]["cases"][0]["t"] if open_union(f["t"]) else f["t"]) for f in t["fields"]]
                if all(x is not None and "->" not in x for x in shorts):
                    return json.dumps("%s<%s>" % (qual, ", ".join(shorts)))
            return "!generic {name: %s, args: [%s]}" % (qual, args)
        if k == "rec":
            name = tname("R", t)
            fields = ", ".join("%s: %s" % (f["n"], self.node(f["t"])) for f in t["fields"])
            self._define(name, "%s: !record {fields: {%s}}" % (name, fields))
            return name
        if k == "alias":
            name = tname("A", t)
            self._define(name, "%s: %s" % (name, self.node(t["t"])))
            return name
        raise ValueError(k)

    def protocol(self, name, steps):
        """steps: list of (step name, type tree, is_stream)."""
        seq = []
        for sn, t, stream in steps:
            n = self.node(t)
            seq.append("    %s: %s" % (sn, ("!stream {items: %s}" % n) if stream else n))
        return "%s: !protocol\n  sequence:\n%s\n" % (name, "\n".join(seq))

    def model_text(self, protocols_text):
        return "\n".join(self.defs[n] for n in self.order) + "\n" + protocols_text

    def lib_text(self):
        return "\n".join(self.lib_defs[n] for n in self.lib_order) + "\n"

    def definitions(self, protocols_text):
        """All top-level definitions as separate texts (for reordering / splitting into files)."""
        return [self.defs[n] + "\n" for n in self.order] + [protocols_text]


# ----------------------------------------------------------------------------- JSON trees

def render(tree):
    """Spec JSON tree -> Python value ready for json.dumps."""
    j = tree["j"]
    if j == "int":
        return tokens.from_digits(tree["neg"], tree["mag"])
    if j == "f":
        return tokens.leaf_value("f", tree["tok"])
    if j == "s":
        return tokens.leaf_value("s", tree["tok"])
    if j == "lit":
        return tree["s"]
    if j in ("date", "time", "datetime"):
        return tokens.leaf_value(j, tree["tok"])
    if j == "bool":
        return tree["b"]
    if j == "null":
        return None
    if j == "arr":
        return [render(x) for x in tree["items"]]
    if j == "obj":
        return {(k if isinstance(k, str) else render(k)): render(v) for k, v in tree["members"]}
    raise ValueError(j)


def _num(x):
    return isinstance(x, (int, float)) and not isinstance(x, bool)


def match(tree, actual):
    """Does the actual JSON value equal the spec tree (leaf-kind aware)?"""
    j = tree["j"]
    if j == "int":
        want = tokens.from_digits(tree["neg"], tree["mag"])
        if isinstance(actual, bool) or not _num(actual):
            return False
        return actual == want and (isinstance(actual, int) or float(actual).is_integer())
    if j == "f":
        if not _num(actual):
            return False
        want = tokens.leaf_value("f", tree["tok"])
        if tree["tok"].startswith("f32"):
            try:
                return struct.pack("<f", actual) == struct.pack("<f", want)
            except OverflowError:
                return False
        return struct.pack("<d", float(actual)) == struct.pack("<d", want)
    if j in ("s", "lit"):
        return isinstance(actual, str) and actual == render(tree)
    if j in ("date", "time", "datetime"):
        if not isinstance(actual, str):
            return False
        want = render(tree)
        # ndjson.md gives the fraction as "FFFFFFFFF" (optional digits): trailing zeros, or a zero fraction altogether,
        # may be dropped; its datetime example carries a trailing "Z" that the format description lacks.
        def norm(x):
            if j == "datetime" and x.endswith("Z"):
                x = x[:-1]
            if j in ("time", "datetime") and "." in x:
                x = x.rstrip("0").rstrip(".")
            return x
        return norm(actual) == norm(want)
    if j == "bool":
        return isinstance(actual, bool) and actual == tree["b"]
    if j == "null":
        return actual is None
    if j == "arr":
        return isinstance(actual, list) and len(actual) == len(tree["items"]) and all(match(t, a) for t, a in zip(tree["items"], actual))
    if j == "obj":
        if not isinstance(actual, dict):
            return False
        want = {(k if isinstance(k, str) else render(k)): v for k, v in tree["members"]}
        return set(want) == set(actual) and all(match(v, actual[k]) for k, v in want.items())
    return False


def match_any(trees, actual):
    return any(match(t, actual) for t in trees)


# ----------------------------------------------------------------------------- framing

MAGIC = b"yardl"


def varint(n):
    out = bytearray()
    while True:
        b = n & 0x7F
        n >>= 7
        if n:
            out.append(b | 0x80)
        else:
            out.append(b)
            return bytes(out)


def binary_header(schema):
    s = schema.encode("utf-8")
    return MAGIC + struct.pack("<i", 1) + varint(len(s)) + s


def ndjson_header(schema):
    return json.dumps({"yardl": {"version": 1, "schema": json.loads(schema)}}, separators=(",", ":"))


def read_varint(buf, pos):
    shift = 0
    val = 0
    while True:
        if pos >= len(buf):
            return None, pos
        b = buf[pos]
        pos += 1
        val |= (b & 0x7F) << shift
        if not b & 0x80:
            return val, pos
        shift += 7
        if shift > 70:
            return None, pos


def match_binary_stream(buf, schema, steps):
    """steps: list of ("value", [alts as bytes]) or ("stream", [[alts] per item]).
    Returns (ok, message).  A stream step may be partitioned into blocks in any way."""
    h = binary_header(schema)
    if buf[:len(h)] != h:
        return False, "header differs"
    pos = len(h)
    for si, (kind, data) in enumerate(steps):
        if kind == "value":
            for alt in data:
                if buf[pos:pos + len(alt)] == alt:
                    pos += len(alt)
                    break
            else:
                return False, "step %d: bytes at offset %d match none of the %d admissible encodings (got %s, expected e.g. %s)" % (
                    si, pos, len(data), buf[pos:pos + 24].hex(), data[0][:24].hex())
        else:
            k = 0
            while True:
                n, npos = read_varint(buf, pos)
                if n is None:
                    return False, "step %d: truncated block length at %d" % (si, pos)
                pos = npos
                if n == 0:
                    break
                for _ in range(n):
                    if k >= len(data):
                        return False, "step %d: more items than written" % si
                    for alt in data[k]:
                        if buf[pos:pos + len(alt)] == alt:
                            pos += len(alt)
                            break
                    else:
                        return False, "step %d item %d: bytes at offset %d match none of the admissible encodings (got %s, expected e.g. %s)" % (
                            si, k, pos, buf[pos:pos + 24].hex(), data[k][0][:24].hex())
                    k += 1
            if k != len(data):
                return False, "step %d: %d items in stream, %d written" % (si, k, len(data))
    if pos != len(buf):
        return False, "trailing bytes after last step (%d)" % (len(buf) - pos)
    return True, ""


def compose_binary(schema, steps, block=None):
    """steps: ("value", bytes) | ("stream", [bytes...]); block = items per block (None: one block)."""
    out = bytearray(binary_header(schema))
    for kind, data in steps:
        if kind == "value":
            out += data
        else:
            i = 0
            n = len(data)
            part = list(block) if isinstance(block, (list, tuple)) else None     # explicit block lengths
            while i < n:
                if part is not None:
                    b = part.pop(0) if part else n - i
                    b = min(b, n - i)
                else:
                    b = n - i if not block else min(block, n - i)
                out += varint(b)
                for x in data[i:i + b]:
                    out += x
                i += b
            out += b"\x00"
    return bytes(out)


def compose_ndjson(schema, steps):
    """steps: (name, "value", tree) | (name, "stream", [tree...])."""
    lines = [ndjson_header(schema)]
    for name, kind, data in steps:
        for tree in ([data] if kind == "value" else data):
            lines.append(json.dumps({name: render(tree)}, separators=(",", ":"), ensure_ascii=False, allow_nan=False))
    return "\n".join(lines) + "\n"


def match_ndjson(text, schema, steps):
    """steps: (name, "value", [tree alts]) | (name, "stream", [[tree alts] per item])."""
    lines = [l for l in text.split("\n") if l.strip() != ""]
    if not lines:
        return False, "empty output"
    try:
        h = json.loads(lines[0])
    except Exception as e:
        return False, "header line is not JSON: %s" % e
    if h != {"yardl": {"version": 1, "schema": json.loads(schema)}}:
        return False, "header line differs"
    expect = []
    for name, kind, data in steps:
        for alts in ([data] if kind == "value" else data):
            expect.append((name, alts))
    if len(lines) - 1 != len(expect):
        return False, "%d value lines, expected %d" % (len(lines) - 1, len(expect))
    for li, (line, (name, alts)) in enumerate(zip(lines[1:], expect)):
        try:
            obj = json.loads(line)
        except Exception as e:
            return False, "line %d is not JSON: %s" % (li + 2, e)
        if not isinstance(obj, dict) or list(obj.keys()) != [name]:
            return False, "line %d: expected a single member %r, got %s" % (li + 2, name, line[:120])
        if not match_any(alts, obj[name]):
            return False, "line %d (%s): %s is not the documented JSON of the value (expected e.g. %s)" % (
                li + 2, name, line[:200], json.dumps(render(alts[0]))[:200])
    return True, ""


def extract_schema_py(protocols_py_text, proto):
    """The schema literal embedded in generated Python (class <proto>WriterBase)."""
    import re
    m = re.search(r'class %sWriterBase\(.*?schema = r"""(.*?)"""' % re.escape(proto), protocols_py_text, re.S)
    return m.group(1) if m else None


def extract_schema_cpp(protocols_cc_text, proto):
    """The schema literal embedded in generated C++ (<proto>WriterBase::schema_): one raw string literal, or several adjacent
    string literals (which the compiler concatenates)."""
    import re
    m = re.search(r'std::string %sWriterBase::schema_\s*=(.*?);\s*\n' % re.escape(proto), protocols_cc_text, re.S)
    if not m:
        return None
    init = m.group(1)
    parts, pos = [], 0
    tok = re.compile(r'\s*(?:R"([^()\s]*)\((.*?)\)\1"|"((?:[^"\\\n]|\\.)*)")', re.S)
    while pos < len(init):
        t = tok.match(init, pos)
        if not t:
            break
        if t.group(3) is not None:
            parts.append(bytes(t.group(3), "utf-8").decode("unicode_escape"))
        else:
            parts.append(t.group(2))
        pos = t.end()
    if init[pos:].strip():
        return None         # something other than string literals: not understood
    return "".join(parts)
