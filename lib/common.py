"""Shared harness code for the /verif checks on microsoft/yardl.

Everything here is deliberately small: scratch management, building yardl from /repo's
working tree, running TLC, writing evidence, matching known findings, reporting verdicts.
Verdict policy (DESIGN.md 2.2): VIOLATION only from observable real-code behaviour;
infrastructure trouble is exit 2.
"""
import atexit, hashlib, json, os, random, re, shutil, signal, subprocess, sys, tempfile, time

VERIF = os.path.dirname(os.path.dirname(os.path.abspath(__file__)))
REPO = os.environ.get("VERIF_REPO", "/repo")
SPEC = os.path.join(VERIF, "spec")
PY = shutil.which("python3-vt") or "/usr/local/bin/python3-vt"
NCPU = int(os.environ.get("VERIF_JOBS", str(os.cpu_count() or 4)))

START = time.time()


class Inconclusive(Exception):
    """Infrastructure problem: the check could not decide (exit 2)."""


def seed():
    try:
        return int(os.environ.get("VERIF_SEED", "1"))
    except ValueError:
        return 1


def tier(argv=None):
    argv = sys.argv if argv is None else argv
    t = os.environ.get("VERIF_TIER", "")
    if "--tier" in argv:
        t = argv[argv.index("--tier") + 1]
    if "--thorough" in argv:
        t = "thorough"
    return "thorough" if t == "thorough" else "quick"


_scratch_roots = []


def scratch(prefix="verif-"):
    base = os.environ.get("VERIF_SCRATCH_BASE", tempfile.gettempdir())
    d = tempfile.mkdtemp(prefix=prefix, dir=base)
    _scratch_roots.append(d)
    return d


def _cleanup():
    if os.environ.get("VERIF_KEEP"):
        return
    for d in _scratch_roots:
        shutil.rmtree(d, ignore_errors=True)


atexit.register(_cleanup)


def _sigterm(*_):
    _cleanup()
    os._exit(2)


signal.signal(signal.SIGTERM, _sigterm)


def go_env():
    env = dict(os.environ)
    env["GOFLAGS"] = "-mod=mod"
    env["GOPROXY"] = "off"
    env.pop("GOSUMDB", None)
    env.pop("GOTOOLCHAIN", None)
    return env


def run(cmd, cwd=None, env=None, timeout=600, input=None, check=False):
    """subprocess.run wrapper returning (rc, stdout, stderr) as text; rc=-9 on timeout."""
    try:
        p = subprocess.run(cmd, cwd=cwd, env=env, input=input, stdout=subprocess.PIPE,
                           stderr=subprocess.PIPE, timeout=timeout)
        rc, out, err = p.returncode, p.stdout, p.stderr
    except subprocess.TimeoutExpired as e:
        rc, out, err = -9, e.stdout or b"", e.stderr or b""
    out = out.decode("utf-8", "replace") if isinstance(out, bytes) else out
    err = err.decode("utf-8", "replace") if isinstance(err, bytes) else err
    if check and rc != 0:
        raise Inconclusive("command failed rc=%s: %s\n%s\n%s" % (rc, cmd, out[-2000:], err[-2000:]))
    return rc, out, err


def build_yardl(dest_dir, tags="verif"):
    """Build the yardl CLI from /repo's *current working tree* (hooks on by default)."""
    out = os.path.join(dest_dir, "yardl")
    cmd = ["go", "build"]
    if tags:
        cmd += ["-tags", tags]
    cmd += ["-o", out, "./cmd/yardl"]
    rc, so, se = run(cmd, cwd=os.path.join(REPO, "tooling"), env=go_env(), timeout=900)
    if rc != 0:
        raise Inconclusive("yardl does not build from the working tree:\n" + se[-4000:])
    return out


def yardl_env(home):
    """Environment for running the yardl CLI: private HOME (package cache), no colour."""
    env = dict(os.environ)
    env["HOME"] = home
    env["NO_COLOR"] = "1"
    os.makedirs(home, exist_ok=True)
    return env


# ----------------------------------------------------------------------------- TLC

class TlcResult:
    def __init__(self, rc, out, wall):
        self.rc, self.out, self.wall = rc, out, wall
        m = re.search(r"(\d+) states generated, (\d+) distinct states found", out)
        self.generated = int(m.group(1)) if m else 0
        self.distinct = int(m.group(2)) if m else 0
        if not m:
            m2 = re.search(r"The number of states generated: (\d+)", out)
            if m2:
                self.generated = int(m2.group(1))
                self.distinct = self.generated
        self.ok = (rc == 0 and ("No error has been found" in out or "Finished in" in out)
                   and "Error:" not in out)
        self.invariant_violated = bool(re.search(r"Invariant .* is violated|Temporal properties were violated|"
                                                 r"Action property .* is violated|Assumption .* is false|"
                                                 r"Postcondition .* violated|Postcondition \S+ .* is false|"
                                                 r"POSTCONDITION", out) and not self.ok)

    def violated_names(self):
        return re.findall(r"(?:Invariant|Action property|Assumption) (\S+?) is (?:violated|false)", self.out)


def tlc(module, cfg=None, spec_dirs=None, workdir=None, workers=None, timeout=600, env=None,
        extra=None, simulate=None, depth=None, tlc_seed=None, deadlock=False, java_opts=None):
    """Run TLC on spec module `module` (a path relative to /verif/spec or absolute).

    The whole spec tree is copied into a scratch directory first because TLC litters states/
    and generated files next to the module.  Returns TlcResult.  Raises Inconclusive on
    tool crash / timeout."""
    wd = workdir or scratch("verif-tlc-")
    flat = os.path.join(wd, "spec")
    if not os.path.isdir(flat):
        os.makedirs(flat)
        # flatten: TLC resolves EXTENDS by file name in the module's own directory
        for root, _, files in os.walk(SPEC):
            for f in files:
                if f.endswith((".tla", ".cfg")):
                    shutil.copy(os.path.join(root, f), os.path.join(flat, f))
        for d in spec_dirs or []:
            for f in os.listdir(d):
                if f.endswith((".tla", ".cfg", ".json", ".ndjson")):
                    shutil.copy(os.path.join(d, f), os.path.join(flat, f))
    mod = os.path.basename(module)
    if not mod.endswith(".tla"):
        mod += ".tla"
    cmd = ["tlc", "-metadir", os.path.join(wd, "meta-%d" % random.randrange(1 << 30)), "-noGenerateSpecTE"]
    if cfg:
        cmd += ["-config", os.path.basename(cfg)]
    w = workers if workers is not None else min(NCPU, 8)
    cmd += ["-workers", str(w)]
    if not deadlock:
        cmd += ["-deadlock"]
    if simulate:
        cmd += ["-simulate", simulate]
    if depth:
        cmd += ["-depth", str(depth)]
    if tlc_seed is not None:
        cmd += ["-seed", str(tlc_seed)]
    cmd += extra or []
    cmd += [mod]
    e = dict(os.environ)
    e.update(env or {})
    jo = ["-Xss256m", "-Djava.io.tmpdir=" + wd] + (java_opts or [])
    e["JAVA_TOOL_OPTIONS"] = (e.get("JAVA_TOOL_OPTIONS", "") + " " + " ".join(jo)).strip()
    t0 = time.time()
    rc, so, se = run(cmd, cwd=flat, env=e, timeout=timeout)
    res = TlcResult(rc, so + se, time.time() - t0)
    if rc == -9:
        raise Inconclusive("TLC timed out after %ss on %s" % (timeout, mod))
    if not res.ok and not res.invariant_violated:
        # parse / semantic / runtime error in the spec itself: infrastructure
        raise Inconclusive("TLC failed on %s (rc=%s):\n%s" % (mod, rc, res.out[-6000:]))
    return res


# ----------------------------------------------------------------------------- findings & evidence

def load_known_findings():
    path = os.path.join(VERIF, "known_findings.jsonl")
    res = []
    if os.path.exists(path):
        for line in open(path):
            line = line.strip()
            if line and not line.startswith("#"):
                res.append(json.loads(line))
    return res


class Check:
    """Collects results of one check run, prints verdict lines, writes evidence, sets exit code."""

    def __init__(self, prop, level="model_checking"):
        self.prop = prop
        self.level = level
        self.tier = tier()
        self.seed = seed()
        self.rng = random.Random(self.seed * 1000003 + sum(map(ord, prop)))
        self.known = [k for k in load_known_findings() if k.get("property") == prop and k.get("status") == "open"]
        self.known_hit = {}
        self.violations = []
        self.notes = []
        self.cov = {"evaluations": 0, "distinct_nontrivial": 0, "rule": "", "samples": [],
                    "states": 0, "transitions": 0, "traces_validated_against_impl": 0}
        self.assumptions = []
        self._distinct = set()
        self.replay_dir = os.path.join(VERIF, "evidence", "replay") if not os.environ.get("VERIF_NO_EVIDENCE") else "/tmp/verif-seed-replay"

    # -- coverage bookkeeping
    def add_tlc(self, res):
        self.cov["states"] += res.distinct
        self.cov["transitions"] += res.generated
        self.cov.setdefault("tlc_runs", []).append({"distinct": res.distinct, "generated": res.generated,
                                                     "wall_s": round(res.wall, 1)})

    def count(self, key=None, nontrivial=True):
        self.cov["evaluations"] += 1
        if key is not None and nontrivial:
            self._distinct.add(key if isinstance(key, (str, int, tuple)) else json.dumps(key, sort_keys=True))

    def sample(self, obj, limit=6):
        if len(self.cov["samples"]) < limit:
            self.cov["samples"].append(obj)

    def note(self, s):
        self.notes.append(s)
        print("NOTE: " + s)
        sys.stdout.flush()

    # -- verdicts
    def violation(self, key, what, replay):
        """key: stable identifier of the failing input class / call site (matched against known findings)."""
        for k in self.known:
            if re.fullmatch(k["key"], key):
                self.known_hit.setdefault(k["key"], (k, what))
                return False
        os.makedirs(self.replay_dir, exist_ok=True)
        name = "%s-%s.json" % (self.prop, hashlib.sha1((key + json.dumps(replay, sort_keys=True, default=str)).encode()).hexdigest()[:10])
        path = os.path.join(self.replay_dir, name)
        with open(path, "w") as f:
            json.dump({"property": self.prop, "key": key, "what": what, "replay": replay}, f, indent=1, default=str)
        self.violations.append((key, what, path))
        if len(self.violations) <= 25:
            print("VIOLATION property=%s replay=%s  # %s: %s" % (self.prop, path, key, what[:300]))
            sys.stdout.flush()
        return True

    def finish(self, rule=None, exhaustive=None, extra=None):
        if rule:
            self.cov["rule"] = rule
        if exhaustive is not None:
            self.cov["exhaustive"] = exhaustive
        self.cov["distinct_nontrivial"] = len(self._distinct)
        if extra:
            self.cov.update(extra)
        for key, (k, what) in sorted(self.known_hit.items()):
            print("KNOWN-FINDING: property=%s %s -- %s" % (self.prop, key, k.get("what", what)))
        self.cov["known_findings_hit"] = sorted(self.known_hit)
        if self.notes:
            self.cov["notes"] = self.notes[:50]
        ev = {"property_id": self.prop, "tier": self.tier, "seed": self.seed, "level": self.level,
              "coverage": self.cov, "assumptions": self.assumptions,
              "wall_s": round(time.time() - START, 2), "violations": len(self.violations)}
        evdir = os.path.join(VERIF, "evidence") if not os.environ.get("VERIF_NO_EVIDENCE") else scratch("verif-noev-")
        os.makedirs(evdir, exist_ok=True)
        with open(os.path.join(evdir, self.prop + ".json"), "w") as f:
            json.dump(ev, f, indent=1, default=str)
        print("%s %s tier=%s seed=%d evaluations=%d distinct=%d states=%d violations=%d known=%d wall=%.1fs" % (
            "FAIL" if self.violations else "PASS", self.prop, self.tier, self.seed, self.cov["evaluations"],
            self.cov["distinct_nontrivial"], self.cov["states"], len(self.violations), len(self.known_hit),
            time.time() - START))
        sys.stdout.flush()
        _cleanup()
        sys.exit(1 if self.violations else 0)


def main_wrapper(fn):
    """Run a check's main(); map infrastructure exceptions to exit 2."""
    try:
        fn()
    except Inconclusive as e:
        print("INCONCLUSIVE: %s" % e)
        _cleanup()
        sys.exit(2)
    except SystemExit:
        raise
    except Exception:
        import traceback
        traceback.print_exc()
        print("INCONCLUSIVE: harness exception")
        _cleanup()
        sys.exit(2)


def pmap(fn, items, jobs=None):
    """Thread-pool map (the work is in subprocesses)."""
    from concurrent.futures import ThreadPoolExecutor
    with ThreadPoolExecutor(max_workers=jobs or NCPU) as ex:
        return list(ex.map(fn, items))


def snapshot_tree(root):
    """Recursive (relpath -> (sha256, mtime_ns, mode)) snapshot of a directory (absent => {})."""
    res = {}
    if not os.path.isdir(root):
        return res
    for d, dirs, files in os.walk(root):
        dirs.sort()
        rel = os.path.relpath(d, root)
        res[rel + "/"] = ("dir", 0, 0)
        for f in sorted(files):
            p = os.path.join(d, f)
            try:
                st = os.lstat(p)
                if os.path.islink(p):
                    h = "link:" + os.readlink(p)
                else:
                    h = hashlib.sha256(open(p, "rb").read()).hexdigest()
                res[os.path.normpath(os.path.join(rel, f))] = (h, st.st_mtime_ns, st.st_mode)
            except OSError:
                pass
    return res


def tlc_cases(out, tag="CASE"):
    """Extract records exported by the spec with PrintT(<<tag, ToJson(rec)>>)."""
    res = []
    pat = re.compile(r'^<<"%s", (".*")>>\s*$' % re.escape(tag))
    for line in out.splitlines():
        m = pat.match(line.strip())
        if m:
            try:
                res.append(json.loads(json.loads(m.group(1))))
            except Exception:
                # TLC escapes like JSON for the characters we use; anything else is an infrastructure problem
                raise Inconclusive("cannot parse exported case: " + line[:300])
    return res


def tlc_eval(module, timeout=300, env=None, spec_dirs=None, workdir=None):
    """Evaluate a module that consists of ASSUMEs / constant expressions only (empty cfg)."""
    wd = workdir or scratch("verif-tlc-")
    d = os.path.join(wd, "extra")
    os.makedirs(d, exist_ok=True)
    open(os.path.join(d, os.path.basename(module).replace(".tla", "") + ".cfg"), "w").close()
    return tlc(module, cfg=os.path.basename(module).replace(".tla", "") + ".cfg", spec_dirs=[d] + (spec_dirs or []),
               workdir=wd, timeout=timeout, env=env, workers=1)
