"""Building and running the generic drivers against generated code (C++ and Python)."""
import os, re, shutil, json
from common import *

SHIMS = os.path.join(VERIF, "shims")
THIRD = os.path.join(VERIF, "third_party")
PYDRV = os.path.join(VERIF, "drivers", "pydrv.py")

CPP_MAIN = r'''
// generic copy driver emitted by /verif (lib/drivers.py) for protocol %(proto)s in namespace %(ns)s
#include <fstream>
#include <iostream>
#include <string>
#include "binary/protocols.h"
%(ndjson_inc)s
template <class R, class W>
static int do_copy(std::string const& in, std::string const& out, size_t b) {
  (void)b;
  try {
    W w(out);
    try {
      R r(in);
      r.CopyTo(w%(bufargs)s);
      r.Close();
      w.Close();
    } catch (...) {
      w.Flush();
      throw;
    }
  } catch (std::exception const& e) {
    std::cerr << "EXC:" << e.what() << std::endl;
    return 1;
  }
  return 0;
}
int main(int argc, char** argv) {
  if (argc < 6) { std::cerr << "usage" << std::endl; return 3; }
  std::string cmd = argv[1], infmt = argv[2], outfmt = argv[3], in = argv[4], out = argv[5];
  size_t b = argc > 6 ? std::stoul(argv[6]) : 1;
  using BR = %(ns)s::binary::%(proto)sReader; using BW = %(ns)s::binary::%(proto)sWriter;
%(ndjson_using)s
  if (infmt == "binary" && outfmt == "binary") return do_copy<BR, BW>(in, out, b);
%(ndjson_cases)s
  std::cerr << "unsupported" << std::endl;
  return 3;
}
'''


def cpp_build(gen_dir, ns_cpp, proto, n_streams, out_exe, ndjson=True, sanitize=False, extra_flags=None, jobs=4):
    """Compile generated sources in gen_dir (+ the copy driver) into out_exe. Raises Inconclusive on compiler failure
    *of the driver*; returns (ok, log): ok False means the *generated code* did not compile (callers decide)."""
    shutil.copy(os.path.join(SHIMS, "yardl_shim_ndarray.h"), os.path.join(gen_dir, "yardl", "yardl_shim_ndarray.h"))
    main = CPP_MAIN % {
        "proto": proto, "ns": ns_cpp,
        "bufargs": "".join(", b" for _ in range(n_streams)),
        "ndjson_inc": '#include "ndjson/protocols.h"' if ndjson else "",
        "ndjson_using": ("  using JR = %s::ndjson::%sReader; using JW = %s::ndjson::%sWriter;" % (ns_cpp, proto, ns_cpp, proto)) if ndjson else "",
        "ndjson_cases": ('  if (infmt == "binary" && outfmt == "ndjson") return do_copy<BR, JW>(in, out, b);\n'
                         '  if (infmt == "ndjson" && outfmt == "binary") return do_copy<JR, BW>(in, out, b);\n'
                         '  if (infmt == "ndjson" && outfmt == "ndjson") return do_copy<JR, JW>(in, out, b);') if ndjson else "",
    }
    with open(os.path.join(gen_dir, "verif_main.cc"), "w") as f:
        f.write(main)
    srcs = ["types.cc", "protocols.cc", "binary/protocols.cc", "verif_main.cc"] + (["ndjson/protocols.cc"] if ndjson else [])
    flags = ["-std=c++17", "-O0", "-I", SHIMS, "-I", THIRD, "-I", gen_dir] + (extra_flags or [])
    cxx = "g++"
    if sanitize:
        cxx = "clang++"
        flags += ["-fsanitize=address,undefined", "-fno-sanitize-recover=undefined", "-g"]

    def comp(src):
        obj = os.path.join(gen_dir, src.replace("/", "_") + ".o")
        rc, so, se = run([cxx] + flags + ["-c", os.path.join(gen_dir, src), "-o", obj], timeout=900)
        return src, obj, rc, se

    res = pmap(comp, srcs, jobs=jobs)
    for src, obj, rc, se in res:
        if rc != 0:
            return False, "%s: %s" % (src, se[-3000:])
    rc, so, se = run([cxx] + flags + [o for _, o, _, _ in res] + ["-o", out_exe], timeout=600)
    if rc != 0:
        return False, "link: " + se[-3000:]
    return True, ""


def cpp_copy(exe, infmt, outfmt, infile, outfile, bufsize=1, timeout=60):
    env = dict(os.environ)
    env["ASAN_OPTIONS"] = "detect_leaks=0:abort_on_error=0:exitcode=77"
    env["UBSAN_OPTIONS"] = "halt_on_error=1:exitcode=78"
    rc, so, se = run([exe, "copy", infmt, outfmt, infile, outfile, str(bufsize)], timeout=timeout, env=env)
    return rc, se


def py_copy(pkg_parent, module, proto, infmt, outfmt, infile, outfile, mode="copy", timeout=120):
    rc, so, se = run([PY, PYDRV, pkg_parent, module, proto, "copy", infmt, outfmt, infile, outfile, mode], timeout=timeout)
    return rc, se
