"""Building and running the generic drivers against generated code (C++ and Python)."""
import os, re, shutil, json
from common import *

SHIMS = os.path.join(VERIF, "shims")
THIRD = os.path.join(VERIF, "third_party")
PYDRV = os.path.join(VERIF, "drivers", "pydrv.py")

CPP_MAIN = r'''
// generic copy driver emitted by /verif (lib/drivers.py) for protocol %(proto)s in namespace %(ns)s
#include <fstream>
#include <iostream>
#include <string>
#include "binary/protocols.h"
%(ndjson_inc)s
template <class R, class W>
static int do_copy(std::string const& in, std::string const& out, size_t b) {
  (void)b;
  try {
    W w(out);
    try {
      R r(in);
      r.CopyTo(w%(bufargs)s);
      r.Close();
      w.Close();
    } catch (...) {
      w.Flush();
      throw;
    }
  } catch (std::exception const& e) {
    std::cerr << "EXC:" << e.what() << std::endl;
    return 1;
  }
  return 0;
}
// "cuts": feed every listed prefix of the input to the reader (in memory), copying to a writer; report per cut whether the
// reader raised and whether what had been written before is a line/byte prefix of the output of the complete run.
#include <sstream>
#include <vector>
template <class R, class W>
static int do_cuts(std::string const& in, std::string const& cutsfile, size_t b) {
  (void)b;
  std::ifstream f(in, std::ios::binary);
  std::string data((std::istreambuf_iterator<char>(f)), std::istreambuf_iterator<char>());
  std::vector<size_t> cuts;
  { std::ifstream cf(cutsfile); size_t c; while (cf >> c) cuts.push_back(c); }
  cuts.insert(cuts.begin(), data.size());           // the complete run first
  std::string full;
  for (size_t k = 0; k < cuts.size(); k++) {
    size_t c = cuts[k];
    std::istringstream iss(data.substr(0, c));
    std::ostringstream oss;
    std::string status = "OK", what;
    try {
      W w(oss);
      try {
        R r(iss);
        r.CopyTo(w%(bufargs)s);
        r.Close();
        w.Close();
      } catch (...) { w.Flush(); throw; }
    } catch (std::exception const& e) { status = "EXC"; what = e.what(); }
    std::string out = oss.str();
    if (k == 0) { full = out; std::cout << "FULL " << status << " " << out.size() << " " << what << std::endl; continue; }
    // complete lines only (NDJSON) / raw prefix (binary)
    size_t lastnl = out.rfind('\n');
    std::string complete = lastnl == std::string::npos ? std::string() : out.substr(0, lastnl + 1);
    bool prefix_ok = full.compare(0, complete.size(), complete) == 0;
    size_t nlines = 0; for (char ch : complete) if (ch == '\n') nlines++;
    for (auto& ch : what) if (ch == '\n') ch = ' ';
    std::cout << "CUT " << c << " " << status << " " << nlines << " " << (prefix_ok ? 1 : 0) << " " << what << std::endl;
  }
  return 0;
}

int main(int argc, char** argv) {
  if (argc < 6) { std::cerr << "usage" << std::endl; return 3; }
  std::string cmd = argv[1], infmt = argv[2], outfmt = argv[3], in = argv[4], out = argv[5];
  size_t b = argc > 6 ? std::stoul(argv[6]) : 1;
  using BR = %(ns)s::binary::%(proto)sReader; using BW = %(ns)s::binary::%(proto)sWriter;
%(ndjson_using)s
%(cuts_main)s
  if (infmt == "binary" && outfmt == "binary") return do_copy<BR, BW>(in, out, b);
%(ndjson_cases)s
  std::cerr << "unsupported" << std::endl;
  return 3;
}
'''


def cpp_build(gen_dir, ns_cpp, proto, n_streams, out_exe, ndjson=True, sanitize=False, extra_flags=None, jobs=4):
    """Compile generated sources in gen_dir (+ the copy driver) into out_exe. Raises Inconclusive on compiler failure
    *of the driver*; returns (ok, log): ok False means the *generated code* did not compile (callers decide)."""
    shutil.copy(os.path.join(SHIMS, "yardl_shim_ndarray.h"), os.path.join(gen_dir, "yardl", "yardl_shim_ndarray.h"))
    main = CPP_MAIN % {
        "proto": proto, "ns": ns_cpp,
        "bufargs": "".join(", b" for _ in range(n_streams)),
        "cuts_main": ('  if (cmd == "cuts" && infmt == "binary") return do_cuts<BR, JW>(in, out, b);\n'
                      '  if (cmd == "cuts" && infmt == "ndjson") return do_cuts<JR, JW>(in, out, b);') if ndjson else "",
        "ndjson_inc": '#include "ndjson/protocols.h"' if ndjson else "",
        "ndjson_using": ("  using JR = %s::ndjson::%sReader; using JW = %s::ndjson::%sWriter;" % (ns_cpp, proto, ns_cpp, proto)) if ndjson else "",
        "ndjson_cases": ('  if (infmt == "binary" && outfmt == "ndjson") return do_copy<BR, JW>(in, out, b);\n'
                         '  if (infmt == "ndjson" && outfmt == "binary") return do_copy<JR, BW>(in, out, b);\n'
                         '  if (infmt == "ndjson" && outfmt == "ndjson") return do_copy<JR, JW>(in, out, b);') if ndjson else "",
    }
    with open(os.path.join(gen_dir, "verif_main.cc"), "w") as f:
        f.write(main)
    srcs = ["types.cc", "protocols.cc", "binary/protocols.cc", "verif_main.cc"] + (["ndjson/protocols.cc"] if ndjson else [])
    flags = ["-std=c++17", "-O0", "-I", SHIMS, "-I", THIRD, "-I", gen_dir] + (extra_flags or [])
    cxx = "g++"
    if sanitize:
        cxx = "clang++"
        flags += ["-fsanitize=address,undefined", "-fno-sanitize-recover=undefined", "-g"]

    def comp(src):
        obj = os.path.join(gen_dir, src.replace("/", "_") + ".o")
        rc, so, se = run([cxx] + flags + ["-c", os.path.join(gen_dir, src), "-o", obj], timeout=900)
        return src, obj, rc, se

    res = pmap(comp, srcs, jobs=jobs)
    for src, obj, rc, se in res:
        if rc != 0:
            return False, "%s: %s" % (src, se[-3000:])
    rc, so, se = run([cxx] + flags + [o for _, o, _, _ in res] + ["-o", out_exe], timeout=600)
    if rc != 0:
        return False, "link: " + se[-3000:]
    return True, ""


def cpp_copy(exe, infmt, outfmt, infile, outfile, bufsize=1, timeout=60):
    env = dict(os.environ)
    env["ASAN_OPTIONS"] = "detect_leaks=0:abort_on_error=0:exitcode=77"
    env["UBSAN_OPTIONS"] = "halt_on_error=1:exitcode=78"
    rc, so, se = run([exe, "copy", infmt, outfmt, infile, outfile, str(bufsize)], timeout=timeout, env=env)
    return rc, se


def py_copy(pkg_parent, module, proto, infmt, outfmt, infile, outfile, mode="copy", timeout=120):
    rc, so, se = run([PY, PYDRV, pkg_parent, module, proto, "copy", infmt, outfmt, infile, outfile, mode], timeout=timeout)
    return rc, se


# ----------------------------------------------------------------------------- call-sequence drivers (C07, C17)

def cpp_steps(gen_dir, proto):
    """Parse <gen_dir>/protocols.h: -> list of (MethodSuffix, cpp type, is_stream) in declaration order."""
    txt = open(os.path.join(gen_dir, "protocols.h")).read()
    m = re.search(r"class %sReaderBase \{(.*?)\n\};" % re.escape(proto), txt, re.S)
    if not m:
        raise Inconclusive("cannot find %sReaderBase in generated protocols.h" % proto)
    body = m.group(1).split("protected:")[0]
    steps = []
    for mm in re.finditer(r"^\s*(\[\[nodiscard\]\] bool|void) Read(\w+)\((.*)& (values?)\);\s*$", body, re.M):
        ret, name, typ, arg = mm.groups()
        if arg == "values":
            continue
        steps.append((name, typ.strip(), ret != "void"))
    return steps


CALLS_MAIN = r'''
// call-sequence driver emitted by /verif (lib/drivers.py): executes a script of API calls on the generated reader / writer
#include <fstream>
#include <iostream>
#include <sstream>
#include <string>
#include "binary/protocols.h"
%(ndjson_inc)s
using namespace %(ns)s;

static void emit(std::string const& step, nlohmann::ordered_json const& j) {
  std::cout << "VAL " << step << " " << j.dump() << "\n";
}

template <class R>
static int rcalls(std::string const& file) {
  std::string op;
  bool keepgoing = false; int status = 0;
  try {
    R r(file);
    std::cout << "OPEN" << std::endl;
    while (std::cin >> op) {
      if (op == "keepgoing") { keepgoing = true; continue; }
      try {
        if (op == "close") { r.Close(); std::cout << "OK close" << std::endl; continue; }
        int i; std::cin >> i;
        size_t cap = 0;
        if (op == "batch") std::cin >> cap;
        switch (i) {
%(rcases)s
          default: std::cout << "BADSTEP" << std::endl; return 3;
        }
      } catch (std::exception const& e) {
        std::cout << "EXC " << e.what() << std::endl;
        if (!keepgoing) return 1;
        status = 1;
      }
    }
  } catch (std::exception const& e) {
    std::cout << "EXC-OPEN " << e.what() << std::endl;
    return 1;
  }
  return status;
}

template <class W>
static int wcalls(std::string const& file) {
  std::string op;
  bool keepgoing = false; int status = 0;
  try {
    W w(file);
    std::cout << "OPEN" << std::endl;
    while (std::cin >> op) {
      if (op == "keepgoing") { keepgoing = true; continue; }
      try {
        if (op == "close") { w.Close(); std::cout << "OK close" << std::endl; continue; }
        int i; std::cin >> i;
        size_t n = 0;
        if (op == "wbatch") std::cin >> n;
        switch (i) {
%(wcases)s
          default: std::cout << "BADSTEP" << std::endl; return 3;
        }
      } catch (std::exception const& e) {
        std::cout << "EXC " << e.what() << std::endl;
        if (!keepgoing) return 1;
        status = 1;
      }
    }
    w.Flush();
  } catch (std::exception const& e) {
    std::cout << "EXC-OPEN " << e.what() << std::endl;
    return 1;
  }
  return status;
}

int main(int argc, char** argv) {
  if (argc < 4) return 3;
  std::string cmd = argv[1], fmt = argv[2], file = argv[3];
  if (cmd == "rcalls" && fmt == "binary") return rcalls<%(ns)s::binary::%(proto)sReader>(file);
  if (cmd == "wcalls" && fmt == "binary") return wcalls<%(ns)s::binary::%(proto)sWriter>(file);
%(ndjson_main)s
  return 3;
}
'''


def cpp_build_calls(gen_dir, ns_cpp, proto, out_exe, ndjson=True, extra_flags=None):
    """Builds the call-sequence driver.  With ndjson=True delivered values are printed as JSON (the generated NDJSON
    converters are included textually, they live in ndjson/protocols.cc)."""
    shutil.copy(os.path.join(SHIMS, "yardl_shim_ndarray.h"), os.path.join(gen_dir, "yardl", "yardl_shim_ndarray.h"))
    steps = cpp_steps(gen_dir, proto)
    rc_, wc_ = [], []
    for i, (name, typ, stream) in enumerate(steps):
        js = ("emit(\"%s\", nlohmann::ordered_json(v));" % name) if ndjson else ""
        jsb = ("for (auto const& v : vs) emit(\"%s\", nlohmann::ordered_json(v));" % name) if ndjson else ""
        if stream:
            rc_.append('          case %d: { if (op == "batch") { std::vector<%s> vs; vs.reserve(cap); bool more = r.Read%s(vs); '
                       'std::cout << "OK " << more << " " << vs.size() << "\\n"; %s std::cout << std::flush; } '
                       'else { %s v{}; bool more = r.Read%s(v); std::cout << "OK " << more << " " << (more ? 1 : 0) << "\\n"; if (more) { %s } std::cout << std::flush; } break; }'
                       % (i, typ, name, jsb, typ, name, js))
            wc_.append('          case %d: { if (op == "end") { w.End%s(); } else if (op == "wbatch") { std::vector<%s> vs(n); w.Write%s(vs); } '
                       'else { %s v{}; w.Write%s(v); } std::cout << "OK" << std::endl; break; }' % (i, name, typ, name, typ, name))
        else:
            rc_.append('          case %d: { %s v{}; r.Read%s(v); std::cout << "OK 0 1\\n"; %s std::cout << std::flush; break; }' % (i, typ, name, js))
            wc_.append('          case %d: { %s v{}; w.Write%s(v); std::cout << "OK" << std::endl; break; }' % (i, typ, name))
    main = CALLS_MAIN % {
        "ns": ns_cpp, "proto": proto, "rcases": "\n".join(rc_), "wcases": "\n".join(wc_),
        "ndjson_inc": '#include "ndjson/protocols.cc"' if ndjson else '#include <nlohmann/json.hpp>',
        "ndjson_main": ('  if (cmd == "rcalls" && fmt == "ndjson") return rcalls<%s::ndjson::%sReader>(file);\n'
                        '  if (cmd == "wcalls" && fmt == "ndjson") return wcalls<%s::ndjson::%sWriter>(file);' % (ns_cpp, proto, ns_cpp, proto)) if ndjson else "",
    }
    with open(os.path.join(gen_dir, "verif_calls.cc"), "w") as f:
        f.write(main)
    srcs = ["types.cc", "protocols.cc", "binary/protocols.cc", "verif_calls.cc"]
    flags = ["-std=c++17", "-O0", "-I", SHIMS, "-I", THIRD, "-I", gen_dir] + (extra_flags or [])

    def comp(src):
        obj = os.path.join(gen_dir, "calls_" + src.replace("/", "_") + ".o")
        rc, so, se = run(["g++"] + flags + ["-c", os.path.join(gen_dir, src), "-o", obj], timeout=900)
        return src, obj, rc, se
    res = pmap(comp, srcs, jobs=4)
    for src, obj, rc, se in res:
        if rc != 0:
            return False, "%s: %s" % (src, se[-3000:]), steps
    rc, so, se = run(["g++"] + flags + [o for _, o, _, _ in res] + ["-o", out_exe], timeout=600)
    if rc != 0:
        return False, "link: " + se[-3000:], steps
    return True, "", steps


def run_calls(exe_or_py, cmd, fmt, file, script, timeout=60):
    """script: list of call strings.  Returns list of output lines (OPEN / OK ... / VAL ... / EXC ...)."""
    rc, so, se = run(exe_or_py + [cmd, fmt, file], input=("\n".join(script) + "\n").encode(), timeout=timeout)
    return rc, [l for l in so.splitlines() if l.strip()], se


def cpp_cuts(exe, infmt, infile, cuts, bufsize=1, timeout=600):
    """-> (full_status, {cut: (status, nlines, prefix_ok, what)}, raw stderr, rc)"""
    cf = infile + ".cuts"
    with open(cf, "w") as f:
        f.write("\n".join(str(c) for c in cuts) + "\n")
    env = dict(os.environ)
    env["ASAN_OPTIONS"] = "detect_leaks=0:abort_on_error=0:exitcode=77"
    env["UBSAN_OPTIONS"] = "halt_on_error=1:exitcode=78:print_stacktrace=1"
    rc, so, se = run([exe, "cuts", infmt, "ndjson", infile, cf, str(bufsize)], timeout=timeout, env=env)
    full, res = None, {}
    for l in so.splitlines():
        a = l.split(" ", 5)
        if a[0] == "FULL":
            full = a[1]
        elif a[0] == "CUT":
            res[int(a[1])] = (a[2], int(a[3]), a[4] == "1", a[5] if len(a) > 5 else "")
    return full, res, se, rc


def py_cuts(pkg_parent, module, proto, infmt, infile, cuts, timeout=900):
    cf = infile + ".cuts"
    with open(cf, "w") as f:
        f.write("\n".join(str(c) for c in cuts) + "\n")
    rc, so, se = run([PY, PYDRV, pkg_parent, module, proto, "cuts", infmt, "ndjson", infile, cf], timeout=timeout)
    full, res = None, {}
    for l in so.splitlines():
        a = l.split(" ", 5)
        if a[0] == "FULL":
            full = a[1]
        elif a[0] == "CUT":
            res[int(a[1])] = (a[2], int(a[3]), a[4] == "1", a[5] if len(a) > 5 else "")
    return full, res, se, rc
